"""C02 - PoSER merging.  Model: coq/Model/M_merge.v, coq/Model/M_poser.v (the class MultiSetup_PoSER and every argument form of
flatten_sns_names); theorems: coq/Properties/C02.v.

Correspondence: gen.merge_mode_shapes / gen.flatten_sns_names / MultiSetup_PoSER.merge_results against the Gallina
model (merge_mode_shapes, flatten_multi, poser_stats evaluated at Qc by vm_compute) on inputs that satisfy the
property's hypothesis (every setup = restriction of one global table times a non-zero real factor per setup and mode).
The class itself is in the model (poser_class: constructor validation, grouping of the setups' algorithms under the names,
statistics, ref_ind forwarding): every end-to-end run on stub SingleSetups (2-5 setups, 1-3 algorithms of different stub
classes) is evaluated in the model as a whole and every field of every algorithm's record is compared.  flatten_sns_names is
compared with flatten_gen in its table / list-of-lists forms (multi-setup: judged) and its other forms (recorded).
Oracle: the property text evaluated with NumPy on the implementation's output (merged == c0*G[order], names order ==
merged rows order, arithmetic mean, population std / mean).
"""
import glob
import json
import os
import typing
from fractions import Fraction

import numpy as np

from common import VERIF, clist, parse_q, qc, qc_c

HEADER = "From PyOMA.Base Require Import Cplx.\nFrom PyOMA.Model Require Import M_merge M_poser."
TOL = 1e-9


# ----------------------------------------------------------------------------------------------------------------------
# generators
# ----------------------------------------------------------------------------------------------------------------------
def gen_factor(rng):
    """+-2^k (1 + j/8) with magnitude in [0.05, 20]."""
    while True:
        c = (2.0 ** rng.randint(-4, 4)) * (1 + rng.randint(0, 7) / 8.0)
        if 0.05 <= c <= 20:
            return c if rng.random() < 0.5 else -c


def gen_layout(rng, nset=None, nref=None, max_rov=5):
    """sensors[i] = global sensor id of every channel of setup i; refs[i] = positions (in listed order) of the
    reference sensors: sensors[i][refs[i][j]] is the same sensor for every i.  Ids are shuffled, positions and the
    listing order of the references are arbitrary."""
    nset = nset or rng.randint(2, 5)
    nref = nref or rng.randint(1, 4)
    nrov = [rng.randint(0, max_rov) for _ in range(nset)]
    if sum(nrov[1:]) == 0 and rng.random() < 0.9:
        nrov[rng.randint(1, nset - 1)] = rng.randint(1, max_rov)
    ids = list(range(nref + sum(nrov) + rng.randint(0, 2)))
    rng.shuffle(ids)
    ref_ids, pool = ids[:nref], ids[nref:]
    sensors, refs = [], []
    for i in range(nset):
        n = nref + nrov[i]
        pos = rng.sample(range(n), nref)  # arbitrary positions, arbitrary listing order
        if rng.random() < 0.15:
            pos = sorted(pos)
        rov = [pool.pop() for _ in range(nrov[i])]
        if i > 0 and rov and rng.random() < 0.05:  # a roving sensor measured twice (allowed, rows simply repeat)
            prev = [s for s in sensors[i - 1] if s not in ref_ids]
            if prev:
                rov[0] = prev[0]
        ch = [None] * n
        for j, p in enumerate(pos):
            ch[p] = ref_ids[j]
        it = iter(rov)
        for p in range(n):
            if ch[p] is None:
                ch[p] = next(it)
        sensors.append(ch)
        refs.append(pos)
    return sensors, refs, len(ids)


def gen_global(rng, nsens, nm, cplx):
    """Short dyadic (Gaussian-)rational global table, sensors x modes, as [[ [re, im] ]]."""
    def v():
        return rng.randint(-24, 24) / 8.0
    return [[[v(), v() if cplx else 0.0] for _ in range(nm)] for _ in range(nsens)]


def draw_global(rng, nsens, nm, cplx, ref_ids):
    for _ in range(50):
        G = gen_global(rng, nsens, nm, cplx)
        if all(not isotropic(G, ref_ids, k) for k in range(nm)):
            break
    return G


def gen_merge_case(rng, kind="merge", nm=None, cplx=None, **kw):
    sensors, refs, nsens = gen_layout(rng, **kw)
    nm = nm or rng.randint(1, 8)
    cplx = (rng.random() < 0.5) if cplx is None else cplx
    G = draw_global(rng, nsens, nm, cplx, [sensors[0][p] for p in refs[0]])
    factors = [[gen_factor(rng) for _ in range(nm)] for _ in sensors]
    return dict(kind=kind, G=G, sensors=sensors, refs=refs, factors=factors,
                dtype="complex" if (cplx or rng.random() < 0.2) else "real", **call_forms(rng))


# ----------------------------------------------------------------------------------------------------------------------
# forms of the call that change no value: read-only input arrays; reference positions as Python ints, NumPy integer
# scalars (int64 / int32 / uint8, elements of np.arange), index arrays, a 2-D index array, a tuple of lists.
# Established on the unchanged tree: merge_mode_shapes, flatten_sns_names and MultiSetup_PoSER accept all of these
# (not an inner TUPLE of positions: NumPy reads phi[(2, 0)] as a 2-D index -> IndexError; the API says list).
# ----------------------------------------------------------------------------------------------------------------------
REF_FORMS = ["int", "int64", "int32", "uint8", "arange", "ndarray", "ndarray32", "ndarray-u16", "array2d", "tuple-outer"]


def call_forms(rng, p_ro=0.4, p_form=0.5):
    out = {}
    if rng.random() < p_ro:
        out["readonly"] = True
    if rng.random() < p_form:
        out["ref_form"] = rng.choice(REF_FORMS[1:])
    return out


def ref_arg(refs, form=None):
    """the reference positions in the requested form (same values)"""
    form = form or "int"
    if form == "int":
        return [[int(p) for p in r] for r in refs]
    if form in ("int64", "int32", "uint8"):
        return [[np.dtype(form).type(p) for p in r] for r in refs]
    if form == "arange":
        ar = np.arange(1 + max(max(r) for r in refs))
        return [[ar[p] for p in r] for r in refs]
    if form == "ndarray":
        return [np.array(r, dtype=np.int64) for r in refs]
    if form == "ndarray32":
        return [np.array(r, dtype=np.int32) for r in refs]
    if form == "ndarray-u16":
        return [np.array(r, dtype=np.uint16) for r in refs]
    if form == "array2d":
        return np.array([list(r) for r in refs], dtype=np.int64)
    if form == "tuple-outer":
        return tuple([int(p) for p in r] for r in refs)
    raise ValueError(form)


def same_refs(arg, refs):
    try:
        return len(arg) == len(refs) and all([int(p) for p in a] == [int(p) for p in r] for a, r in zip(arg, refs))
    except Exception:
        return False


def frozen(arrs, ro):
    """copies handed to the implementation (read-only when asked) and pristine copies to compare with afterwards"""
    given = [np.array(a, copy=True) for a in arrs]
    if ro:
        for a in given:
            a.setflags(write=False)
    return given, [np.array(a, copy=True) for a in arrs]


def untouched(given, kept):
    return all(g.dtype == k.dtype and g.shape == k.shape and np.array_equal(g, k, equal_nan=False) for g, k in zip(given, kept))


def gtg(G, ref_ids, k):
    """exact g^T g (un-conjugated) of the reference part of mode k, and |g|^2."""
    re = sum(Fraction(G[s][k][0]) ** 2 - Fraction(G[s][k][1]) ** 2 for s in ref_ids)
    im = sum(2 * Fraction(G[s][k][0]) * Fraction(G[s][k][1]) for s in ref_ids)
    n2 = sum(Fraction(G[s][k][0]) ** 2 + Fraction(G[s][k][1]) ** 2 for s in ref_ids)
    return re, im, n2


def isotropic(G, ref_ids, k):
    re, im, _ = gtg(G, ref_ids, k)
    return re == 0 and im == 0


def ill_conditioned(G, ref_ids, k):
    re, im, n2 = gtg(G, ref_ids, k)
    return float(re * re + im * im) < (1e-5 * float(n2)) ** 2


def arrays(case):
    """The MSarr_list handed to the implementation: restriction of G to the setup's sensors times the factors."""
    G = np.array([[complex(a, b) for a, b in row] for row in case["G"]])
    if case.get("scale10"):  # the same global table in other units: multiplied overall by 10^k
        G = G * (10.0 ** int(case["scale10"]))
    out = []
    for s, c in zip(case["sensors"], case["factors"]):
        M = G[s, :] * np.array(c, dtype=float)[None, :]
        dt = case["dtypes"][len(out)] if case.get("dtypes") else ("float64" if case["dtype"] == "real" else "complex128")
        A = M.astype(complex) if dt.startswith("complex") else M.real.copy()
        A = np.rint(A).astype(dt) if np.issubdtype(np.dtype(dt), np.integer) else A.astype(dt)
        if not np.array_equal(A.astype(complex), M):  # the cast must not change a value (generator contract)
            raise AssertionError("setup %d is not exactly representable as %s" % (len(out), dt))
        out.append(A)
    return G, out


def low_precision(MS):
    return any(np.asarray(M).dtype in (np.float32, np.complex64) for M in MS)


def phi_tol(MS):
    """float32 inputs make the implementation compute the scale factor in float32 (eps 6e-8): judged at 1e-5, else 1e-9"""
    return 1e-5 if low_precision(MS) else TOL


INT_FACTORS = [1, 2, 3, 4, 5, 6, 7, 8, 9, 10, 11, 12, 13, 14, 15, 16, 18, 20]  # integers of the form 2^k (1 + j/8)


def gen_mixed(rng, sensors, refs, nsens, nm, plan=None):
    """(G, factors, dtypes, plan) with setups of DIFFERENT array dtypes, every setup still an exact re-scaled restriction:
    int-first      first setup int64 (integer G on its sensors, integer factors), later float64 / complex128
    real-first     first setup float64, a later setup complex128 (imaginary parts only on sensors the first setup lacks)
    float32        some or all setups float32 (values have short mantissas)
    int-later      first setup float64, a later setup int64 (integer G on its sensors, integer factors)"""
    plan = plan or rng.choice(["int-first", "int-first", "real-first", "real-first", "float32", "int-later", "all-int", "uint-first", "complex64"])
    nset = len(sensors)
    ref_ids = [sensors[0][p] for p in refs[0]]
    first = set(sensors[0])
    if plan == "real-first" and not any(sid not in first for s_ in sensors[1:] for sid in s_):
        plan = "float32"  # no sensor outside the first setup: nothing can be complex while the first setup stays real
    for _ in range(200):
        G = gen_global(rng, nsens, nm, False)
        factors = [[gen_factor(rng) for _ in range(nm)] for _ in sensors]
        dtypes = ["float64"] * nset
        if plan in ("int-first", "int-later", "uint-first"):
            who = rng.randint(1, nset - 1) if plan == "int-later" else 0
            sgn = [1] if plan == "uint-first" else [-1, 1]
            for sid in sensors[who]:
                for z in G[sid]:
                    z[0] = float(rng.choice(sgn) * rng.randint(1, 9))
            factors[who] = [float(rng.choice(sgn) * rng.choice(INT_FACTORS)) for _ in range(nm)]
            dtypes[who] = rng.choice(["uint32", "uint64"]) if plan == "uint-first" else rng.choice(["int64", "int32"])
        if plan == "all-int":  # every setup integer-valued, stored as int32 / int64
            for row in G:
                for z in row:
                    z[0] = float(rng.choice([-1, 1]) * rng.randint(1, 9))
            factors = [[float(rng.choice([-1, 1]) * rng.choice(INT_FACTORS)) for _ in range(nm)] for _ in sensors]
            dtypes = [rng.choice(["int32", "int64"]) for _ in sensors]
        if plan == "complex64":  # complex shapes, some or all setups stored in single precision
            for row in G:
                for z in row:
                    z[1] = rng.randint(-24, 24) / 8.0
            dtypes = ["complex64" if (i == 0 or rng.random() < 0.6) else "complex128" for i in range(nset)]
        if plan in ("int-first", "real-first"):
            # imaginary parts only where the first setup does not measure: the first setup stays real / integer
            cands = [i for i in range(1, nset) if any(sid not in first for sid in sensors[i])]
            for i in (rng.sample(cands, rng.randint(1, len(cands))) if cands else []):
                if plan == "int-first" and rng.random() < 0.3:
                    continue
                for sid in sensors[i]:
                    if sid not in first:
                        for z in G[sid]:
                            z[1] = rng.choice([-1, 1]) * rng.randint(1, 24) / 8.0
                dtypes[i] = "complex128"
            for i in range(1, nset):  # a sensor made complex above may also sit in another setup
                if any(G[sid][k][1] != 0 for sid in sensors[i] for k in range(nm)):
                    dtypes[i] = "complex128"
        if plan == "float32":
            for i in range(nset):
                if i == 0 or rng.random() < 0.6:
                    dtypes[i] = "float32"
        if len(set(dtypes)) < 2 and plan not in ("float32", "all-int", "complex64"):
            continue
        if all(not isotropic(G, ref_ids, k) for k in range(nm)):
            return G, factors, dtypes, plan
    raise RuntimeError("no mixed-dtype case drawn for plan %s" % plan)


def gen_mixed_case(rng, plan=None):
    for _ in range(100):
        sensors, refs, nsens = gen_layout(rng)
        if sum(len(s) - len(r) for s, r in zip(sensors[1:], refs[1:])) == 0:
            continue
        nm = rng.randint(1, 6)
        G, factors, dtypes, plan_ = gen_mixed(rng, sensors, refs, nsens, nm, plan)
        return dict(kind="merge", G=G, sensors=sensors, refs=refs, factors=factors, dtype="mixed", dtypes=dtypes, plan=plan_, **call_forms(rng))
    raise RuntimeError("no layout with roving sensors drawn")


# ----------------------------------------------------------------------------------------------------------------------
# the property text (NumPy / plain Python only; nothing here comes from the model)
# ----------------------------------------------------------------------------------------------------------------------
def expected_order(sensors, refs):
    order = [sensors[0][p] for p in refs[0]]  # reference sensors, first setup's reference order
    for s, r in zip(sensors, refs):  # then every setup's roving sensors, setup by setup
        order += [sid for p, sid in enumerate(s) if p not in r]
    return order


def expected_merged(case):
    G, _ = arrays(case)
    order = expected_order(case["sensors"], case["refs"])
    return G[order, :] * np.array(case["factors"][0], dtype=float)[None, :], order


def close(a, b, tol=TOL, floor=1.0):
    a, b = np.asarray(a), np.asarray(b)
    if a.shape != b.shape:
        return False
    if a.size == 0:
        return True
    if not (np.all(np.isfinite(a)) and np.all(np.isfinite(b))):
        return False
    return bool(np.max(np.abs(a - b)) <= tol * max(floor, float(np.max(np.abs(b)))) + 1e-12)


def close_rel(a, b, tol=TOL, scale=None):
    """scale-free: |a-b| <= tol * max|b| (shapes have no natural unit: 1e-9 m is as good a shape as 1)."""
    a, b = np.asarray(a), np.asarray(b)
    if a.shape != b.shape:
        return False
    if a.size == 0:
        return True
    if not (np.all(np.isfinite(a)) and np.all(np.isfinite(b))):
        return False
    return bool(np.max(np.abs(a - b)) <= tol * float(np.max(np.abs(b if scale is None else scale))))


def pop_stats(rows):
    """arithmetic mean over the setups and population std / mean, written out (rows: setups x modes)."""
    n, nm = len(rows), len(rows[0])
    mean, disp = [], []
    for k in range(nm):
        col = [float(r[k]) for r in rows]
        m = sum(col) / n
        var = sum((x - m) ** 2 for x in col) / n  # population variance: divisor n, not n-1
        mean.append(m)
        disp.append(var ** 0.5 / m)
    return np.array(mean), np.array(disp)


# ----------------------------------------------------------------------------------------------------------------------
# Coq terms / parsers
# ----------------------------------------------------------------------------------------------------------------------
def coq_nats(l):
    return clist(["%d%%nat" % int(i) for i in l])


def coq_cmat(M):
    return clist([clist([qc_c(z) for z in row]) for row in np.asarray(M)])


def merge_expr(MS, refs):
    return ('match merge_mode_shapes QcOps %s %s with MergeOk m => "ok:" ++ showCMat m | MergeValueErr => "ValueError" '
            '| MergeIndexErr => "IndexError" end' % (clist([coq_cmat(M) for M in MS]), clist([coq_nats(r) for r in refs])))


def merge_exprs(MS, refs):
    """[(expr, first_row, end_row)]: one expression, or several row blocks when the printed table would be long (Show.v
    builds the string by non-tail-recursive appends: ~70 kB of output overflows coqc's stack with 53-bit mantissas)."""
    full = merge_expr(MS, refs)
    nums = max(1, full.count("(q "))
    per_number = 20 if len(full) / nums < 22 else 4 * len(full) / nums
    rows = len(refs[0]) + sum(len(M) - len(refs[0]) for M in MS)
    nm = np.asarray(MS[0]).shape[1]
    est = rows * nm * 2 * per_number
    if est <= 15000 or rows <= 1:
        return [(full, 0, rows)]
    step = max(1, int(rows * 15000 / est))
    return [(full.replace('"ok:" ++ showCMat m', '"ok:" ++ showCMat (firstn %d (skipn %d m))' % (min(step, rows - a), a)), a, min(a + step, rows))
            for a in range(0, rows, step)]


def parse_cmat(s):
    rows = []
    for r in s.split(";"):
        row = []
        for t in r.split(" "):
            a, b = t.split(",")
            row.append(complex(float(parse_q(a)), float(parse_q(b))))
        rows.append(row)
    return np.array(rows)


def stats_expr(rows):
    return ('showL (fun mc => showQc (fst mc) ++ "," ++ showQc (snd mc)) " " (poser_stats QcOps %s)'
            % clist([clist([qc(x) for x in r]) for r in rows]))


def parse_stats(s):
    mean, c2 = [], []
    for t in s.split(" "):
        a, b = t.split(",")
        mean.append(float(parse_q(a)))
        c2.append(float(parse_q(b)))
    return np.array(mean), np.array(c2)


def flatten_expr(names, refs):
    nm = clist([clist(['"%s"' % x for x in row]) for row in names])
    rf = "None" if refs is None else "(Some %s)" % clist([coq_nats(r) for r in refs])
    return 'match flatten_multi %s %s with FlatOk l => join "," l | FlatAttrErr => "AttributeError" end' % (nm, rf)


def coq_strs(l):
    return clist(['"%s"%%string' % x for x in l])


def alg_term(cls, run, fn, xi, phi):
    """one algorithm of one SingleSetup as merge_results reads it: class, has-a-result, result.Fn, result.Xi, result.Phi"""
    return '(Build_alg_res Qc "%s"%%string %s %s %s %s)' % (cls, "true" if run else "false", clist([qc(float(x)) for x in fn]),
                                                          clist([qc(float(x)) for x in xi]), coq_cmat(phi) if len(phi) else "[]")


def class_expr(names, setups, refs, lo, cnt, show="show_class"):
    """MultiSetup_PoSER(ref_ind=refs, single_setups=setups, names=names).merge_results() in the model; rows [lo, lo+cnt) of every Phi"""
    return "%s %d %d (poser_class QcOps %s %s %s)" % (show, lo, cnt, coq_strs(names), clist([clist(su) for su in setups]),
                                                     clist([coq_nats(r) for r in refs]))


def class_setup_terms(algs, nset, cls_names, skip_run=()):
    """setups x algorithms table of alg_term for generated algorithms (payloads as handed to the stubs)"""
    out = []
    for i in range(nset):
        row = []
        for a, sub in enumerate(algs):
            if (i, a) in skip_run:
                row.append(alg_term(cls_names[a], False, [], [], []))
            else:
                _, MS = arrays(sub)
                row.append(alg_term(cls_names[a], True, sub["Fn"][i], sub["Xi"][i], MS[i]))
        out.append(row)
    return out


def class_exprs(names, setups, refs, rows, entries):
    """[(expr, first_row, end_row)]: the whole result in one expression with exact entries; when that string would be long (53-bit
    mantissas: numerators and denominators of hundreds of digits, see merge_exprs) the entries of the merged shapes are printed
    as floor(x * 2^100) instead - about 32 digits each - and only then, if still long, in row windows.  entries = numbers in all
    merged shapes together."""
    full = class_expr(names, setups, refs, 0, rows)
    nums = max(1, full.count("(q "))
    per_number = 20 if len(full) / nums < 22 else 4 * len(full) / nums
    if nums * per_number <= 15000 or rows <= 1:  # the merged tables hold about as many numbers as the inputs
        return [(full, 0, rows)]
    est = entries * 36
    if est <= 30000:
        return [(class_expr(names, setups, refs, 0, rows, "show_class_fix"), 0, rows)]
    step = max(1, int(rows * 30000 / est))
    return [(class_expr(names, setups, refs, a, min(step, rows - a), "show_class_fix"), a, min(a + step, rows)) for a in range(0, rows, step)]


def parse_class(s):
    """{name: (Fn, Fn_cov2, Xi, Xi_cov2, Phi rows)} from "ok:..." (exact entries) or "fix:..." (entries of Phi as floor(x 2^100))"""
    fix, s = s.startswith("fix:"), s.split(":", 1)[1]
    out = {}
    for part in s.split("#"):
        nm_, body = part.split("=", 1)
        f = body.split("|")
        row = lambda t: np.array([float(parse_q(x)) for x in t.split(" ")]) if t else np.zeros(0)
        if not f[4]:
            phi = np.zeros((0, 0))
        elif fix:
            phi = np.array([[complex(float(Fraction(int(t.split(",")[0]), 2 ** 100)), float(Fraction(int(t.split(",")[1]), 2 ** 100))) for t in r.split(" ")]
                            for r in f[4].split(";")])
        else:
            phi = parse_cmat(f[4])
        out[nm_] = (row(f[0]), row(f[1]), row(f[2]), row(f[3]), phi)
    return out


def table_term(rows):
    return clist([clist(["None" if x is None else '(Some "%s"%%string)' % x for x in r]) for r in rows])


def flatgen_expr(arg, refs):
    """arg = ("table", rows with None for NaN) | ("lists", rows) | ("list", names) | ("array", names)"""
    form, val = arg
    a = {"table": lambda: "NTable %s" % table_term(val), "lists": lambda: "NLists %s" % clist([coq_strs(r) for r in val]),
         "list": lambda: "NList %s" % coq_strs(val), "array": lambda: "NArray %s" % coq_strs(val)}[form]()
    rf = "None" if refs is None else "(Some %s)" % clist([coq_nats(r) for r in refs])
    return "show_flat (flatten_gen (%s) %s)" % (a, rf)


# ----------------------------------------------------------------------------------------------------------------------
# stub algorithms for the end-to-end runs (results hold generated Fn / Xi / Phi)
# ----------------------------------------------------------------------------------------------------------------------
def stub_classes():
    from pydantic import BaseModel
    from pyoma2.algorithms.base import BaseAlgorithm
    from pyoma2.algorithms.data.result import BaseResult

    class StubParams(BaseModel):
        p: int = 0

    class StubResult(BaseResult):
        model_config = dict(from_attributes=True, arbitrary_types_allowed=True)
        Xi: typing.Optional[typing.Any] = None

    class StubAlg(BaseAlgorithm[StubParams, StubResult, typing.Iterable[float]]):
        RunParamCls = StubParams
        ResultCls = StubResult
        payload = None

        def run(self):
            return StubResult(**self.payload)

        def mpe(self, *a, **k):
            return None

        def mpe_from_plot(self, *a, **k):
            return None

    class StubAlgB(StubAlg):
        pass

    class StubAlgC(StubAlg):
        pass

    return [StubAlg, StubAlgB, StubAlgC], StubResult


SCALES = [-12, -11, -10, -9, -8, -6, -4, -2, 2, 4, 6, 8, 9, 10, 11, 12]


def gen_algs(rng, sensors, refs, nsens, nalg, scale=None, mixed=None):
    nset = len(sensors)
    algs = []
    for a in range(nalg):
        nm = rng.randint(1, 6)
        if nm == nset and rng.random() < 0.8:
            nm += 1  # setups x modes not square: an axis mix-up cannot cancel
        cplx = rng.random() < 0.5
        sub = dict(kind="alg", G=draw_global(rng, nsens, nm, cplx, [sensors[0][p] for p in refs[0]]), sensors=sensors, refs=refs,
                   factors=[[gen_factor(rng) for _ in range(nm)] for _ in sensors], dtype="complex" if cplx else "real")
        base_f = [rng.randint(8, 400) / 8.0 for _ in range(nm)]
        base_x = [rng.randint(2, 60) / 1024.0 for _ in range(nm)]
        const = rng.random() < 0.1  # identical in every setup: zero dispersion
        sub["Fn"] = [[f if const else f + rng.randint(-16, 16) / 64.0 for f in base_f] for _ in range(nset)]
        sub["Xi"] = [[x if const else x + rng.randint(-8, 8) / 8192.0 for x in base_x] for _ in range(nset)]
        if scale is not None:
            sub["scale10"] = scale
        elif mixed or (mixed is None and rng.random() < 0.25 and sum(len(s) - len(r) for s, r in zip(sensors[1:], refs[1:])) > 0):
            sub["G"], sub["factors"], sub["dtypes"], sub["plan"] = gen_mixed(rng, sensors, refs, nsens, nm)
            sub["dtype"] = "mixed"
        elif rng.random() < 0.3:
            sub["scale10"] = rng.choice(SCALES)
        if rng.random() < 0.3:
            sub["xi_list"] = True  # merge_results builds np.array(all_xi): plain lists are accepted there
        if rng.random() < 0.4:
            sub["readonly"] = True  # the setups' result arrays are read-only (e.g. loaded with mmap_mode="r")
        fx = rng.random()
        if fx < 0.15:
            sub["fx_dtype"] = "float32"  # Fn k/64 and Xi k/8192 are exact in single precision
        elif fx < 0.3:
            sub["fx_dtype"] = rng.choice(["int64", "int32", "uint16"])  # integer-valued frequencies stored as integers
            sub["Fn"] = [[float(int(f) + rng.randint(0, 3)) for f in base_f] for _ in range(nset)]
        algs.append(sub)
    return algs


def gen_e2e_case(rng, scale=None, mixed=None, **kw):
    """nset SingleSetups x nalg algorithms; algorithm a has its own global table, mode count, factors, Fn, Xi (and
    overall unit 10^k); the sensor layout (and so ref_ind) is shared."""
    while True:
        sensors, refs, nsens = gen_layout(rng, **kw)
        if not mixed or sum(len(s) - len(r) for s, r in zip(sensors[1:], refs[1:])) > 0:
            break
    nalg = rng.randint(1, 3)
    return dict(kind="e2e", sensors=sensors, refs=refs, algs=gen_algs(rng, sensors, refs, nsens, nalg, scale, mixed),
                names=["grp_%s" % "xyz"[a] for a in range(nalg)], **call_forms(rng, p_ro=0.0))


def gen_hist_case(rng):
    """A history on ONE MultiSetup_PoSER object: build, merge, change the setups' results (re-run with a new payload =
    new result object / replace the result object / edit the result in place), merge again, merge twice without change."""
    sensors, refs, nsens = gen_layout(rng, nset=rng.randint(2, 4), max_rov=3)
    nalg = rng.randint(1, 2)
    steps = [dict(op="set", how="build", algs=gen_algs(rng, sensors, refs, nsens, nalg))]
    if rng.random() < 0.8:
        steps.append(dict(op="merge"))
    for _ in range(rng.randint(1, 3)):
        steps.append(dict(op="set", how=rng.choice(["rerun", "rerun", "replace", "inplace"]), algs=gen_algs(rng, sensors, refs, nsens, nalg)))
        steps.append(dict(op="merge"))
        if rng.random() < 0.4:
            steps.append(dict(op="merge"))
    return dict(kind="e2e-hist", sensors=sensors, refs=refs, names=["grp_%s" % "xyz"[a] for a in range(nalg)], steps=steps, **call_forms(rng, p_ro=0.0))


def payload(sub, i):
    _, MS = arrays(sub)
    fx = sub.get("fx_dtype")
    Fn = np.array(sub["Fn"][i], dtype=fx or "float64")
    if not np.array_equal(Fn.astype(float), np.array(sub["Fn"][i], dtype=float)):
        raise AssertionError("Fn is not exactly representable as %s" % fx)
    Xi = np.array(sub["Xi"][i], dtype="float32" if fx == "float32" else "float64")
    if not np.array_equal(Xi.astype(float), np.array(sub["Xi"][i], dtype=float)):
        raise AssertionError("Xi is not exactly representable as float32")
    pl = dict(Fn=Fn, Xi=Xi, Phi=np.array(MS[i], copy=True))
    if sub.get("readonly"):
        for a in pl.values():
            a.setflags(write=False)
    if sub.get("xi_list"):
        pl["Xi"] = [float(x) for x in sub["Xi"][i]]
    return pl


def results_untouched(setups, algs):
    """the setups' stored results are still, bit for bit, what was put there"""
    for i, ss in enumerate(setups):
        for a, alg in enumerate(ss.algorithms.values()):
            want = payload(algs[a], i)
            for f in ("Fn", "Xi", "Phi"):
                got = getattr(alg.result, f)
                if isinstance(want[f], list):
                    if not isinstance(got, list) or got != want[f]:
                        return False
                elif not isinstance(got, np.ndarray) or got.dtype != want[f].dtype or not np.array_equal(got, want[f]):
                    return False
    return True


def stub_alg_name(case, a, i):
    """Name of algorithm a in setup i.  Names only have to be unique inside one SingleSetup: besides per-setup distinct names the stub
    setups use the SAME name for an algorithm in every setup (the ordinary way of working: every setup has its "SSIcov") and the class's
    default name (no name given), chosen by a digest of the layout so that every scheme occurs in every run."""
    import zlib
    scheme = zlib.crc32(repr((case["sensors"], case.get("refs"))).encode()) % 3
    return ("alg%d_of_setup%d" % (a, i), "alg%d" % a, None)[scheme]


def build_poser(case, algs, classes):
    from pyoma2.setup import MultiSetup_PoSER, SingleSetup

    setups = []
    for i in range(len(case["sensors"])):
        ss = SingleSetup(np.zeros((8, len(case["sensors"][i]))), fs=16.0)
        objs = []
        for a, sub in enumerate(algs):
            nm_i = stub_alg_name(case, a, i)
            alg = classes[a](name=nm_i, p=a) if nm_i is not None else classes[a](p=a)
            alg.payload = payload(sub, i)
            objs.append(alg)
        ss.add_algorithms(*objs)
        ss.run_all()
        setups.append(ss)
    return MultiSetup_PoSER(ref_ind=ref_arg(case["refs"], case.get("ref_form")), single_setups=setups, names=list(case["names"])), setups


def change_results(setups, algs, how, StubResult):
    """Give every algorithm of every setup new results.  rerun: run again (the setup attaches a NEW result object);
    replace: attach a new result object directly; inplace: assign the fields of the existing result object."""
    for i, ss in enumerate(setups):
        for a, alg in enumerate(ss.algorithms.values()):
            pl = payload(algs[a], i)
            if how == "rerun":
                alg.payload = pl
            elif how == "replace":
                alg._set_result(StubResult(**pl))
            else:
                alg.result.Fn, alg.result.Xi, alg.result.Phi = pl["Fn"], pl["Xi"], pl["Phi"]
        if how == "rerun":
            ss.run_all()


def run_e2e(case, classes):
    msp, setups = build_poser(case, case["algs"], classes)
    res = msp.merge_results()
    return res, results_untouched(setups, case["algs"]) and same_refs(msp.ref_ind, case["refs"])


def stat_tols(sub):
    """(relative tolerance of the means, absolute tolerance of std/mean): float32 storage makes NumPy average in float32"""
    return (1e-5, 1e-5) if sub.get("fx_dtype") == "float32" else (TOL, None)


def judge_result(r, sub):
    """Property text on one merged result against the CURRENT results of the setups.  [(field, text)]"""
    bad = []
    want_phi, _ = expected_merged(sub)
    if np.asarray(r.Phi).shape != want_phi.shape or not close_rel(r.Phi, want_phi, tol=phi_tol(arrays(sub)[1])):
        bad.append(("Phi", "Phi is not the global shape of that algorithm in the first setup's scale"))
    for what, rows, mean_got, disp_got in (("Fn", sub["Fn"], r.Fn, r.Fn_cov), ("Xi", sub["Xi"], r.Xi, r.Xi_cov)):
        mean_want, disp_want = pop_stats(rows)
        mtol, dabs = stat_tols(sub)
        if not close(mean_got, mean_want, tol=mtol):
            bad.append((what, "%s is not the arithmetic mean over the setups" % what))
        if not (close(disp_got, disp_want, floor=0.0) if dabs is None else
                (np.asarray(disp_got).shape == disp_want.shape and bool(np.all(np.abs(np.asarray(disp_got, float) - disp_want) <= dabs)))):
            bad.append((what + "_cov", "%s_cov is not the population standard deviation over the setups divided by the mean" % what))
    return bad


# ----------------------------------------------------------------------------------------------------------------------
# end to end with real SSI runs: noise-free free-decay records of one global chain system, different amplitudes
# ----------------------------------------------------------------------------------------------------------------------
def chain_modes(k, m):
    n = len(m)
    K = np.zeros((n, n))
    for i in range(n):
        K[i, i] = k[i] + k[i + 1]
        if i + 1 < n:
            K[i, i + 1] = K[i + 1, i] = -k[i + 1]
    Mi = np.diag(1 / np.sqrt(np.array(m)))
    w2, V = np.linalg.eigh(Mi @ K @ Mi)
    return np.sqrt(w2) / (2 * np.pi), Mi @ V


def gen_ssi_case(rng, alg):
    for _ in range(200):
        nset = rng.randint(2, 4)
        nref = rng.randint(1, 3)
        sensors, refs, n = gen_layout(rng, nset=nset, nref=nref, max_rov=3)
        if not 3 <= n <= 7 or min(len(x) for x in sensors) < 2:
            continue
        k = [rng.uniform(0.6, 1.6) * 4000.0 for _ in range(n + 1)]
        m = [rng.uniform(0.7, 1.4) for _ in range(n)]
        fn, Phi = chain_modes(k, m)
        if np.min(np.diff(fn) / fn[:-1]) < 0.12:
            continue
        ref_ids = [sensors[0][p] for p in refs[0]]
        if np.min(np.sum(Phi[ref_ids, :] ** 2, axis=0) / np.sum(Phi ** 2, axis=0)) < 0.02:
            continue
        sel = sorted(rng.sample(range(n), rng.randint(1, n)))
        sel2 = sel
        while sel2 == sel:
            sel2 = sorted(rng.sample(range(n), rng.randint(1, n)))
        return dict(kind="ssi", alg=alg, sel2=sel2, **call_forms(rng, p_ro=0.5), k=k, m=m, xi=[rng.uniform(0.008, 0.03) for _ in range(n)], sensors=sensors, refs=refs,
                    amps=[gen_factor(rng) for _ in range(nset)], sel=sel, N=rng.choice([500, 640, 800]), br=-(-2 * n // nref) + rng.randint(1, 5),  # (br+1)*nref >= 2n is what SSI_fast needs
                    modal=[[[rng.uniform(0.5, 1.5) * rng.choice([-1, 1]), rng.uniform(0, 6.28)] for _ in range(n)] for _ in range(nset)])
    raise RuntimeError("no admissible chain system drawn")


def reidentify_ssi(case, setups, sel):
    """run the setups' algorithms again (new result objects) and extract the modes sel"""
    fn, _ = chain_modes(case["k"], case["m"])
    per = []
    for i, ss in enumerate(setups):
        ss.run_all()
        ss.mpe("ssi_%d" % i, sel_freq=[float(fn[r]) for r in sel], order=2 * len(fn))
        res = ss.algorithms["ssi_%d" % i].result
        per.append((np.asarray(res.Fn, float), np.asarray(res.Xi, float), np.asarray(res.Phi)))
    return per


def run_ssi(case):
    from pyoma2.algorithms import SSIcov, SSIdat
    from pyoma2.setup import SingleSetup

    fn, Phi = chain_modes(case["k"], case["m"])
    n = len(fn)
    fs = 5.0 * float(fn.max())
    t = np.arange(case["N"]) / fs
    setups, per = [], []
    for i, s in enumerate(case["sensors"]):
        y = np.zeros((case["N"], n))
        for r in range(n):
            w = 2 * np.pi * fn[r]
            a, ph = case["modal"][i][r]
            y += np.outer(a * np.exp(-case["xi"][r] * w * t) * np.cos(w * np.sqrt(1 - case["xi"][r] ** 2) * t + ph), Phi[:, r])
        ss = SingleSetup(case["amps"][i] * y[:, s], fs=fs)
        kw = dict(br=case["br"], ordmax=2 * n, ref_ind=list(case["refs"][i]))
        nm_i = "ssi_%d" % i if len(case["sensors"]) % 2 else "ssi"   # the same name in every setup is the ordinary way of working
        alg = SSIcov(name=nm_i, method="cov_mm", **kw) if case["alg"] == "SSIcov" else SSIdat(name=nm_i, **kw)
        ss.add_algorithms(alg)
        ss.run_all()
        ss.mpe(nm_i, sel_freq=[float(fn[r]) for r in case["sel"]], order=2 * n)
        setups.append(ss)
        per.append((np.asarray(alg.result.Fn, float), np.asarray(alg.result.Xi, float), np.asarray(alg.result.Phi)))
    return fn, Phi, per, setups


def poser_ssi(case, setups):
    from pyoma2.setup import MultiSetup_PoSER

    if case.get("readonly"):  # the identified results are presented read-only
        for ss in setups:
            for alg in ss.algorithms.values():
                for f in ("Fn", "Xi", "Phi"):
                    getattr(alg.result, f).setflags(write=False)
    return MultiSetup_PoSER(ref_ind=ref_arg(case["refs"], case.get("ref_form")), single_setups=setups, names=["ssi"])


# ----------------------------------------------------------------------------------------------------------------------
# judging one merge case against the property text; shrinking a failing one
# ----------------------------------------------------------------------------------------------------------------------
GLOBAL_TXT = ("gen.merge_mode_shapes: merged shape is not the global shape in the first setup's scale (rows: references in the first "
              "setup's order, then roving sensors setup by setup)")


def judge_merge(case):
    """Run gen.merge_mode_shapes on the case and evaluate the property text on what it returns.
    Returns (got | None, (key, what) | None, iso, illc): iso / illc = modes outside the hypothesis (g^T g = 0) / not judged."""
    from pyoma2.functions import gen

    G, MS = arrays(case)
    nm = G.shape[1]
    ref_ids = [case["sensors"][0][p] for p in case["refs"][0]]
    iso = [k for k in range(nm) if isotropic(case["G"], ref_ids, k)]
    illc = [k for k in range(nm) if k not in iso and ill_conditioned(case["G"], ref_ids, k)]
    given, kept = frozen(MS, case.get("readonly"))
    rarg = ref_arg(case["refs"], case.get("ref_form"))
    try:
        got = np.asarray(gen.merge_mode_shapes(given, rarg))
    except Exception as e:  # the hypothesis of the property holds: no exception is acceptable
        return None, ("C02:merge_mode_shapes:raises", "gen.merge_mode_shapes raises %s (%s) on setups that are re-scaled restrictions of one "
                      "global shape%s" % (type(e).__name__, str(e)[:70], form_text(case))), iso, illc
    want, _ = expected_merged(case)
    if got.shape != want.shape:
        return got, ("C02:merge_mode_shapes:shape", "gen.merge_mode_shapes: result has shape %s, property says (%d rows = references + all "
                     "roving, %d modes)" % (got.shape, want.shape[0], want.shape[1])), iso, illc
    keep = [k for k in range(nm) if k not in iso and k not in illc]
    if keep and not close_rel(got[:, keep], want[:, keep], tol=phi_tol(MS)):
        g, w = got[:, keep], want[:, keep]
        if not np.all(np.isfinite(g)):
            detail = "merged contains NaN/inf"
        else:
            with np.errstate(all="ignore"):
                r = g / w
            r = r[np.isfinite(r)]
            detail = "merged/global takes the values %s, largest deviation %.3g of the scale" % (
                [round(float(x), 6) for x in np.unique(np.round(r.real, 6))[:8]], float(np.max(np.abs(g - w)) / np.max(np.abs(w))))
        return got, ("C02:merge_mode_shapes:global", GLOBAL_TXT + "; " + detail + form_text(case)), iso, illc
    if not untouched(given, kept) or not same_refs(rarg, case["refs"]):
        return got, ("C02:merge_mode_shapes:writes-input", "gen.merge_mode_shapes changes the arrays / reference lists it is given (the setups' "
                     "stored shapes are no longer the re-scaled restrictions they were)"), iso, illc
    return got, None, iso, illc


def form_text(case):
    t = []
    if case.get("readonly"):
        t.append("input arrays read-only")
    if case.get("ref_form"):
        t.append("reference positions given as %s" % case["ref_form"])
    if case.get("dtypes"):
        t.append("storage dtypes %s" % ",".join(case["dtypes"]))
    return (" [" + "; ".join(t) + "]") if t else ""


def sub_case(case, setups, modes):
    return dict(case, G=[[row[k] for k in modes] for row in case["G"]], sensors=[list(case["sensors"][i]) for i in setups],
                refs=[list(case["refs"][i]) for i in setups], factors=[[case["factors"][i][k] for k in modes] for i in setups],
                **({"dtypes": [case["dtypes"][i] for i in setups]} if case.get("dtypes") else {}))


def drop_channel(case, i, p):
    c = dict(case, sensors=[list(s) for s in case["sensors"]], refs=[list(r) for r in case["refs"]])
    c["sensors"][i].pop(p)
    c["refs"][i] = [q - 1 if q > p else q for q in c["refs"][i]]
    return c


def compact(case):
    ids = []
    for s in case["sensors"]:
        for x in s:
            if x not in ids:
                ids.append(x)
    return dict(case, G=[case["G"][x] for x in ids], sensors=[[ids.index(x) for x in s] for s in case["sensors"]])


def shrink_merge(case, key):
    """Smaller case failing the same way: one mode, first setup + one other, roving channels removed while it still fails."""
    def fails(c):
        try:
            return (judge_merge(c)[1] or (None,))[0] == key
        except Exception:
            return False
    nset, nm = len(case["sensors"]), len(case["G"][0])
    cands = [sub_case(case, [0, i], [k]) for k in range(nm) for i in range(1, nset)]
    cands += [sub_case(case, [0, i], list(range(nm))) for i in range(1, nset)] + [sub_case(case, list(range(nset)), [k]) for k in range(nm)]
    best = next((c for c in cands if fails(c)), case)
    changed = True
    while changed:
        changed = False
        for i in range(len(best["sensors"])):
            for p in range(len(best["sensors"][i]) - 1, -1, -1):
                if p in best["refs"][i]:
                    continue
                c = drop_channel(best, i, p)
                if fails(c):
                    best, changed = c, True
    best = compact(best)
    return best if fails(best) else case


def balanced_order(sizes, shard):
    """a permutation of range(len(sizes)) whose consecutive chunks of `shard` carry about the same total size"""
    n = len(sizes)
    nsh = max(1, -(-n // shard))
    cap = [min(shard, n - c * shard) for c in range(nsh)]
    chunks, load = [[] for _ in range(nsh)], [0] * nsh
    for i in sorted(range(n), key=lambda i: -sizes[i]):
        c = min((c for c in range(nsh) if len(chunks[c]) < cap[c]), key=lambda c: load[c])
        chunks[c].append(i)
        load[c] += sizes[i]
    return [i for ch in chunks for i in ch]


def load_corpus():
    out = []
    for path in sorted(glob.glob(os.path.join(VERIF, "corpus", "C02", "*.json"))):
        c = json.load(open(path))
        c = c.get("case", c)  # a replay file dropped into the corpus works as well
        c["corpus"] = os.path.basename(path)
        out.append(c)
    return out


# ----------------------------------------------------------------------------------------------------------------------
def run(ctx):
    from pyoma2.functions import gen
    import pandas as pd

    rng = ctx.rng
    ctx.extra["rule"] = (
        "layouts: 2-5 setups, 1-4 reference sensors at arbitrary positions and listing orders, 0-5 roving sensors per setup, "
        "shuffled global sensor ids, 1-8 modes, real / Gaussian-rational dyadic entries, factors +-2^k(1+j/8) in [0.05,20]; "
        "a case is non-trivial when a setup other than the first has a roving sensor whose factor differs from the first "
        "setup's for some mode (merge), when there is a roving sensor (names), always for end-to-end runs; distinct by hash of the whole case; "
        "class model: every end-to-end case (stub SingleSetups, 1-3 algorithms of different classes, own table / modes / factors / Fn / Xi each) is "
        "evaluated by poser_class as a whole; tables of names with missing cells inside the rows (multi-row: judged), other argument forms recorded")
    ctx.assumptions += [
        "C02 theorems assume g^T g <> 0 (un-conjugated) on the reference part of every mode: forced by gen.MSF, which does not "
        "conjugate (pinned by test_MSF); inputs with g^T g = 0 are reported as observations, not judged",
        "Fn_cov / Xi_cov are compared with the model through their squares (model cov2 = population variance / mean^2); numpy.sqrt is trusted",
        "end-to-end SSI cases: numpy/scipy eigen-solvers and the SSI identification itself are not part of C02; a case is judged only when "
        "the identified per-setup shapes are re-scaled restrictions of the global shape to 1e-7 (the property's hypothesis)",
    ]
    ctx.assumptions += [
        "C02_class_* theorems ask for distinct names (dictionary keys); names that repeat are run and compared with the model as observations",
        "model poser_class identifies an algorithm's class with its class name (the stub classes have different names); the constructor's "
        "validation is recorded against poser_init, judged by C15",
    ]
    exprs, meta = [], []
    classes, StubResult = stub_classes()
    ssi_model = [0]

    def add_merge(kind, case, got, MS, refs):
        for e, a, b in merge_exprs(MS, refs):
            exprs.append(e)
            meta.append((kind, case, (got, a, b, phi_tol(MS))))

    # ------------------------------------------------------------------------------------------------ merge_mode_shapes
    def do_merge(case):
        got, bad, iso, illc = judge_merge(case)
        nontriv = any(len(s) > len(r) and any(ci != c0 for ci, c0 in zip(c, case["factors"][0]))
                      for s, r, c in zip(case["sensors"][1:], case["refs"][1:], case["factors"][1:]))
        ctx.count(case, nontrivial=nontriv and not iso)
        ctx.hist("setups", len(case["sensors"]))
        ctx.hist("nref", len(case["refs"][0]))
        ctx.hist("modes", len(case["G"][0]))
        ctx.hist("dtype", case["dtype"] if not case.get("dtypes") else "mixed:" + case.get("plan", "?"))
        ctx.hist("ref_form", case.get("ref_form", "int"))
        ctx.hist("readonly", bool(case.get("readonly")))
        ctx.hist("roving_total", sum(len(s) - len(r) for s, r in zip(case["sensors"], case["refs"])))
        ctx.sample(case)
        if bad:
            if bad[0].endswith(":raises"):
                ctx.hist("error_kinds", bad[1].split(" raises ")[1].split(" ")[0])
            small = shrink_merge(case, bad[0])
            what = (judge_merge(small)[1] or bad)[1] if small is not case else bad[1]
            ctx.fail("oracle", what, small, key=bad[0])
        if iso or illc:
            ctx.not_judged += 1
            if iso and got is not None and got.ndim == 2 and got.shape[1] == len(case["G"][0]):
                fin = bool(np.all(np.isfinite(got[:, iso])))
                ctx.note("observation (not a violation): reference part with g^T g = 0 (isotropic or zero), outside the hypothesis of "
                         "C02_merge_mode_shapes_spec: merged column is %s" % ("finite" if fin else "NaN (the un-conjugated MSF divides by g^T g)"))
                ctx.hist("isotropic", "finite" if fin else "nan")
            return
        if got is None:
            return
        _, MS = arrays(case)
        add_merge("merge", case, got, MS, case["refs"])

    # ------------------------------------------------------------------------------------------------ flatten_sns_names
    def do_flatten(case):
        names, refs, sensors = case["names"], case["refs"], case["sensors"]
        ctx.count(case, nontrivial=sum(len(s) for s in sensors) > len(sensors) * len(refs[0]))
        order = expected_order(sensors, refs)
        byid = {sid: nm_ for s, row in zip(sensors, names) for sid, nm_ in zip(s, row)}
        want = ["REF%d" % (j + 1) for j in range(len(refs[0]))] + [byid[sid] for sid in order[len(refs[0]):]]
        rarg = ref_arg(refs, case.get("ref_form"))
        narg = [list(r) for r in names]
        try:
            got = gen.flatten_sns_names(narg, ref_ind=rarg)
        except Exception as e:
            ctx.fail("oracle", "gen.flatten_sns_names raises %s on a list of lists of names with ref_ind%s" % (type(e).__name__, form_text(case)), case,
                     key="C02:flatten_sns_names:raises")
            return
        if narg != [list(r) for r in names] or not same_refs(rarg, refs):
            ctx.fail("oracle", "gen.flatten_sns_names changes the name lists / reference lists it is given", case, key="C02:flatten_sns_names:writes-input")
        if list(got) != want:
            ctx.fail("oracle", "gen.flatten_sns_names: names are not in the order of the merged rows (REF1..REFk, then each setup's roving "
                     "sensors in setup order)", dict(case, got=list(got), want=want), key="C02:flatten_sns_names:order")
        # the table form of the same input (rows padded with NaN)
        width = max(len(r) for r in names)
        df = pd.DataFrame([r + [np.nan] * (width - len(r)) for r in names])
        try:
            got_df = gen.flatten_sns_names(df, ref_ind=ref_arg(refs, case.get("ref_form")))
            if list(got_df) != want:
                ctx.fail("oracle", "gen.flatten_sns_names (table form): names are not in the order of the merged rows",
                         dict(case, got=list(got_df), want=want), key="C02:flatten_sns_names:order-table")
        except Exception as e:
            ctx.fail("oracle", "gen.flatten_sns_names raises %s on a table of names with ref_ind" % type(e).__name__, case,
                     key="C02:flatten_sns_names:raises-table")
        exprs.append(flatten_expr(names, refs))
        meta.append(("flatten", case, list(got)))
        exprs.append(flatgen_expr(("table", [list(r) + [None] * (width - len(r)) for r in names]), refs))
        meta.append(("flatgen-multi", case, "ok:" + ",".join(str(x) for x in got)))
        exprs.append(flatgen_expr(("lists", names), refs))
        meta.append(("flatgen-multi", case, "ok:" + ",".join(str(x) for x in got)))

    def flatten_case(sensors, refs, tag):
        return dict(kind="flatten", names=[["%s%d" % (tag, sid) for sid in s] for s in sensors], refs=refs, sensors=sensors,
                    **call_forms(rng, p_ro=0.0))

    # ------------------------------------------------------------------------------------------------ merge_results, stub algorithms
    def model_result(r, sub, tag, with_phi):
        for what, rows, mean_got, disp_got in (("Fn", sub["Fn"], r.Fn, r.Fn_cov), ("Xi", sub["Xi"], r.Xi, r.Xi_cov)):
            exprs.append(stats_expr(rows))
            meta.append(("stats", dict(tag, what=what, lowp=sub.get("fx_dtype") == "float32"), (np.asarray(mean_got, float), np.asarray(disp_got, float))))
        if with_phi:
            _, MS = arrays(sub)
            add_merge("e2e-phi", tag, np.asarray(r.Phi), MS, sub["refs"])

    def do_e2e(case):
        ctx.hist("e2e_algs", len(case["algs"]))
        for sub in case["algs"]:
            ctx.hist("e2e_scale10", sub.get("scale10", 0))
            ctx.hist("e2e_dtypes", sub.get("plan", sub["dtype"]))
            ctx.hist("e2e_fx_dtype", sub.get("fx_dtype", "float64"))
            ctx.hist("e2e_readonly", bool(sub.get("readonly")))
        ctx.count(case, nontrivial=True)
        ctx.hist("ref_form", case.get("ref_form", "int"))
        try:
            res, same = run_e2e(case, classes)
        except Exception as e:
            ro = [a for a, sub in enumerate(case["algs"]) if sub.get("readonly")]
            ctx.fail("oracle", "MultiSetup_PoSER(...).merge_results() raises %s (%s) on setups that are re-scaled restrictions of one global shape%s%s"
                     % (type(e).__name__, str(e)[:70], form_text(case), " [result arrays of algorithms %s read-only]" % ro if ro else ""), case,
                     key="C02:merge_results:raises")
            return
        if not same:
            ctx.fail("oracle", "merge_results() changes the setups' stored results (Fn / Xi / Phi of an algorithm) or the reference lists", case,
                     key="C02:merge_results:writes-input")
        if sorted(res.keys()) != sorted(case["names"]):
            ctx.fail("oracle", "merge_results: result keys %s are not the given names %s" % (sorted(res.keys()), case["names"]), case,
                     key="C02:merge_results:names")
            return
        for a, sub in enumerate(case["algs"]):
            r = res[case["names"][a]]
            tag = dict(case, alg=a)
            for field, text in judge_result(r, sub):
                ctx.fail("oracle", "merge_results()[name]." + text, tag, key="C02:merge_results:%s" % field)
        add_class("class", case, case["algs"], case["names"], case["refs"], res)  # the whole class in the model: every algorithm, every field

    # ------------------------------------------------------------------------------------------------ the class in the model
    CLS = [c.__name__ for c in classes]

    def add_class(kind, case, algs, names, refs_class, res, cls_names=None, skip_run=()):
        """queue model poser_class on exactly what the SingleSetups were given; res = what merge_results() returned (dict) or
        the name of the exception the constructor / merge_results raised"""
        nset = len(case["sensors"])
        terms = class_setup_terms(algs, nset, cls_names or CLS, skip_run)
        rows = len(case["refs"][0]) + sum(len(s_) - len(case["refs"][0]) for s_ in case["sensors"])
        if isinstance(res, str):
            exprs.append(class_expr(names, terms, refs_class, 0, 0))
            meta.append((kind, case, dict(raised=res)))
            return
        got = {}
        for nm_, r in res.items():
            got[nm_] = tuple(np.asarray(x) for x in (r.Fn, r.Fn_cov, r.Xi, r.Xi_cov, r.Phi))
        tols = {}
        for a, sub in enumerate(algs):
            tols.setdefault(names[a], []).append((phi_tol(arrays(sub)[1]), sub.get("fx_dtype") == "float32"))
        tol = {nm_: (max(t for t, _ in v), any(l for _, l in v)) for nm_, v in tols.items()}
        entries = 2 * rows * sum(len(sub["G"][0]) for sub in algs)
        for n, (e, a, b) in enumerate(class_exprs(names, terms, refs_class, rows, entries)):
            exprs.append(e)
            meta.append((kind, case, dict(got=got, lo=a, hi=b, first=n == 0, tol=tol)))

    def class_diffs(info, s):
        """[(site, text)]: where merge_results() and model poser_class differ"""
        ok = s.startswith("ok:") or s.startswith("fix:")
        if "raised" in info:
            return [] if not ok else [("corr-class-error", "model poser_class returns results where the class raises %s" % info["raised"])]
        if not ok:
            return [("corr-class-error", "model poser_class returns %s where merge_results() returns results" % s)]
        model = parse_class(s)
        got, out = info["got"], []
        if sorted(model) != sorted(got):
            return [("corr-class-names", "merge_results() has the keys %s, model poser_class %s" % (sorted(got), sorted(model)))]
        for nm_ in sorted(got):
            fn, fc, xi, xc, phi = got[nm_]
            mfn, mfc2, mxi, mxc2, mphi = model[nm_]
            ptol, lowp = info["tol"].get(nm_, (TOL, False))
            a, b = info["lo"], info["hi"]
            if phi.ndim != 2 or phi.shape[0] < b or mphi.shape != phi[a:b].shape or not close_rel(phi[a:b], mphi, tol=ptol, scale=phi):
                out.append(("corr-class-Phi", "merge_results()[%s].Phi differs from model poser_class (rows %d..%d)" % (nm_, a, b)))
            if not info["first"]:
                continue
            for what, mean_got, disp_got, mean_m, c2_m in (("Fn", fn, fc, mfn, mfc2), ("Xi", xi, xc, mxi, mxc2)):
                mean_got, disp_got = np.asarray(mean_got, float), np.asarray(disp_got, float)
                if lowp:
                    if not close(mean_got, mean_m, tol=1e-5) or disp_got.shape != c2_m.shape or not bool(np.all(np.abs(disp_got - np.sqrt(c2_m)) <= 1e-5)):
                        out.append(("corr-class-f32", "merge_results()[%s].%s / %s_cov (float32 storage) differ from model poser_class" % (nm_, what, what)))
                    continue
                if not close(mean_got, mean_m):
                    out.append(("corr-class-mean", "merge_results()[%s].%s differs from model poser_class" % (nm_, what)))
                if not close(disp_got ** 2, c2_m, floor=0.0, tol=1e-8) and not close(disp_got, np.sqrt(c2_m), floor=0.0):
                    out.append(("corr-class-cov", "merge_results()[%s].%s_cov^2 differs from model poser_class (population variance / mean^2)" % (nm_, what)))
        return out

    def run_class(case, algs, names, refs_class, cls_idx=None, skip_run=(), single=False):
        """the real class on stub setups; returns the result dict or the exception's name.  cls_idx[i][a] = stub class of algorithm a in
        setup i; skip_run = {(setup, algorithm)} left without a result; single = only the first setup is passed"""
        from pyoma2.setup import MultiSetup_PoSER, SingleSetup
        setups = []
        for i in range(len(case["sensors"])):
            ss = SingleSetup(np.zeros((8, len(case["sensors"][i]))), fs=16.0)
            objs = []
            for a, sub in enumerate(algs):
                nm_i = stub_alg_name(case, a, i) if not cls_idx else "alg%d_of_setup%d" % (a, i)
                alg = classes[cls_idx[i][a] if cls_idx else a](name=nm_i, p=a) if nm_i is not None else classes[a](p=a)
                alg.payload = payload(sub, i)
                objs.append(alg)
            ss.add_algorithms(*objs)
            for a, alg in enumerate(objs):
                if (i, a) not in skip_run:
                    alg._set_result(alg.run())
            setups.append(ss)
        try:
            msp = MultiSetup_PoSER(ref_ind=ref_arg(refs_class, case.get("ref_form")), single_setups=setups[:1] if single else setups, names=list(names))
            return msp.merge_results()
        except Exception as e:
            return type(e).__name__

    def same_mode_algs(sensors, refs, nsens, nalg):
        for _ in range(400):
            algs = gen_algs(rng, sensors, refs, nsens, nalg, mixed=False)
            if len({len(sub["G"][0]) for sub in algs}) == 1:
                return algs
        raise RuntimeError("no algorithms with equal mode counts drawn")

    def do_dup(case):
        """names that repeat (outside the property: the theorems ask for distinct names).  The names are dictionary keys: positions with
        one name fall into one group, setup by setup.  Observed and compared with the model, never judged."""
        ctx.count(case, nontrivial=True)
        ctx.hist("dup_names", "%s refs x%d" % (",".join(case["names"]), case["ref_rep"]))
        algs = [dict(sub, sensors=case["sensors"], refs=case["refs"]) for sub in case["algs"]]
        refs_class = [r for r in case["refs"] for _ in range(case["ref_rep"])]
        res = run_class(case, algs, case["names"], refs_class)
        ctx.hist("dup_names_outcome", res if isinstance(res, str) else "merged %d groups" % len(res))
        if isinstance(res, str):
            exprs.append(class_expr(case["names"], class_setup_terms(algs, len(case["sensors"]), CLS), refs_class, 0, 0))
            meta.append(("class-note", case, dict(raised=res)))
            return
        # one group of nset * rep shapes: rows = references + every (setup, algorithm) pair's roving sensors
        nset, rep = len(case["sensors"]), case["ref_rep"]
        terms = class_setup_terms(algs, nset, CLS)
        got = {nm_: tuple(np.asarray(x) for x in (r.Fn, r.Fn_cov, r.Xi, r.Xi_cov, r.Phi)) for nm_, r in res.items()}
        rows = max(g[4].shape[0] for g in got.values())
        exprs.append(class_expr(case["names"], terms, refs_class, 0, rows))
        meta.append(("class-note", case, dict(got=got, lo=0, hi=min(g[4].shape[0] for g in got.values()), first=True, tol={})))

    def gen_dup_case(ok):
        sensors, refs, nsens = gen_layout(rng, nset=rng.randint(2, 3), max_rov=2)
        if ok:  # both algorithms under one name, twice as many reference lists: the class merges 2 * nset "setups"
            return dict(kind="e2e-dup", sensors=sensors, refs=refs, algs=same_mode_algs(sensors, refs, nsens, 2), names=["g", "g"], ref_rep=2)
        nalg = rng.randint(2, 3)
        return dict(kind="e2e-dup", sensors=sensors, refs=refs, algs=same_mode_algs(sensors, refs, nsens, nalg),
                    names=[["g", "g"], ["g", "h", "g"]][nalg - 2], ref_rep=1)

    def do_init(case):
        """setups the constructor must refuse (validation of _init_setups; its own property is C15): recorded and compared with the
        model's poser_init, never judged here"""
        ctx.count(case, nontrivial=False)
        algs = [dict(sub, sensors=case["sensors"], refs=case["refs"]) for sub in case["algs"]]
        nset, nalg = len(case["sensors"]), len(algs)
        v = case["variant"]
        names, cls_idx, skip, single = list(case["names"]), [[a for a in range(nalg)] for _ in range(nset)], set(), False
        if v == "one-setup":
            single = True
        elif v == "names-short":
            names = names[:-1]
        elif v == "names-long":
            names = names + ["extra"]
        elif v == "class-order":
            cls_idx[-1] = cls_idx[-1][::-1]
        elif v == "not-run":
            skip = {(nset - 1, nalg - 1)}
        res = run_class(case, algs, names, case["refs"], cls_idx=cls_idx, skip_run=skip, single=single)
        ctx.hist("init_variants", "%s: %s" % (v, res if isinstance(res, str) else "accepted"))
        terms = [[alg_term(CLS[cls_idx[i][a]], (i, a) not in skip, *( ([], [], []) if (i, a) in skip else
                            (algs[a]["Fn"][i], algs[a]["Xi"][i], arrays(algs[a])[1][i]))) for a in range(nalg)] for i in range(nset)]
        exprs.append(class_expr(names, terms[:1] if single else terms, case["refs"], 0, 0))
        meta.append(("class-init", dict(case), res if isinstance(res, str) else "accepted"))

    # ------------------------------------------------------------------------------------------------ flatten_sns_names, other forms
    def do_flatform(case):
        """argument forms of flatten_sns_names other than the padded multi-setup ones (one-row table, table without rows, NaN cells
        inside a row, plain list, 1-D array, rows without names, too few reference lists): compared with model flatten_gen; only the
        multi-row table is part of the property (oracle: the table reads as its rows without the NaN cells)"""
        ctx.count(case, nontrivial=case["form"] == "table" and len(case["value"]) > 1)
        ctx.hist("flatten_forms", case["form"] + (" %d rows" % len(case["value"]) if case["form"] in ("table", "lists") else ""))
        form, val, refs = case["form"], case["value"], case["refs"]
        if form == "table":
            width = max([len(r) for r in val] + [0])
            arg = pd.DataFrame([[np.nan if x is None else x for x in r] + [np.nan] * (width - len(r)) for r in val]) if val else pd.DataFrame()
        elif form == "array":
            arg = np.array(val, dtype=object) if not val else np.array(val)
        else:
            arg = [list(r) for r in val] if form == "lists" else list(val)
        try:
            got = gen.flatten_sns_names(arg, ref_ind=None if refs is None else [list(r) for r in refs])
            got = "ok:" + ",".join("nan" if (isinstance(x, float) and x != x) else str(x) for x in got)
        except Exception as e:
            got = type(e).__name__
        if form == "table" and len(val) > 1 and refs is not None and len(refs) >= len(val):
            try:  # property text: the table is read as its rows, missing cells left out
                want = "ok:" + ",".join(gen.flatten_sns_names([[x for x in r if x is not None] for r in val], ref_ind=[list(r) for r in refs]))
            except Exception as e:
                want = type(e).__name__
            if got != want:
                ctx.fail("oracle", "gen.flatten_sns_names: a table of names (NaN = no sensor) is not flattened like the list of its rows: %s instead of %s"
                         % (got[:80], want[:80]), case, key="C02:flatten_sns_names:table-vs-lists")
        exprs.append(flatgen_expr((form, val), refs))
        meta.append(("flatgen", case, got))

    # ------------------------------------------------------------------------------------------------ histories on one PoSER object
    def do_hist(case):
        ctx.count(case, nontrivial=sum(1 for st in case["steps"] if st["op"] == "merge") >= 1 and len(case["steps"]) > 2)
        ctx.hist("hist_steps", " ".join(st["op"] if st["op"] == "merge" else st["how"] for st in case["steps"]))
        msp = setups = current = None
        nmerge = 0
        for n, st in enumerate(case["steps"]):
            try:
                if st["op"] == "set":
                    current = [dict(sub, sensors=case["sensors"], refs=case["refs"]) for sub in st["algs"]]
                    if msp is None:
                        msp, setups = build_poser(case, current, classes)
                    else:
                        change_results(setups, current, st["how"], StubResult)
                    continue
                res = msp.merge_results()
            except Exception as e:
                ctx.fail("oracle", "history on one MultiSetup_PoSER object: step %d (%s) raises %s" % (n, st["op"], type(e).__name__), dict(case, at_step=n),
                         key="C02:merge_results:history-raises")
                return
            nmerge += 1
            try:
                same = results_untouched(setups, current)
            except Exception:
                same = False
            if not same:
                ctx.fail("oracle", "merge_results() (step %d) changes the setups' stored results" % n, dict(case, at_step=n), key="C02:merge_results:writes-input")
            for a, sub in enumerate(current):
                r = res.get(case["names"][a])
                tag = dict(case, at_step=n, alg=a)
                if r is None:
                    ctx.fail("oracle", "merge_results: no result under the given name %s" % case["names"][a], tag, key="C02:merge_results:names")
                    continue
                bad = judge_result(r, sub)
                if bad:
                    sets = [m for m in range(n) if case["steps"][m]["op"] == "set"]
                    earlier = []
                    for m in sets[:-1]:
                        try:
                            if not judge_result(r, dict(case["steps"][m]["algs"][a], sensors=case["sensors"], refs=case["refs"])):
                                earlier.append(m)
                        except Exception:
                            pass
                    extra = (" - it is the result of the setups' EARLIER results (set at step %d), not of their current ones" % earlier[-1]) if earlier else ""
                    ctx.fail("oracle", "merge_results() number %d on the same MultiSetup_PoSER object (step %d) does not reflect the setups' current "
                             "results: %s%s" % (nmerge, n, "; ".join(t for _, t in bad), extra), tag, key="C02:merge_results:history")
                if n == max(k for k, s3 in enumerate(case["steps"]) if s3["op"] == "merge"):
                    model_result(r, sub, tag, a == 0)

    # ------------------------------------------------------------------------------------------------ merge_results, real SSI runs
    def judge_ssi(case, fn, Phi, per, r, sel, label):
        """False when the identification did not meet the hypothesis (not judged)."""
        G = Phi[:, sel]
        ok, c0 = True, None
        for i, (s, (f_i, x_i, P_i)) in enumerate(zip(case["sensors"], per)):
            if P_i.shape != (len(s), len(sel)) or not np.all(np.isfinite(P_i)):
                ok = False
                break
            c = np.real(np.sum(G[s, :] * P_i, axis=0) / np.sum(G[s, :] ** 2, axis=0))
            if not close(P_i, G[s, :] * c[None, :], tol=1e-7) or not close(f_i, fn[sel], tol=1e-7):
                ok = False
            if i == 0:
                c0 = c
        if not ok:
            ctx.not_judged += 1  # identification itself is not exact here: the property's hypothesis is not met
            ctx.hist("ssi_hypothesis", "not met")
            return False
        ctx.hist("ssi_hypothesis", "met")
        order = expected_order(case["sensors"], case["refs"])
        suffix = "" if label == "first" else "-history"
        if np.asarray(r.Phi).shape != (len(order), len(sel)) or not close(r.Phi, G[order, :] * c0[None, :], tol=1e-6):
            ctx.fail("oracle", "merge_results().Phi (%s merge) from SSI runs on noise-free records of one system at different amplitudes is not the "
                     "global shape of the CURRENTLY extracted modes in the first setup's scale" % label, case, key="C02:merge_results:ssi-Phi" + suffix)
        for what, idx, mean_got, disp_got in (("Fn", 0, r.Fn, r.Fn_cov), ("Xi", 1, r.Xi, r.Xi_cov)):
            rows = [p[idx] for p in per]
            mean_want, disp_want = pop_stats(rows)
            if np.asarray(mean_got).shape != mean_want.shape or not close(mean_got, mean_want):
                ctx.fail("oracle", "merge_results().%s (SSI runs, %s merge) is not the arithmetic mean over the setups' current results" % (what, label), case,
                         key="C02:merge_results:%s%s" % (what, suffix))
            elif not close(disp_got, disp_want, floor=0.0):
                ctx.fail("oracle", "merge_results().%s_cov (SSI runs, %s merge) is not the population standard deviation over the setups divided by the mean"
                         % (what, label), case, key="C02:merge_results:%s_cov%s" % (what, suffix))
            if label == "first":
                exprs.append(stats_expr(rows))
                meta.append(("stats", dict(case, what=what), (np.asarray(mean_got, float), np.asarray(disp_got, float))))
        return True

    def do_ssi(case):
        ctx.count(case, nontrivial=True)
        try:
            fn, Phi, per, setups = run_ssi(case)
        except Exception as e:  # the identification stage (not part of C02) failed: the hypothesis cannot be set up
            ctx.not_judged += 1
            ctx.hist("ssi_hypothesis", "identification raised " + type(e).__name__)
            return
        try:
            msp = poser_ssi(case, setups)
            r = msp.merge_results()["ssi"]
        except Exception as e:
            ctx.fail("oracle", "MultiSetup_PoSER.merge_results() raises %s after SSI runs on noise-free records of one global system" % type(e).__name__,
                     case, key="C02:merge_results:ssi-raises")
            return
        if not judge_ssi(case, fn, Phi, per, r, case["sel"], "first"):
            return
        ssi_model[0] += 1
        if ssi_model[0] <= ctx.n(2, 12):  # 53-bit mantissas make big rationals: the model is evaluated on the first few only
            add_merge("e2e-phi", case, np.asarray(r.Phi), [p[2] for p in per], case["refs"])
        # same PoSER object: the setups are run again (new result objects) and other modes are extracted; merge again
        if case.get("sel2"):
            try:
                per2 = reidentify_ssi(case, setups, case["sel2"])
            except Exception as e:
                ctx.not_judged += 1
                ctx.hist("ssi_hypothesis", "re-identification raised " + type(e).__name__)
                return
            try:
                r2 = msp.merge_results()["ssi"]
            except Exception as e:
                ctx.fail("oracle", "second merge_results() on the same MultiSetup_PoSER object raises %s after the setups were run again" % type(e).__name__,
                         case, key="C02:merge_results:ssi-raises-history")
                return
            judge_ssi(case, fn, Phi, per2, r2, case["sel2"], "second")

    # ------------------------------------------------------------------------------------------------ one global table in other units
    def do_scale(base, ks):
        """the same case with the global table multiplied overall by 10^k: property text on each instance (do_merge), and
        merged(10^k G) = 10^k merged(G)"""
        got0, bad0, iso, illc = judge_merge(base)
        do_merge(base)
        for k in ks:
            c = dict(base, scale10=k)
            ctx.hist("scale10", k)
            do_merge(c)
            if got0 is None or bad0 or iso or illc:
                continue
            got, bad, _, _ = judge_merge(c)
            if got is not None and not bad and not close_rel(got, got0 * 10.0 ** k):
                ctx.fail("oracle", "gen.merge_mode_shapes is not homogeneous: merged(10^%d G) differs from 10^%d merged(G)" % (k, k), c,
                         key="C02:merge_mode_shapes:scale")

    def dispatch(c):
        c = {k: v for k, v in c.items() if k not in ("corpus", "comment", "got", "want", "alg_index", "what")}
        kind = c.get("kind")
        if kind == "merge":
            do_merge(c)
        elif kind == "flatten":
            do_flatten(c)
        elif kind == "e2e":
            c.pop("alg", None)
            do_e2e(c)
        elif kind == "e2e-hist":
            c.pop("alg", None)
            c.pop("at_step", None)
            do_hist(c)
        elif kind == "ssi":
            do_ssi(c)
        elif kind == "e2e-dup":
            do_dup(c)
        elif kind == "e2e-init":
            do_init(c)
        elif kind == "flatform":
            do_flatform(c)
        else:
            ctx.note("case of unknown kind %r skipped" % kind)
            return False
        return True

    def evaluate():
        # every shard in one parallel round, the long expressions dealt evenly over the shards
        shard = max(ctx.n(40, 120), -(-len(exprs) // 14))
        order = balanced_order([len(e) for e in exprs], shard)
        out = ctx.coq_eval(HEADER, [exprs[i] for i in order], shard=shard)
        res = [None] * len(exprs)
        for j, i in enumerate(order):
            res[i] = out[j]
        for (kind, case, got), s in zip(meta, res):
            if kind in ("merge", "e2e-phi"):
                where = "gen.merge_mode_shapes" if kind == "merge" else "merge_results()[name].Phi"
                if not s.startswith("ok:"):
                    ctx.fail("correspondence", "model merge_mode_shapes returns %s where %s returns a table" % (s, where), case,
                             key="C02:%s:corr-error" % kind)
                    continue
                got, a, b, tol = got
                M = parse_cmat(s[3:])
                if got.ndim != 2 or got.shape[0] < b or M.shape != got[a:b].shape or not close_rel(got[a:b], M, tol=tol, scale=got):
                    ctx.fail("correspondence", "%s differs from model merge_mode_shapes" % where, case, key="C02:%s:corr" % kind)
            elif kind == "class":
                for site, text in class_diffs(got, s):
                    ctx.fail("correspondence", text, case, key="C02:merge_results:%s" % site)
            elif kind == "class-note":
                for site, text in class_diffs(got, s):
                    ctx.note("names that repeat (outside the property): %s" % text)
            elif kind == "class-init":
                if (s == "InitValueError") != (got != "accepted"):
                    ctx.note("constructor validation (%s): implementation %s, model %s (judged by C15, not here)" % (case.get("variant"), got, s[:20]))
            elif kind == "flatgen-multi":
                if s != got:
                    ctx.fail("correspondence", "gen.flatten_sns_names (multi-setup form) differs from model flatten_gen: %s / %s" % (got[:60], s[:60]),
                             dict(case, model=s), key="C02:flatten_sns_names:corr-forms")
            elif kind == "flatgen":
                if s != got:
                    if case["form"] == "table" and len(case["value"]) > 1 and case.get("refs") is not None and len(case["refs"]) >= len(case["value"]):
                        ctx.fail("correspondence", "gen.flatten_sns_names (table form) differs from model flatten_gen: %s / %s" % (got[:60], s[:60]),
                                 dict(case, model=s), key="C02:flatten_sns_names:corr-table")
                    else:
                        ctx.note("flatten_sns_names form %s: implementation %s, model %s (not constrained by the property)" % (case["form"], got[:60], s[:60]))
            elif kind == "malformed":
                if (s.startswith("ok:")) != (got == "no exception"):
                    ctx.note("mode-count mismatch: implementation %s, model %s (error kinds are not constrained by the property)" % (got, s[:12]))
            elif kind == "flatten":
                if s.split(",") != got:
                    ctx.fail("correspondence", "gen.flatten_sns_names differs from model flatten_multi", dict(case, model=s), key="C02:flatten_sns_names:corr")
            elif kind == "flatten-noref":
                if s != got:
                    ctx.note("flatten_sns_names without ref_ind: implementation %s, model %s (not constrained by the property)" % (got, s))
            elif kind == "stats":
                mean_m, c2_m = parse_stats(s)
                mean_got, disp_got = got
                if case.get("lowp"):  # single-precision storage: NumPy averages in float32
                    if not close(mean_got, mean_m, tol=1e-5) or not bool(np.all(np.abs(disp_got - np.sqrt(c2_m)) <= 1e-5)):
                        ctx.fail("correspondence", "merge_results %s / %s_cov (float32 storage) differ from the model beyond single precision"
                                 % (case["what"], case["what"]), case, key="C02:merge_results:corr-f32")
                    continue
                if not close(mean_got, mean_m):
                    ctx.fail("correspondence", "merge_results %s differs from model mean" % case["what"], case, key="C02:merge_results:corr-mean")
                if not close(disp_got ** 2, c2_m, floor=0.0, tol=1e-8) and not close(disp_got, np.sqrt(c2_m), floor=0.0):
                    ctx.fail("correspondence", "merge_results %s_cov^2 differs from model cov2 (population variance / mean^2)" % case["what"], case,
                             key="C02:merge_results:corr-cov")

    # ------------------------------------------------------------------------------------------------ replay of one stored case
    if ctx.replay:
        c = json.load(open(ctx.replay))
        dispatch(c.get("case", c))
        evaluate()
        return

    # ------------------------------------------------------------------------------------------------ corpus first
    corpus = load_corpus()
    for c in corpus:
        ctx.hist("stream", "corpus")
        dispatch(c)
    if not any(c.get("kind") == "merge" for c in corpus):
        ctx.fail("correspondence", "corpus/C02 holds no merge case (the failing input of the repaired MSF-direction defect must be run first)",
                 key="C02:corpus:missing")

    # deterministic small layouts (every reference count, references first / last / reversed / interleaved)
    fixed = []
    for nref, pos0, pos1 in [(1, [0], [2]), (1, [2], [0]), (2, [0, 1], [1, 0]), (2, [2, 0], [1, 3]), (3, [0, 1, 2], [4, 2, 0]),
                             (3, [3, 1, 0], [0, 1, 2]), (4, [0, 1, 2, 3], [5, 3, 1, 0]), (2, [1, 0], [0, 2])]:
        n0, n1 = max(pos0) + 2, max(pos1) + 2
        ref_ids = list(range(nref))
        s0, s1 = [None] * n0, [None] * n1
        for j in range(nref):
            s0[pos0[j]] = ref_ids[j]
            s1[pos1[j]] = ref_ids[j]
        nxt = nref
        for s in (s0, s1):
            for p in range(len(s)):
                if s[p] is None:
                    s[p] = nxt
                    nxt += 1
        for cplx in (False, True):
            G = [[[float(1 + ((3 * s + 5 * k) % 7)), float(((2 * s + k) % 5) - 2) if cplx else 0.0] for k in range(2)] for s in range(nxt)]
            if any(isotropic(G, ref_ids, k) for k in range(2)):
                continue
            fixed.append(dict(kind="merge", G=G, sensors=[s0, s1], refs=[pos0, pos1], factors=[[0.5, -3.0], [2.0, 0.25]],
                              dtype="complex" if cplx else "real"))
    for c in fixed:
        ctx.hist("stream", "fixed")
        do_merge(c)

    for _ in range(ctx.n(150, 1500)):
        ctx.hist("stream", "random")
        do_merge(gen_merge_case(rng))

    # the same global table in other units (10^k, k over [-12, 12]); per-setup factors stay in [0.05, 20]
    for j in range(ctx.n(6, 40)):
        base = gen_merge_case(rng, nm=rng.randint(1, 3), nset=rng.randint(2, 3), max_rov=3)
        ks = [rng.choice([-12, -11, -10, -9]), rng.choice([-8, -6, -4, -2, 2, 4, 6, 8]), rng.choice([9, 10, 11, 12])]
        if not ctx.quick():
            ks += [rng.randint(-12, 12) or 1, rng.randint(-12, 12) or -1]
        ctx.hist("stream", "scale")
        do_scale(base, ks)

    # setups of different array dtypes (int64 / float64 / float32 / complex128), every setup still an exact re-scaled restriction
    for j in range(ctx.n(24, 200)):
        ctx.hist("stream", "mixed-dtype")
        do_merge(gen_mixed_case(rng, ["int-first", "real-first", "float32", "int-later", "all-int", "uint-first", "complex64"][j % 7] if j < 14 else None))

    # special global shapes inside the hypothesis: purely imaginary, real part (or imaginary part) zero on the references only,
    # a zero entry at the first / at all but one reference sensor
    for fam in ("imag", "ref-imag", "ref-real", "first-ref-zero", "one-ref-nonzero"):
        for _ in range(ctx.n(4, 30)):
            c = gen_merge_case(rng, cplx=True, nm=rng.randint(1, 4), nref=rng.randint(2, 4) if fam == "one-ref-nonzero" else None)
            ref_ids = [c["sensors"][0][p] for p in c["refs"][0]]
            for s_, row in enumerate(c["G"]):
                for z in row:
                    if fam == "imag" or (fam == "ref-imag" and s_ in ref_ids):
                        z[0] = 0.0
                        z[1] = z[1] or 0.5
                    elif fam == "ref-real" and s_ in ref_ids:
                        z[1] = 0.0
                        z[0] = z[0] or -0.75
                    elif fam == "first-ref-zero" and s_ == ref_ids[0] and len(ref_ids) > 1:
                        z[0] = z[1] = 0.0
                    elif fam == "one-ref-nonzero" and s_ in ref_ids[:-1]:
                        z[0] = z[1] = 0.0
            if any(isotropic(c["G"], ref_ids, k) for k in range(len(c["G"][0]))):
                continue
            ctx.hist("stream", "special-" + fam)
            do_merge(c)

    # outside the hypothesis (observations, never judged against the theorem): g^T g = 0 on the reference part
    for cplx_ref in ([[1.0, 0.0], [0.0, 1.0]], [[3.0, 0.0], [4.0, 0.0], [0.0, 5.0]], [[0.0, 0.0], [0.0, 0.0]]):
        for _ in range(ctx.n(2, 8)):
            c = gen_merge_case(rng, nref=len(cplx_ref), cplx=True, nm=rng.randint(1, 3))
            ref_ids = [c["sensors"][0][p] for p in c["refs"][0]]
            for s, z in zip(ref_ids, cplx_ref):
                c["G"][s][0] = list(z)
            c["dtype"] = "complex"
            ctx.hist("stream", "isotropic")
            do_merge(c)

    # malformed: mode counts differ (docstring: ValueError).  Error kinds are recorded, not judged (the property names none).
    for _ in range(ctx.n(6, 30)):
        c = gen_merge_case(rng)
        _, MS = arrays(c)
        i = rng.randint(0, len(MS) - 1)
        MS[i] = np.hstack([MS[i], MS[i][:, :1]])
        ctx.hist("stream", "malformed")
        ctx.count(dict(c, malformed="mode-count", at=i), nontrivial=False)
        try:
            gen.merge_mode_shapes(MS, c["refs"])
            kind = "no exception"
        except Exception as e:
            kind = type(e).__name__
        ctx.hist("error_kinds", kind)
        exprs.append(merge_expr(MS, c["refs"]))
        meta.append(("malformed", c, kind))

    # names: the flattened order is the order of the merged rows
    for c in fixed[::2]:
        ctx.hist("stream", "flatten")
        do_flatten(flatten_case(c["sensors"], c["refs"], "ch"))
    for _ in range(ctx.n(60, 600)):
        sensors, refs, _ = gen_layout(rng)
        ctx.hist("stream", "flatten")
        do_flatten(flatten_case(sensors, refs, rng.choice(["ch", "A_", "n"])))
    # missing ref_ind for the multi-setup form (docstring: AttributeError) - recorded only
    sensors, refs, _ = gen_layout(rng)
    names = [["ch%d" % sid for sid in s] for s in sensors]
    try:
        gen.flatten_sns_names(names, ref_ind=None)
        kind = "no exception"
    except Exception as e:
        kind = type(e).__name__
    ctx.hist("error_kinds", "flatten without ref_ind: " + kind)
    exprs.append(flatten_expr(names, None))
    meta.append(("flatten-noref", dict(kind="flatten-noref", names=names), kind))

    # end to end: stub algorithms, then real SSI runs
    for _ in range(ctx.n(40, 300)):
        ctx.hist("stream", "e2e")
        do_e2e(gen_e2e_case(rng))
    for j in range(ctx.n(6, 40)):  # end to end in other units
        ctx.hist("stream", "e2e-scale")
        do_e2e(gen_e2e_case(rng, scale=[-12, 12, -9, 9, -10, -11][j % 6] if j < 12 else rng.choice(SCALES), nset=rng.randint(2, 3), max_rov=3))
    for j in range(ctx.n(8, 60)):  # end to end with setups of different array dtypes
        ctx.hist("stream", "e2e-mixed-dtype")
        do_e2e(gen_e2e_case(rng, mixed=True, nset=rng.randint(2, 4), max_rov=3))
    for _ in range(ctx.n(16, 150)):  # histories on one PoSER object
        ctx.hist("stream", "e2e-history")
        do_hist(gen_hist_case(rng))
    # the class outside the property's hypothesis: names that repeat, setups the constructor refuses (observations)
    for j in range(ctx.n(4, 24)):
        ctx.hist("stream", "e2e-dup-names")
        do_dup(gen_dup_case(ok=j % 2 == 0))
    for j, v in enumerate(["one-setup", "names-short", "names-long", "class-order", "not-run"] * ctx.n(1, 4)):
        ctx.hist("stream", "e2e-init")
        sensors, refs, nsens = gen_layout(rng, nset=rng.randint(2, 3), max_rov=2)
        do_init(dict(kind="e2e-init", variant=v, sensors=sensors, refs=refs, algs=gen_algs(rng, sensors, refs, nsens, 2, mixed=False), names=["grp_x", "grp_y"]))
    # flatten_sns_names: tables with missing cells inside the rows, and the other argument forms
    for _ in range(ctx.n(12, 120)):
        sensors, refs, _ = gen_layout(rng, nset=rng.randint(2, 4), max_rov=3)
        rows = []
        for s_ in sensors:  # None cells anywhere: the reference positions count the names that are left
            row = ["t%d" % sid for sid in s_]
            for _ in range(rng.randint(0, 2)):
                row.insert(rng.randint(0, len(row)), None)
            rows.append(row)
        ctx.hist("stream", "flatten-table")
        do_flatform(dict(kind="flatform", form="table", value=rows, refs=refs))
    for form, val, refs in [("table", [["a", "b", None]], None), ("table", [["a", None, "b"]], [[1]]), ("table", [], [[0]]), ("list", ["a", "b"], None),
                            ("list", [], [[0, 1]]), ("list", [], None), ("list", [], []), ("array", ["a", "b", "c"], None), ("lists", [["a"], []], [[0]]),
                            ("lists", [["a"], ["b"]], [[0]]), ("lists", [[], []], [[0]]), ("lists", [["a", "b"], ["c"]], []),
                            ("table", [["a", "b"], ["c", None]], None), ("table", [["a", "b"], [None, None]], [[1]])]:
        ctx.hist("stream", "flatten-forms")
        do_flatform(dict(kind="flatform", form=form, value=val, refs=refs))

    for j in range(ctx.n(6, 60)):
        case = gen_ssi_case(rng, "SSIcov" if j % 2 == 0 else "SSIdat")
        ctx.hist("stream", "ssi-" + case["alg"])
        do_ssi(case)

    evaluate()
