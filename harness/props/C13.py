"""C13 - spectral matrix estimation (fdd.SD_est): grid, pairing, scaling, phase convention.
Model: coq/Model/M_spectra.v; lemmas: coq/Proofs/P_spectra.v; theorems: coq/Properties/C13.v.

Correspondence: fdd.SD_est ('per' and 'cor') against the model evaluated in Coq on short-dyadic data - sd_per_l / sd_cor_l over Qc
(the one-carrier generic model of the theorems) for small cases and segment lengths that are not powers of two, and the two-carrier
evaluator sd_per_x / sd_cor_x (sums over exact dyadic numbers, scaling over Q) for the rest; both are run and compared exactly on
the small power-of-two cases.  DFT twiddles, Hann samples and the exponential window enter as witness floats (exact rational
images), computed here with NumPy only.  Oracle: the property text on the implementation, written with plain NumPy (np.fft.rfft
for the independent Welch estimate; no scipy.signal, no model)."""
import glob
import json
import os
import warnings
from fractions import Fraction

import numpy as np

from common import VERIF, clist, qc, qc_mat, qq
from pyoma2.functions import fdd

HEADER = "From PyOMA.Base Require Import Cplx.\nFrom PyOMA.Model Require Import M_spectra."


# ----------------------------------------------------------------------------- helpers
def dyad(rng, shape, bits=5):
    """short dyadic rationals: integers in [-2^bits, 2^bits] / 2^(bits-2)"""
    return rng.integers(-(2 ** bits), 2 ** bits + 1, size=shape) / float(2 ** (bits - 2))


def hann(n):
    """periodic (DFT-even) Hann samples, from the definition"""
    return 0.5 - 0.5 * np.cos(2.0 * np.pi * np.arange(n) / n)


def qc_clist(zs):
    return clist(["(%s, %s)" % (qc(z.real), qc(z.imag)) for z in zs])


class InputModified(Exception):
    """SD_est changed an array the caller passed in"""


class ReadOnlyCall(Exception):
    """SD_est raised while the caller's records were read-only views"""


_CALLS = [0]


def _present(arrs, ro):
    """what the implementation sees: every second call the caller's arrays are read-only (np.load(mmap_mode='r'), np.broadcast_to, setflags)"""
    out = []
    for a in arrs:
        v = a.view()
        if ro:
            v.setflags(write=False)
        out.append(v)
    return out


def _call(Y, Yr, dt, n, method, pov, ro):
    _CALLS[0] += 1
    if ro is None:
        ro = _CALLS[0] % 2 == 0
    keep = (Y.copy(), Yr.copy())
    vY, vYr = _present((Y, Yr), ro)
    try:
        with warnings.catch_warnings():
            warnings.simplefilter("ignore")
            f, S = fdd.SD_est(vY, vYr, dt, n, method, pov)
    except Exception as ex:
        if ro:
            raise ReadOnlyCall("%s: %s - the records were passed as read-only arrays (setflags(write=False))" % (type(ex).__name__, str(ex)[:100])) from ex
        raise
    if not (np.array_equal(Y, keep[0]) and np.array_equal(Yr, keep[1])):
        raise InputModified("SD_est(%s) wrote to an input array" % method)
    return np.asarray(f), np.asarray(S)


def sd_est(Y, Yr, dt, n, method, pov, ro=None):
    """float64 image of the record (the harness' own copy); read-only on every second call; inputs must come back unchanged"""
    return _call(np.array(Y, float), np.array(Yr, float), dt, n, method, pov, ro)


def sd_est_raw(Y, Yr, dt, n, method, pov, ro=None):
    """the arrays go in exactly as stored (integer / narrow dtypes stay as they are), as views of the caller's arrays"""
    return _call(Y, Yr, dt, n, method, pov, ro)


def counts(rng, shape, amp, dtype, offset=True):
    """integer-stored record (raw ADC counts): +-amp counts around a per-channel offset"""
    off = rng.integers(-3 * amp - 2, 3 * amp + 3, size=(shape[0], 1)) if offset else 0
    return (rng.integers(-amp, amp + 1, size=shape) + off).astype(dtype)


def relerr(a, b):
    s = np.abs(b).max()
    return np.abs(a - b).max() / s if s > 0 else np.abs(a - b).max()


# ----------------------------------------------------------------------------- independent oracles (property text)
def welch_independent(Y, Yr, fs, n, nov):
    """Welch's averaged, Hann-windowed, one-sided cross density; NO mean removal (the property compares lines >= 2);
    entry (i, j): channel i conjugated, reference j."""
    Y = np.asarray(Y, float)
    Yr = np.asarray(Yr, float)
    N = Y.shape[1]
    step = n - nov
    K = (N - nov) // step
    w = hann(n)
    U = fs * np.sum(w * w)
    S = np.zeros((Y.shape[0], Yr.shape[0], n // 2 + 1), complex)
    for s in range(K):
        A = np.fft.rfft(Y[:, s * step:s * step + n] * w, axis=1)
        B = np.fft.rfft(Yr[:, s * step:s * step + n] * w, axis=1)
        S += np.conj(A)[:, None, :] * B[None, :, :]
    S /= K * U
    S[:, :, 1:(n // 2 if n % 2 == 0 else None)] *= 2.0
    return S


def window_weighted_ms(y, n, nov):
    """(1/K) sum_seg sum_t (w_t (y_t - segment mean))^2 / sum_t w_t^2"""
    step = n - nov
    K = (len(y) - nov) // step
    w = hann(n)
    acc = 0.0
    for s in range(K):
        seg = y[s * step:s * step + n]
        seg = seg - seg.mean()
        acc += np.sum((w * seg) ** 2)
    return acc / K / np.sum(w * w)


# ----------------------------------------------------------------------------- correspondence
def corr_case(rng, n, nall, nref, pn, pd, K, dt, same_ref, extra):
    nov = (n * pn) // pd
    step = n - nov
    Ndat = nov + K * step + extra
    Y = dyad(rng, (nall, Ndat))
    if same_ref:
        ref = sorted(rng.choice(nall, size=min(nref, nall), replace=False).tolist())
        if rng.integers(2):
            ref = ref[::-1]
        Yr = Y[ref, :]
    else:
        ref = None
        Yr = dyad(rng, (nref, Ndat))
    return dict(n=n, pn=pn, pd=pd, K=K, dt=dt, Ndat=Ndat, Y=Y.tolist(), Yref=Yr.tolist(), ref=ref)


def corr_case_int(rng, n, nall, nref, pn, pd, K, dt, extra, amp, dtype):
    """record stored as an integer array (dtype name kept in the case): the model gets the same integers exactly"""
    nov = (n * pn) // pd
    Ndat = nov + K * (n - nov) + extra
    Y = counts(rng, (nall, Ndat), amp, dtype)
    Yr = counts(rng, (nref, Ndat), amp, dtype)
    return dict(n=n, pn=pn, pd=pd, K=K, dt=dt, Ndat=Ndat, Y=Y.tolist(), Yref=Yr.tolist(), ref=None, dtype=np.dtype(dtype).name)


def twiddles(n):
    return np.exp(-2j * np.pi * np.arange(n) / n)


def expwin(n):
    return 0.01 ** (np.arange(n) / float(n))  # exp(-t/tau), tau = -n/ln(0.01)


def dy(x):
    """exact dyadic literal (mantissa, exponent) of a float"""
    f = Fraction(float(x))
    e = f.denominator.bit_length() - 1
    assert f.denominator == 1 << e
    return "(dyq (%d) %d)" % (f.numerator, e)


def dy_c(z):
    return "(%s, %s)" % (dy(z.real), dy(z.imag))


def dy_mat(m):
    return clist([clist([dy(x) for x in r]) for r in m])


def is_pow2(n):
    return n >= 2 and n & (n - 1) == 0


def expr_generic(method, c):
    """the one-carrier model over Qc (every n)"""
    n = c["n"]
    if method == "per":
        fs = 1.0 / c["dt"]  # the float the code computes
        return ("showS3r (qc3 (sd_per_l QcOps %s %s %s %d (noverlap %d %d %d) %d %d %d %s %s))"
                % (qc_clist(twiddles(n)), clist([qc(x) for x in hann(n)]), qc(fs), n, n, c["pn"], c["pd"], c["Ndat"],
                   len(c["Y"]), len(c["Yref"]), qc_mat(c["Y"]), qc_mat(c["Yref"])))
    return ('match sd_cor_l QcOps %s %s %d %d %d %d %s %s with Some res => showS3r (qc3 res) | None => "none" end'
            % (qc_clist(twiddles(n)), clist([qc(x) for x in expwin(n)]), n, c["Ndat"], len(c["Y"]), len(c["Yref"]),
               qc_mat(c["Y"]), qc_mat(c["Yref"])))


def expr_fast(method, c):
    """the two-carrier evaluator: sums over exact dyadics, scaling over Q (n a power of two: 1/n is dyadic)"""
    n = c["n"]
    if method == "per":
        fs = 1.0 / c["dt"]
        return ("showS3r (sd_per_x DyOps QOps_spectra dy2q %s %s %s %s %d (noverlap %d %d %d) %d %d %d %s %s)"
                % (clist([dy_c(z) for z in twiddles(n)]), clist([dy(x) for x in hann(n)]), dy(1.0 / n), qq(fs), n, n, c["pn"], c["pd"],
                   c["Ndat"], len(c["Y"]), len(c["Yref"]), dy_mat(c["Y"]), dy_mat(c["Yref"])))
    return ('match sd_cor_x DyOps QOps_spectra dy2q %s %s %s %s %d %d %d %d %s %s with Some res => showS3r res | None => "none" end'
            % (clist([dy_c(z) for z in twiddles(n)]), clist([dy(x) for x in expwin(n)]), dy(2.0 / n), dy(1.0 / n), n, c["Ndat"],
               len(c["Y"]), len(c["Yref"]), dy_mat(c["Y"]), dy_mat(c["Yref"])))


def parse_s3(s):
    """'re,im re,im;...|...' with every number printed as floor(x * 2^90) -> complex array [i][j][k]"""
    sc = float(2 ** 90)
    out = []
    for blk in s.split("|"):
        rows = []
        for row in blk.split(";"):
            vals = []
            for tok in row.strip().split(" "):
                a, b = tok.split(",")
                vals.append(complex(int(a) / sc, int(b) / sc))
            rows.append(vals)
        out.append(rows)
    return np.array(out)


def correspondence(ctx):
    rng = ctx.np_rng
    cases = []  # (method, case, origin)
    for path in sorted(glob.glob(os.path.join(VERIF, "corpus", "C13", "*.json"))):
        c = json.load(open(path))
        if c.get("kind") == "corr":
            cases.append((c["method"], c["case"], "corpus"))
    sizes = [8, 16, 32] if ctx.quick() else [8, 16, 32, 64]
    povs = [(0, 1), (1, 4), (1, 2), (3, 4), (1, 8), (5, 8)]
    dts = [1.0, 0.5, 0.01, 0.1, 0.004, 1.0 / 3.0, 2.0]
    nrep = ctx.n(36, 120)
    for r in range(nrep):
        n = sizes[r % len(sizes)]
        nall = int(rng.integers(1, 5))
        nref = int(rng.integers(1, 4))
        pn, pd = povs[int(rng.integers(len(povs)))]
        K = int(rng.integers(2, 7))
        if n == 64:
            nall, nref, K = min(nall, 3), min(nref, 2), min(K, 4)
        dt = dts[int(rng.integers(len(dts)))]
        step = n - (n * pn) // pd
        extra = int(rng.integers(0, step))
        same = bool(r % 3 != 2)
        method = "per" if (r // len(sizes)) % 2 == 0 else "cor"
        cases.append((method, corr_case(rng, n, nall, nref, pn, pd, K, dt, same, extra), "gen"))
    # edge stream (~15 %): non-integer n*pov (truncation), a single segment, odd / non power-of-two segment length
    nedge = max(4, nrep // 6)
    for r in range(nedge):
        kind = r % 4
        if kind == 0:
            c = corr_case(rng, 8, 2, 1, 3, 10, 3, 0.5, True, 1)       # int(8*0.3) = 2
        elif kind == 1:
            c = corr_case(rng, 16, 2, 2, 1, 2, 1, 0.1, False, 5)      # one segment
        elif kind == 2:
            c = corr_case(rng, 9, 2, 2, 1, 3, 3, 1.0, True, 2)        # odd nxseg ('per' only)
        else:
            c = corr_case(rng, 12, 2, 1, 1, 4, 3, 0.25, False, 0)     # non power of two
        cases.append(("per", c, "edge"))
        if kind in (1, 3):
            cases.append(("cor", c, "edge"))
    # integer-stored records (raw counts, int32 / int64, small and large amplitudes): SD_est gets the integer array, the model the same integers
    for r in range(ctx.n(6, 16)):
        n = [8, 16, 8, 16, 32, 8][r % 6]
        amp = [4, 300, 20000][r % 3]
        dtype = [np.int32, np.int64][(r // 3) % 2]
        c = corr_case_int(rng, n, int(rng.integers(1, 4)), int(rng.integers(1, 3)), *povs[int(rng.integers(len(povs)))], int(rng.integers(2, 5)),
                          dts[int(rng.integers(len(dts)))], int(rng.integers(0, 3)), amp, dtype)
        cases.append(("per" if r % 2 == 0 else "cor", c, "integer"))
    # which evaluator: fast for powers of two; the generic one-carrier model for the rest, and BOTH on the small cases
    exprs, plan = [], []
    nboth = 0
    for idx, (method, c, origin) in enumerate(cases):
        small = c["n"] <= 8 or (c["n"] <= 16 and len(c["Y"]) * len(c["Yref"]) * c["K"] <= 8)
        if is_pow2(c["n"]):
            exprs.append(expr_fast(method, c))
            plan.append((idx, "fast"))
            if small and nboth < ctx.n(10, 24):
                nboth += 1
                exprs.append(expr_generic(method, c))
                plan.append((idx, "generic"))
        else:
            exprs.append(expr_generic(method, c))
            plan.append((idx, "generic"))
    # 14 shards of equal size, heavy expressions dealt round-robin so that the parallel coqc runs finish together
    order = sorted(range(len(exprs)), key=lambda e: -len(exprs[e]))
    nb = max(1, min(14, len(exprs)))
    size = -(-len(exprs) // nb)
    bins = [order[b::nb] for b in range(nb)]
    pad = [b for b in bins if len(b) == size] + [b for b in bins if len(b) < size]  # full bins first: chunks of `size` stay aligned
    flat = [e for b in pad for e in b]
    res_flat = ctx.coq_eval(HEADER, [exprs[e] for e in flat], shard=size)
    res = [None] * len(exprs)
    for e, r in zip(flat, res_flat):
        res[e] = r
    by_case = {}
    for (idx, which), s in zip(plan, res):
        by_case.setdefault(idx, {})[which] = s
    ctx.extra["evaluator_cross_checks"] = 0
    for idx, (method, c, origin) in enumerate(cases):
        pov = c["pn"] / c["pd"]
        try:
            if c.get("dtype"):
                f, S = sd_est_raw(np.array(c["Y"], dtype=c["dtype"]), np.array(c["Yref"], dtype=c["dtype"]), c["dt"], c["n"], method, pov)
            else:
                f, S = sd_est(c["Y"], c["Yref"], c["dt"], c["n"], method, pov)
        except Exception as ex:
            ctx.count(dict(kind="corr", method=method, case=c))
            ofail(ctx, method, "exception", "raises %s (%s) on a valid record" % (type(ex).__name__, str(ex)[:220]), dict(kind="corr", method=method, case=c, readonly_inputs=isinstance(ex, ReadOnlyCall)))
            continue
        nontriv = bool(np.any(np.array(c["Y"])) and np.any(np.array(c["Yref"])))
        ctx.count(dict(kind="corr", method=method, case=c), nontrivial=nontriv)
        ctx.sample(dict(method=method, n=c["n"], pov="%d/%d" % (c["pn"], c["pd"]), K=c["K"], dt=c["dt"], Ndat=c["Ndat"],
                        nall=len(c["Y"]), nref=len(c["Yref"]), ref=c["ref"], Y0=c["Y"][0][:8], note="first 8 samples of channel 0 shown"))
        ctx.hist("corr_shape", (method, c["n"], len(c["Y"]), len(c["Yref"])))
        ctx.hist("corr_pov_K", ("%d/%d" % (c["pn"], c["pd"]), c["K"]))
        ctx.hist("corr_origin", origin)
        got = by_case[idx]
        if "fast" in got and "generic" in got:
            ctx.extra["evaluator_cross_checks"] += 1
            if got["fast"] != got["generic"]:
                ctx.fail("correspondence", "two-carrier evaluator and the one-carrier model disagree (%s)" % method,
                         dict(method=method, case=c), key="C13:%s:evaluators" % method)
        s = got.get("generic", got.get("fast"))
        fcase = dict(kind="corr", method=method, case=c)
        if s == "none":
            ctx.fail("correspondence", "model declines (odd nxseg for 'cor') where SD_est returned a value", fcase, key="C13:%s:corr-domain" % method)
            continue
        M = parse_s3(s)
        if M.shape != S.shape:
            ctx.fail("correspondence", "SD_est %s: shape %s, model %s" % (method, S.shape, M.shape), fcase, key="C13:%s:corr-shape" % method)
            continue
        scale = np.abs(M).max()
        if not np.all(np.abs(M - S) <= 1e-9 * scale + 1e-300):
            ctx.fail("correspondence", "SD_est %s differs from model %s (max rel. dev %.3g)"
                     % (method, "sd_per" if method == "per" else "sd_cor", relerr(S, M)), fcase, key="C13:%s:corr" % method)
        # frequency grid of the model: k*fs/n, k = 0..n/2 (C13_sd_grid); exact rational image rounded once
        fs = Fraction(1.0 / c["dt"])
        fm = np.array([float(Fraction(k) * fs / c["n"]) for k in range(c["n"] // 2 + 1)])
        if f.shape != fm.shape or not np.allclose(f, fm, rtol=1e-12, atol=0):
            ctx.fail("correspondence", "SD_est %s frequency vector differs from k*fs/n" % method, fcase, key="C13:%s:corr-grid" % method)


# ----------------------------------------------------------------------------- oracle (property text on the implementation)
def ofail(ctx, method, site, what, case):
    ctx.fail("oracle", "SD_est %s: %s" % (method, what), case, key="C13:%s:%s" % (method, site))


class Guard:
    """a Python exception of SD_est on a valid record is a violation of the property text on that input"""

    def __init__(self, ctx, method, case):
        self.ctx, self.method, self.case = ctx, method, case

    def __enter__(self):
        return self

    def __exit__(self, et, ev, tb):
        if et is not None and issubclass(et, Exception) and not issubclass(et, AssertionError):
            case = dict(self.case, readonly_inputs=True) if issubclass(et, ReadOnlyCall) and isinstance(self.case, dict) else self.case
            ofail(self.ctx, self.method, "exception", "raises %s (%s) on a valid record" % (et.__name__, str(ev)[:220]), case)
            return True
        return False


def try_est(ctx, method, case, *args, **kw):
    """sd_est, an exception being reported as a failing input (None returned)"""
    try:
        return sd_est(*args, **kw)
    except Exception as ex:
        case = dict(case, readonly_inputs=True) if isinstance(ex, ReadOnlyCall) and isinstance(case, dict) else case
        ofail(ctx, method, "exception", "raises %s (%s) on a valid record" % (type(ex).__name__, str(ex)[:220]), case)
        return None


def exact_pov(n, m):
    """pov = m/n unless the float product n*pov falls below the integer m (int() would truncate to m-1: not judged)"""
    pov = m / n
    return pov if int(n * pov) == m else None


def oracle_grid_pairing_bilinear(ctx):
    rng = ctx.np_rng
    shapes = [(16, 1, 1), (16, 3, 2), (32, 4, 1), (48, 2, 3), (64, 8, 4), (100, 3, 1), (256, 5, 2), (1024, 2, 2), (4096, 2, 1),
              (9, 2, 3), (15, 3, 1), (25, 2, 2), (125, 3, 2), (1023, 2, 1)]  # odd nxseg: lines k*fs/nxseg, k = 0..(nxseg-1)/2, the last one below Nyquist
    if not ctx.quick():
        shapes += [(20, 6, 4), (128, 7, 3), (512, 8, 1), (2048, 3, 4), (4096, 8, 4), (50, 1, 2), (17, 4, 2), (63, 2, 4), (255, 5, 1), (999, 2, 2), (4095, 1, 1)]
    fss = [1.0, 10.0, 100.0, 12.5, 3.0, 0.5, 250.0, 2000.0, 51.2, 99.0]
    for (n, nall, nref) in shapes:
        for method in ("per", "cor"):
            fs = fss[int(rng.integers(len(fss)))]
            m = int(rng.integers(0, 4)) * (n // 4) if n % 4 == 0 else 0
            pov = exact_pov(n, m)
            if pov is None:
                ctx.not_judged += 1
                continue
            K = int(rng.integers(2, 6))
            N = m + K * (n - m) + int(rng.integers(0, n - m))
            if method == "cor":
                N = max(N, n)  # at least two half-length segments
            Y = rng.standard_normal((nall, N)) + rng.uniform(-1, 1, (nall, 1))
            Yr = rng.standard_normal((nref, N))
            case = dict(kind="grid/pairing/bilinear", method=method, n=n, nall=nall, nref=nref, fs=fs, pov=pov, N=N,
                        seed_note="data = ctx.np_rng stream", Y=Y[:, :64].tolist(), Yref=Yr[:, :64].tolist(), truncated=N > 64)
            ctx.count(dict(kind="grid", method=method, n=n, nall=nall, nref=nref, fs=fs, pov=pov, N=N, d=float(Y[0, 0])))
            ctx.hist("oracle_shape", (method, n, nall, nref))
            with Guard(ctx, method, case):
                f, S = sd_est(Y, Yr, 1.0 / fs, n, method, pov)
                # grid: one line every fs/n from 0 to fs/2; matrix n_all x n_ref x lines
                fe = np.arange(n // 2 + 1) * fs / n
                nyq_ok = len(f) > 0 and (n % 2 == 1 or abs(f[-1] - fs / 2) <= 1e-12 * fs)
                if f.shape != fe.shape or not np.allclose(f, fe, rtol=1e-12, atol=0) or f[0] != 0.0 or not nyq_ok:
                    sp = float(f[1] - f[0]) if len(f) > 1 else float("nan")
                    ofail(ctx, method, "grid", "frequency vector is not one line every fs/nxseg from 0 (got %d lines, spacing %.9g, last %.9g; expected %d lines, "
                          "spacing %.9g, last %.9g)" % (len(f), sp, f[-1] if len(f) else float("nan"), len(fe), fs / n, fe[-1]), case)
                    continue
                if S.shape != (nall, nref, n // 2 + 1):
                    ofail(ctx, method, "shape", "Sy has shape %s, expected (n_all, n_ref, nxseg/2+1) = %s" % (S.shape, (nall, nref, n // 2 + 1)), case)
                    continue
                scale = np.abs(S).max()
                # pairing: entry (i, j) is the estimate of (channel i alone, reference j alone)
                pairs = [(i, j) for i in range(nall) for j in range(nref)]
                if len(pairs) > 6:
                    pairs = [pairs[t] for t in rng.choice(len(pairs), size=6, replace=False)]
                for (i, j) in pairs:
                    _, s1 = sd_est(Y[i:i + 1], Yr[j:j + 1], 1.0 / fs, n, method, pov)
                    if s1.shape != (1, 1, n // 2 + 1) or np.abs(s1[0, 0] - S[i, j]).max() > 1e-10 * scale:
                        ofail(ctx, method, "pairing", "entry (%d,%d) is not the estimate of channel %d against reference %d" % (i, j, i, j), case)
                        break
                # bilinear in (data, reference data); square of a common gain
                if n <= 1024:
                    Z = rng.standard_normal((nall, N))
                    Zr = rng.standard_normal((nref, N))
                    a, b, g = 1.5, -0.75, -3.0
                    _, S2 = sd_est(a * Y + Z, b * Yr + Zr, 1.0 / fs, n, method, pov)
                    Sb = (a * b * S + a * sd_est(Y, Zr, 1.0 / fs, n, method, pov)[1] + b * sd_est(Z, Yr, 1.0 / fs, n, method, pov)[1]
                          + sd_est(Z, Zr, 1.0 / fs, n, method, pov)[1])
                    if relerr(S2, Sb) > 1e-9:
                        ofail(ctx, method, "bilinear", "not bilinear in (data, reference data): rel. dev %.3g" % relerr(S2, Sb), case)
                    _, Sg = sd_est(g * Y, g * Yr, 1.0 / fs, n, method, pov)
                    if relerr(Sg, g * g * S) > 1e-9:
                        ofail(ctx, method, "gain2", "common gain g does not scale the matrix by g^2: rel. dev %.3g" % relerr(Sg, g * g * S), case)


def oracle_welch(ctx):
    """'per': Hermitian PSD with identical data/reference; equals the independent Welch estimate (lines >= 2);
    sum over lines * fs/n = window-weighted mean square (exact identity) and ~ mean square on long white noise."""
    rng = ctx.np_rng
    # observation (outside the quantified domain, not judged): decimal overlaps whose float product nxseg*pov falls just below the integer
    for (n, m) in ((100, 29), (50, 29), (200, 58)):
        if exact_pov(n, m) is None:
            ctx.not_judged += 1
            Y = rng.standard_normal((1, m + 5 * (n - m) + 3))
            r = try_est(ctx, "per", dict(kind="observation", n=n, noverlap=m, Y=Y.tolist()), Y, Y, 0.01, n, "per", m / n)
            if r is None:
                continue
            S = r[1]
            lower = relerr(S[:, :, 2:], welch_independent(Y, Y, 100.0, n, m - 1)[:, :, 2:]) < 1e-9
            ctx.note("nxseg=%d, pov=%r: float(nxseg*pov)=%r, SD_est passes it to scipy which truncates: the estimate %s Welch's with overlap %d instead of %d "
                     "(float product not an integer: outside 'overlaps with integer nxseg*pov', not judged; int(round(nxseg*pov)) would remove it)"
                     % (n, m / n, n * (m / n), "equals" if lower else "is not", m - 1, m))
    sizes = [16, 32, 64, 100, 256, 1024, 4096, 25, 125] if ctx.quick() else [16, 20, 32, 48, 64, 100, 128, 200, 256, 512, 1000, 1024, 2048, 4096, 17, 25, 125, 255, 1023]
    reps = ctx.n(2, 4)
    for n in sizes:
        for rep in range(reps):
            nall = int(rng.integers(1, 9))
            nref = int(rng.integers(1, 5))
            fs = float(rng.choice([1.0, 8.0, 100.0, 12.5, 0.25, 1000.0, 37.0, 51.2, 99.0, 0.5]))
            m = int(rng.integers(0, n))
            if rep % 2 == 0:
                m = [0, n // 4, n // 2, (3 * n) // 4][int(rng.integers(4))]
            if n - m < max(2, n // 16):
                m = n // 2
            pov = exact_pov(n, m)
            if pov is None:
                ctx.not_judged += 1
                ctx.note("pov = %d/%d: float(nxseg*pov) = %r is not the integer %d, SD_est hands int() of it to scipy (truncation) - not judged"
                         % (m, n, n * (m / n), m))
                continue
            K = int(rng.integers(2, 9))
            N = m + K * (n - m) + int(rng.integers(0, n - m))
            Y = rng.standard_normal((nall, N)) * rng.uniform(0.1, 10, (nall, 1)) + rng.uniform(-2, 2, (nall, 1))
            same = rep % 2 == 0
            Yr = Y[:min(nref, nall)] if same else rng.standard_normal((nref, N)) + 0.5 * Y[:1]
            case = dict(kind="welch", n=n, nall=nall, nref=int(Yr.shape[0]), fs=fs, pov=pov, noverlap=m, N=N, K=K, same_ref=same,
                        Y=Y[:, :48].tolist(), truncated=True)
            ctx.count(dict(kind="welch", n=n, nall=nall, nref=int(Yr.shape[0]), fs=fs, m=m, N=N, d=float(Y[0, 0])))
            ctx.hist("welch_n_pov", (n, round(pov, 3)))
            with Guard(ctx, "per", case):
                f, S = sd_est(Y, Yr, 1.0 / fs, n, "per", pov)
                W = welch_independent(Y, Yr, fs, n, m)
                if S.shape != W.shape:
                    ofail(ctx, "per", "shape", "Sy has shape %s, expected %s" % (S.shape, W.shape), case)
                    continue
                sc = np.abs(W[:, :, 2:]).max()
                dev = np.abs(S[:, :, 2:] - W[:, :, 2:]).max() / sc
                if dev > 1e-9:
                    # which convention is broken? (diagnosis only)
                    hint = ""
                    if np.abs(S[:, :, 2:] - np.conj(W[:, :, 2:])).max() / sc < 1e-9:
                        hint = " (it equals the complex conjugate: the reference, not the channel, is conjugated)"
                    ofail(ctx, "per", "welch", "differs from Welch's averaged Hann-windowed one-sided density (lines >= 2): rel. dev %.3g%s" % (dev, hint), case)
                # integral over frequency = (window-weighted) mean square of the mean-removed segments: exact identity
                _, Sd = sd_est(Y, Y, 1.0 / fs, n, "per", pov)
                for i in range(nall):
                    integ = float(np.sum(Sd[i, i].real) * fs / n)
                    ms = window_weighted_ms(Y[i], n, m)
                    if abs(integ - ms) > 1e-9 * ms:
                        ofail(ctx, "per", "integral", "sum_k Sy[i][i][k]*fs/nxseg = %.12g but the Hann-weighted mean square of the mean-removed segments is %.12g"
                              % (integ, ms), case)
                        break
                # Hermitian positive semidefinite at every line
                if relerr(Sd, np.conj(np.transpose(Sd, (1, 0, 2)))) > 1e-12:
                    ofail(ctx, "per", "hermitian", "Sy[j][i] != conj(Sy[i][j]) with identical data and reference", case)
                else:
                    ev = np.linalg.eigvalsh(np.transpose(Sd, (2, 0, 1)))
                    if ev.min() < -1e-10 * max(ev.max(), 1e-300):
                        ofail(ctx, "per", "psd", "negative eigenvalue %.3g (largest %.3g)" % (ev.min(), ev.max()), case)
    # long white noise: integral over frequency ~ mean square (Hann-weighted estimate: 5 % at N = 2^16, ~7 sigma)
    for rep in range(ctx.n(2, 6)):
        n = [256, 1024, 64][rep % 3]
        fs = [100.0, 8.0, 1.0][rep % 3]
        N = 2 ** 16
        sig = float(rng.uniform(0.5, 4.0))
        y = sig * rng.standard_normal((2, N))
        ctx.count(dict(kind="noise-integral", n=n, fs=fs, sig=sig))
        r = try_est(ctx, "per", dict(kind="noise-integral", n=n, fs=fs, sigma=sig, N=N, head=y[:, :32].tolist()), y, y, 1.0 / fs, n, "per", 0.5)
        if r is None:
            continue
        S = r[1]
        for i in range(2):
            integ = float(np.sum(S[i, i].real) * fs / n)
            ms = float(np.mean((y[i] - y[i].mean()) ** 2))
            if abs(integ / ms - 1) > 0.05:
                ofail(ctx, "per", "integral-noise", "integral over frequency %.6g vs mean square %.6g of white noise" % (integ, ms),
                      dict(kind="noise-integral", n=n, fs=fs, sigma=sig, N=N))


EXACT_DTYPES = ("int32", "int64", "uint32", "uint64")          # scipy computes these in double precision: judged like float64
NARROW_DTYPES = ("uint8", "uint16", "int16", "float32")         # scipy returns complex64 for these: judged at single precision


def integer_record_checks(ctx, method, Y, Yr, Z, Zr, fs, n, m, case):
    """property text on a record stored in another dtype than float64: (a) same estimate as for the float64 image of the record; (b) 'per':
    Welch's estimate (lines >= 2); (c) bilinear with integer gains applied in the stored arithmetic, g^2 for a common integer gain (wide
    integer types only: no overflow by construction).  Narrow types (single-precision result) are judged at 2e-5, never tighter."""
    pov = m / n
    dname = Y.dtype.name
    narrow = dname in NARROW_DTYPES
    t_img, t_val = (2e-5, 2e-5) if narrow else (1e-12, 1e-9)
    with Guard(ctx, method, case):
        f, S = sd_est_raw(Y, Yr, 1.0 / fs, n, method, pov)
        ff, Sf = sd_est(Y.astype(float), Yr.astype(float), 1.0 / fs, n, method, pov)
        if S.shape != Sf.shape or not np.allclose(f, ff, rtol=1e-12, atol=0) or relerr(S, Sf) > t_img:
            ofail(ctx, method, "integer-record", "the estimate of a record stored as %s differs from that of the same values stored as float by %.3g (limit %g)"
                  % (Y.dtype, relerr(S, Sf) if S.shape == Sf.shape else float("inf"), t_img), case)
            if S.shape != Sf.shape:
                return
        if method == "per":
            W = welch_independent(Y.astype(float), Yr.astype(float), fs, n, m)
            dev = relerr(S[:, :, 2:], W[:, :, 2:])
            if dev > t_val:
                ofail(ctx, method, "integer-welch", "record stored as %s: differs from Welch's averaged Hann-windowed one-sided density (lines >= 2) by %.3g" % (Y.dtype, dev), case)
        if narrow or Z is None:
            return
        g, a, b = (3, 2, -3) if Y.dtype.kind == "i" else (3, 2, 3)   # unsigned: positive gains only
        _, Sg = sd_est_raw(g * Y, g * Yr, 1.0 / fs, n, method, pov)
        if (g * Y).dtype != Y.dtype or relerr(Sg, g * g * S) > 1e-9:
            ofail(ctx, method, "integer-gain2", "record stored as %s: Sy(%d Y, %d Yref) differs from %d Sy(Y, Yref) by %.3g" % (Y.dtype, g, g, g * g, relerr(Sg, g * g * S)), case)
        _, S2 = sd_est_raw(a * Y + Z, b * Yr + Zr, 1.0 / fs, n, method, pov)
        Sb = (a * b * S + a * sd_est_raw(Y, Zr, 1.0 / fs, n, method, pov)[1] + b * sd_est_raw(Z, Yr, 1.0 / fs, n, method, pov)[1]
              + sd_est_raw(Z, Zr, 1.0 / fs, n, method, pov)[1])
        if relerr(S2, Sb) > 1e-9:
            ofail(ctx, method, "integer-bilinear", "record stored as %s: not bilinear in (data, reference data) for integer combinations: rel. dev %.3g" % (Y.dtype, relerr(S2, Sb)), case)


def stored(rng, shape, amp, dtype):
    """a record stored as dtype: signed counts around an offset, unsigned counts 0..2 amp (+ offset), float32 short dyadics"""
    dt = np.dtype(dtype)
    if dt.kind == "i":
        return counts(rng, shape, min(amp, 5000) if dt.itemsize == 2 else amp, dtype)
    if dt.kind == "u":
        hi = {1: 60, 2: 9000}.get(dt.itemsize, 2 * amp)
        return (rng.integers(0, min(2 * amp, hi) + 1, size=shape) + rng.integers(0, 10, size=(shape[0], 1))).astype(dtype)
    return (rng.integers(-amp, amp + 1, size=shape) / 8.0).astype(dtype)


def oracle_integer(ctx):
    rng = ctx.np_rng
    for path in sorted(glob.glob(os.path.join(VERIF, "corpus", "C13", "*.json"))):
        c = json.load(open(path))
        if c.get("kind") == "integer":
            Y, Yr = np.array(c["Y"], dtype=c["dtype"]), np.array(c["Yref"], dtype=c["dtype"])
            Z, Zr = np.array(c["Z"], dtype=c["dtype"]), np.array(c["Zref"], dtype=c["dtype"])
            for method in ("per", "cor"):
                ctx.count(dict(kind="corpus-integer", file=os.path.basename(path), method=method))
                integer_record_checks(ctx, method, Y, Yr, Z, Zr, c["fs"], c["n"], c["noverlap"], dict(c, method=method, corpus=os.path.basename(path)))
    confs = [(n, amp, dtype) for n in ([16, 64, 25, 256] if ctx.quick() else [16, 32, 64, 25, 100, 125, 256, 1024])
             for amp in (4, 300, 20000) for dtype in (np.int32, np.int64)]
    # other storage types the property does not restrict: unsigned counts, 16-bit counts, single-precision floats
    confs += [(n, amp, dtype) for (n, amp) in ([(16, 4), (64, 300)] if ctx.quick() else [(16, 4), (64, 300), (25, 20000), (256, 300)])
              for dtype in (np.uint32, np.uint64, np.uint8, np.uint16, np.int16, np.float32)]
    for (n, amp, dtype) in confs:
        nall, nref = int(rng.integers(1, 5)), int(rng.integers(1, 4))
        m = [0, n // 4, n // 2, (3 * n) // 4][int(rng.integers(4))]
        if exact_pov(n, m) is None:
            ctx.not_judged += 1
            continue
        fs = float(rng.choice([100.0, 12.5, 51.2, 99.0, 0.5, 1.0]))
        N = m + int(rng.integers(2, 7)) * (n - m) + int(rng.integers(0, n - m))
        N = max(N, n)
        Y, Yr = stored(rng, (nall, N), amp, dtype), stored(rng, (nref, N), amp, dtype)
        Z, Zr = stored(rng, (nall, N), amp, dtype), stored(rng, (nref, N), amp, dtype)
        for method in ("per", "cor"):
            case = dict(kind="integer", method=method, dtype=np.dtype(dtype).name, n=n, noverlap=m, fs=fs, N=N, amplitude=amp,
                        Y=Y[:, :96].tolist(), Yref=Yr[:, :96].tolist(), Z=Z[:, :96].tolist(), Zref=Zr[:, :96].tolist(), truncated=N > 96)
            ctx.count(dict(kind="integer", method=method, dtype=np.dtype(dtype).name, n=n, m=m, fs=fs, N=N, amp=amp, d=float(Y[0, 0])))
            ctx.hist("integer_records", (method, np.dtype(dtype).name, amp))
            integer_record_checks(ctx, method, Y, Yr, Z, Zr, fs, n, m, case)


def welch_long_check(ctx, Y, Yr, fs, n, m, case):
    """'per' on a long record: Welch's average runs over ALL segments with equal weights (independent NumPy Welch, lines >= 2, 1e-9),
    and the integral over frequency is the Hann-weighted mean square over all segments."""
    with Guard(ctx, "per", case):
        f, S = sd_est(Y, Yr, 1.0 / fs, n, "per", m / n)
        W = welch_independent(Y, Yr, fs, n, m)
        if S.shape != W.shape:
            ofail(ctx, "per", "shape", "Sy has shape %s, expected %s" % (S.shape, W.shape), case)
            return
        dev = relerr(S[:, :, 2:], W[:, :, 2:])
        if dev > 1e-9:
            ofail(ctx, "per", "welch-long", "record of %d segments: differs from Welch's average over all segments (lines >= 2) by %.3g" % (case["K"], dev), case)
            return
        _, Sd = sd_est(Y[:1], Y[:1], 1.0 / fs, n, "per", m / n)
        integ, ms = float(np.sum(Sd[0, 0].real) * fs / n), window_weighted_ms(np.asarray(Y[0], float), n, m)
        if abs(integ - ms) > 1e-9 * ms:
            ofail(ctx, "per", "integral-long", "record of %d segments: sum_k Sy[0][0][k]*fs/nxseg = %.12g, Hann-weighted mean square over all segments %.12g"
                  % (case["K"], integ, ms), case)


def oracle_welch_long(ctx):
    rng = ctx.np_rng
    for path in sorted(glob.glob(os.path.join(VERIF, "corpus", "C13", "*.json"))):
        c = json.load(open(path))
        if c.get("kind") == "welch-long":
            ctx.count(dict(kind="corpus-welch-long", file=os.path.basename(path)))
            welch_long_check(ctx, np.array(c["Y"], float), np.array(c["Yref"], float), c["fs"], c["n"], c["noverlap"], dict(c, corpus=os.path.basename(path)))
    Ks = [129, 130, 200, 257, 300, 555, 1000, 128, 256] if ctx.quick() else [129, 130, 131, 200, 255, 257, 300, 385, 555, 640, 1000, 1537, 2500, 128, 256, 384]
    for K in Ks:
        for rep in range(ctx.n(1, 2)):
            n = int(rng.choice([16, 32, 50, 25, 64]))
            m = [0, n // 4, n // 2, (3 * n) // 4][int(rng.integers(4))]
            if exact_pov(n, m) is None:
                m = 0
            nall, nref = int(rng.integers(1, 4)), int(rng.integers(1, 3))
            fs = float(rng.choice([100.0, 12.5, 51.2, 1.0]))
            N = m + K * (n - m) + int(rng.integers(0, n - m))
            Y = rng.standard_normal((nall, N)) * rng.uniform(0.2, 5, (nall, 1)) + rng.uniform(-1, 1, (nall, 1))
            same = rep == 0 and K % 2 == 1
            Yr = Y[:min(nref, nall)] if same else rng.standard_normal((nref, N)) + 0.5 * Y[:1]
            case = dict(kind="welch-long", n=n, noverlap=m, K=K, N=N, fs=fs, nall=nall, nref=int(Yr.shape[0]), same_ref=same,
                        Y=Y[:, :64].tolist(), truncated=True, data_note="ctx.np_rng stream")
            ctx.count(dict(kind="welch-long", n=n, m=m, K=K, N=N, fs=fs, nall=nall, d=float(Y[0, 0])))
            ctx.hist("welch_long_segments", K)
            welch_long_check(ctx, Y, Yr, fs, n, m, case)
    # class level: one long record through FDD (result.Sy against the independent Welch estimate, not against SD_est)
    from pyoma2.algorithms import FDD
    from pyoma2.setup import SingleSetup
    for K, n, m, fs in ([(300, 32, 16, 51.2)] if ctx.quick() else [(300, 32, 16, 51.2), (129, 16, 4, 100.0), (1000, 50, 0, 12.5)]):
        data = rng.standard_normal((m + K * (n - m) + 3, 3))
        case = dict(kind="class-welch-long", cls="FDD", nxseg=n, noverlap=m, K=K, fs=fs, data_note="ctx.np_rng stream", head=data[:16].tolist())
        ctx.count(dict(kind="class-welch-long", K=K, n=n, m=m, d=float(data[0, 0])))
        try:
            with warnings.catch_warnings():
                warnings.simplefilter("ignore")
                ss = SingleSetup(data.copy(), fs=fs)
                alg = FDD(name="a", nxseg=n, method_SD="per", pov=m / n)
                ss.add_algorithms(alg)
                ss.run_by_name("a")
        except Exception as ex:
            ctx.fail("oracle", "FDD on a long record raises %s (%s)" % (type(ex).__name__, str(ex)[:120]), case, key="C13:glue:FDD:exception")
            continue
        Sr = np.asarray(alg.result.Sy)
        W = welch_independent(data.T, data.T, fs, n, m)
        if Sr.shape != W.shape or relerr(Sr[:, :, 2:], W[:, :, 2:]) > 1e-9:
            ctx.fail("oracle", "FDD.result.Sy on a record of %d segments differs from Welch's average over all segments (lines >= 2) by %.3g"
                     % (K, relerr(Sr[:, :, 2:], W[:, :, 2:]) if Sr.shape == W.shape else float("inf")), case, key="C13:glue:FDD:welch-long")


def oracle_gain_delay(ctx):
    """channel 1 = g * channel 0 delayed by d samples: Sy[0][1]/Sy[0][0] = g exp(-2 pi i f d/fs)."""
    rng = ctx.np_rng
    confs = []
    for n in ([64, 256, 1024] if ctx.quick() else [64, 128, 256, 512, 1024, 4096]):
        ds = sorted(set([0, 1, n // 64, max(1, n // 128)]))
        for d in ds:
            for _ in range(ctx.n(2, 3)):
                g = float(10 ** rng.uniform(-1, 1) * (1 if rng.integers(2) else -1))
                confs.append((n, d, g))
    for (n, d, g) in confs:
        K = 120
        fs = float(rng.choice([100.0, 1.0, 20.0, 51.2, 12.5]))
        N = n * K // 2 + n
        x = rng.standard_normal(N + d)
        Y = np.vstack([x[d:d + N], g * x[:N]])  # Y[1][t] = g * Y[0][t - d]
        for method in ("per", "cor"):
            case = dict(kind="gain-delay", method=method, n=n, delay=d, gain=g, fs=fs, N=N, pov=0.5, x0=x[:32].tolist(), truncated=True)
            ctx.count(dict(kind="gain-delay", method=method, n=n, d=d, g=g, fs=fs, x0=float(x[0])))
            ctx.hist("delay", (method, n, d))
            with Guard(ctx, method, case):
                f, S = sd_est(Y, Y, 1.0 / fs, n, method, 0.5)
                if S.shape != (2, 2, n // 2 + 1):
                    ofail(ctx, method, "shape", "Sy has shape %s" % (S.shape,), case)
                    continue
                H = S[0, 1] / S[0, 0]
                fe = np.arange(n // 2 + 1) * fs / n
                th = g * np.exp(-2j * np.pi * fe * d / fs)
                e = np.abs(H - th) / abs(g)
                eo = np.abs(H - np.conj(th)) / abs(g)
                if method == "per":
                    # lines 0 and 1 carry only what the per-segment mean removal leaves (up to ~10 % scatter on the unchanged tree): not judged
                    ctx.not_judged += 2
                    if e[2:].max() > 0.05:
                        ofail(ctx, method, "gain-delay", "cross/auto ratio misses gain %.4g and phase -2 pi f %d/fs by %.3g at line %d (limit 0.05)"
                              % (g, d, e[2:].max(), 2 + int(e[2:].argmax())), case)
                else:
                    if np.median(e) > 0.30:
                        ofail(ctx, method, "gain-delay", "cross/auto ratio misses gain %.4g and phase -2 pi f %d/fs: median rel. error %.3g (limit 0.30)"
                              % (g, d, float(np.median(e))), case)
                if d >= 1 and np.median(eo) <= 1.0:
                    ofail(ctx, method, "conjugation", "the opposite conjugation fits as well (median rel. error %.3g <= 1): phase convention lost" % float(np.median(eo)), case)


def oracle_sinusoid(ctx):
    """'per': stationary sinusoids at grid line k0: Sy[i][j][k0]/Sy[i][i][k0] = A_j/A_i (complex amplitudes), 1e-9."""
    rng = ctx.np_rng
    # grid lines whose negative-frequency image is at least two lines away (the Hann window spreads a line over its two neighbours only):
    # k0 = 1 .. floor((nxseg-2)/2), i.e. all lines away from 0 and Nyquist; odd and non-power-of-two nxseg included
    def kmax(n):
        return (n - 2) // 2
    confs = [(n, k0) for n in (16, 32, 9, 15, 25) for k0 in range(1, kmax(n) + 1)]
    for n in ([64, 256, 1024, 125, 1023] if ctx.quick() else [64, 100, 128, 256, 1000, 1024, 4096, 63, 125, 255, 999, 1023, 4095]):
        ks = sorted(set([1, 2, kmax(n), kmax(n) - 1] + [int(k) for k in rng.integers(1, kmax(n) + 1, size=ctx.n(3, 8))]))
        confs += [(n, k0) for k0 in ks]
    for (n, k0) in confs:
        nch = int(rng.integers(2, 5))
        amp = 10 ** rng.uniform(-1.5, 1.5, nch)
        ph = rng.uniform(-np.pi, np.pi, nch)
        A = amp * np.exp(1j * ph)
        m = [0, n // 4, n // 2, (3 * n) // 4][int(rng.integers(4))]
        pov = exact_pov(n, m)
        if pov is None:
            ctx.not_judged += 1
            continue
        K = int(rng.integers(2, 6))
        N = m + K * (n - m) + int(rng.integers(0, n - m))
        fs = float(rng.choice([1.0, 50.0, 256.0, 12.5, 99.0, 0.5, 51.2]))
        t = np.arange(N)
        Y = np.real(A[:, None] * np.exp(2j * np.pi * k0 * t[None, :] / n))
        case = dict(kind="sinusoid", n=n, line=k0, amplitudes=amp.tolist(), phases=ph.tolist(), pov=pov, N=N, fs=fs)
        ctx.count(case)
        ctx.hist("sinusoid_n", n)
        with Guard(ctx, "per", case):
            f, S = sd_est(Y, Y, 1.0 / fs, n, "per", pov)
            if S.shape != (nch, nch, n // 2 + 1):
                ofail(ctx, "per", "shape", "Sy has shape %s" % (S.shape,), case)
                continue
            # the sinusoids' frequency is k0*fs/nxseg: the spectrum must peak at the line that carries that label
            kp = int(np.argmax(S[0, 0].real))
            fsin = k0 * fs / n
            if len(f) != n // 2 + 1 or kp != k0 or abs(f[kp] - fsin) > 1e-9 * fsin:
                ofail(ctx, "per", "sinusoid-frequency", "sinusoids at %.9g Hz (grid line %d of nxseg=%d, fs=%g) are reported at %.9g Hz (line %d of %d)"
                      % (fsin, k0, n, fs, f[kp] if kp < len(f) else float("nan"), kp, len(f)), case)
                continue
            worst = 0.0
            for i in range(nch):
                for j in range(nch):
                    r = S[i, j, k0] / S[i, i, k0]
                    worst = max(worst, abs(r - A[j] / A[i]) / abs(A[j] / A[i]))
            if worst > 1e-9:
                ofail(ctx, "per", "sinusoid", "Sy[i][j]/Sy[i][i] at the sinusoids' line differs from A_j/A_i by %.3g (limit 1e-9)" % worst, case)


def class_sequence(ctx, spec, origin="gen"):
    """observe_at: FDD / EFDD / FSDD / pLSCF result.{freq,Sy}.  One algorithm OBJECT is driven through a sequence of steps; after
    every run its stored freq/Sy must be SD_est on the data and sampling rate the object holds NOW with the run parameters it has
    NOW (so: Welch with the current overlap, grid fs_now/nxseg_now, g^2 scaling of the current record) - nothing may survive
    from an earlier run.  spec = dict(cls, seed, nch, setups=[dict(N, fs, gain)], init=dict(nxseg, method, pov), steps=[...]);
    steps: ["run"] | ["pov", x] | ["nxseg", n] | ["method", m] | ["attach", setup index] (each followed by a run)."""
    import pyoma2.algorithms as algs
    from pyoma2.setup import SingleSetup
    cls = getattr(algs, spec["cls"])
    drng = np.random.default_rng(spec["seed"])
    base = drng.standard_normal((max(su["N"] for su in spec["setups"]), spec["nch"]))
    datas = [su["gain"] * base[:su["N"]] + (0.0 if k == 0 else 0.25 * drng.standard_normal((su["N"], spec["nch"]))) for k, su in enumerate(spec["setups"])]
    if spec.get("dtype"):  # records stored as integer counts; the expected value below is SD_est on their float image
        datas = [(np.rint(spec["counts"] * d) + 11).astype(spec["dtype"]) for d in datas]
    cur = dict(spec["init"])
    where = 0
    kw = dict(name="a", nxseg=cur["nxseg"], method_SD=cur["method"], pov=cur["pov"])
    if spec["cls"] == "pLSCF":
        kw["ordmax"] = 6
    prev = None
    try:
        with warnings.catch_warnings():
            warnings.simplefilter("ignore")
            held = [d.copy() for d in datas]
            if spec.get("readonly", spec["seed"] % 2 == 0):  # the record the setup is given is read-only (memory-mapped file, broadcast view)
                for h in held:
                    h.setflags(write=False)
            setups = [SingleSetup(h, fs=su["fs"]) for h, su in zip(held, spec["setups"])]
            alg = cls(**kw)
            setups[0].add_algorithms(alg)
    except Exception as ex:
        ctx.count(dict(kind="class-seq", cls=spec["cls"], seed=spec["seed"], step="setup"))
        ctx.fail("oracle", "%s: building the setup / algorithm raises %s (%s) on a valid record%s" % (spec["cls"], type(ex).__name__, str(ex)[:120],
                 " held read-only" if spec.get("readonly", spec["seed"] % 2 == 0) else ""), dict(kind="class-seq", origin=origin, spec=spec), key="C13:glue:%s:exception" % spec["cls"])
        return
    for si, step in enumerate([["run"]] + [list(x) for x in spec["steps"]]):
        kind = step[0]
        before = dict(cur, setup=where)
        try:
            with warnings.catch_warnings():
                warnings.simplefilter("ignore")
                if kind == "pov":
                    cur["pov"] = step[1]
                elif kind == "nxseg":
                    cur["nxseg"] = step[1]
                elif kind == "method":
                    cur["method"] = step[1]
                elif kind == "attach":
                    where = step[1]
                    setups[where].add_algorithms(alg)
                if kind in ("pov", "nxseg", "method"):
                    alg.set_run_params(alg.run_params.model_copy(update=dict(nxseg=cur["nxseg"], method_SD=cur["method"], pov=cur["pov"])))
                setups[where].run_by_name("a")
        except Exception as ex:
            ctx.count(dict(kind="class-seq", cls=spec["cls"], seed=spec["seed"], step=si, what=step))
            ctx.fail("oracle", "%s (run %d of one object, step %s): raises %s (%s) on a valid record%s" % (spec["cls"], si, kind, type(ex).__name__, str(ex)[:120],
                     " held read-only" if spec.get("readonly", spec["seed"] % 2 == 0) else ""),
                     dict(kind="class-seq", origin=origin, spec=spec, failing_step=si, step=step), key="C13:glue:%s:exception" % spec["cls"])
            return
        if not all(np.array_equal(h, d) for h, d in zip(held, datas)):
            ctx.fail("oracle", "%s (run %d of one object): the record held by the setup was modified" % (spec["cls"], si),
                     dict(kind="class-seq", origin=origin, spec=spec, failing_step=si, step=step), key="C13:glue:%s:input-modified" % spec["cls"])
            return
        fs = spec["setups"][where]["fs"]
        case = dict(kind="class-seq", origin=origin, spec=spec, failing_step=si, step=step, before=before, now=dict(cur, setup=where, fs=fs))
        r = try_est(ctx, cur["method"], case, datas[where].T, datas[where].T, 1.0 / fs, cur["nxseg"], cur["method"], cur["pov"], ro=False)
        if r is None:
            return
        f, S = r
        fr, Sr = np.asarray(alg.result.freq), np.asarray(alg.result.Sy)
        ctx.count(dict(kind="class-seq", cls=spec["cls"], seed=spec["seed"], step=si, what=step, now=dict(cur, setup=where)))
        ctx.hist("class_step", (spec["cls"], kind))
        bad = None
        if fr.shape != f.shape or not np.allclose(fr, f, rtol=1e-12, atol=0):
            bad = "result.freq has %d lines, df %.6g; expected %d lines, df %.6g (fs now %g, nxseg now %d)" % (
                len(fr), fr[1] - fr[0] if len(fr) > 1 else float("nan"), len(f), f[1] - f[0], fs, cur["nxseg"])
        elif Sr.shape != S.shape or relerr(Sr, S) > 1e-12:
            stale = prev is not None and Sr.shape == prev.shape and np.array_equal(Sr, prev)
            bad = "result.Sy deviates from SD_est on the current data/parameters by %.3g%s" % (
                relerr(Sr, S) if Sr.shape == S.shape else float("inf"), " (it is still the result of the previous run)" if stale else "")
        elif kind == "run" and si > 0 and not (np.array_equal(Sr, prev) and np.array_equal(fr, prevf)):
            bad = "running twice with nothing changed gives a different result"
        if bad:
            desc = {"run": "first run" if si == 0 else "re-run unchanged", "pov": "pov only changed %s -> %s" % (before["pov"], cur["pov"]),
                    "nxseg": "nxseg only changed %s -> %s" % (before["nxseg"], cur["nxseg"]),
                    "method": "method only changed %s -> %s" % (before["method"], cur["method"]),
                    "attach": "object re-attached to a setup with other data (gain %g) and fs %g" % (spec["setups"][where]["gain"], fs)}[kind]
            if spec.get("dtype"):
                desc += "; record stored as %s" % spec["dtype"]
            ctx.fail("oracle", "%s (run %d of one object; %s): %s" % (spec["cls"], si, desc, bad), case, key="C13:glue:%s:%s" % (spec["cls"], kind))
            return
        prev, prevf = Sr.copy(), fr.copy()


def oracle_classes(ctx):
    rng = ctx.np_rng
    for path in sorted(glob.glob(os.path.join(VERIF, "corpus", "C13", "*.json"))):
        c = json.load(open(path))
        if c.get("kind") == "class-seq":
            class_sequence(ctx, c["spec"], origin=os.path.basename(path))
    fss = [100.0, 12.5, 51.2, 99.0, 0.5, 20.0, 256.0]
    for cname in ("FDD", "EFDD", "FSDD", "pLSCF"):
        for rep in range(ctx.n(2, 6)):
            n0 = int(rng.choice([32, 64, 128]))
            n1 = int(rng.choice([x for x in (32, 64, 128, 50) if x != n0]))
            p0, p1, p2 = [float(x) for x in rng.permutation([0.0, 0.25, 0.5, 0.75])[:3]]
            m0 = "per" if rep % 2 == 0 else "cor"
            m1 = "cor" if m0 == "per" else "per"
            f0, f1 = [float(x) for x in rng.choice(fss, size=2, replace=False)]
            setups = [dict(N=128 * 8 + 13, fs=f0, gain=1.0), dict(N=128 * 6 + 5, fs=f1, gain=float(rng.choice([-3.0, 0.2, 7.5])))]
            # every single-parameter change, the re-attachment and the unchanged re-run, in a random order; then the same changes after the re-attachment
            steps = [["pov", p1], ["nxseg", n1], ["method", m1], ["attach", 1], ["run"]]
            steps = [steps[i] for i in rng.permutation(len(steps))]
            steps += [["pov", p2], ["attach", 0], ["method", m0], ["nxseg", n0], ["run"]]
            spec = dict(cls=cname, seed=int(rng.integers(1 << 30)), nch=int(rng.integers(2, 5)), setups=setups,
                        init=dict(nxseg=n0, method=m0, pov=p0), steps=steps)
            if rep % 2 == 1 or cname in ("FDD", "pLSCF") and rep == 0:
                spec.update(dtype=["int32", "int64"][int(rng.integers(2))], counts=[2.0, 150.0, 9000.0][int(rng.integers(3))])
            class_sequence(ctx, spec)


def scribble(f, S):
    """what a caller may do with arrays it owns"""
    f *= 2 * np.pi
    f[0] = np.nan
    S[...] = 0


def ownership_case(ctx, method, n, fs, m, Y1, Yr1, Y2, Yr2, case):
    """the caller owns what SD_est returns and the records it passed: after it has overwritten all of them in place, a further estimate
    with the same (nxseg, fs, method) - on the same values and on another record - is what a first call gives: grid k*fs/nxseg, the same
    spectrum bit for bit, and no memory shared with the arrays handed out before."""
    pov = m / n
    fe = np.arange(n // 2 + 1) * fs / n
    with Guard(ctx, method, case):
        a1, ar1 = np.array(Y1, float), np.array(Yr1, float)        # the caller's copies of the first record
        f1, S1 = sd_est_raw(a1, ar1, 1.0 / fs, n, method, pov)
        f1c, S1c = f1.copy(), S1.copy()
        fb, Sb = sd_est_raw(np.array(Y2, float), np.array(Yr2, float), 1.0 / fs, n, method, pov)  # the other record, before anything is overwritten
        fbc, Sbc = fb.copy(), Sb.copy()
        if f1c.shape != fe.shape or not np.allclose(f1c, fe, rtol=1e-12, atol=0):
            ofail(ctx, method, "grid", "frequency vector of a first call is not k*fs/nxseg (df %.6g, expected %.6g)" % (f1c[2] - f1c[1] if len(f1c) > 2 else float("nan"), fs / n), case)
            return
        scribble(f1, S1)
        if fb is not f1 and not np.shares_memory(fb, f1):
            scribble(fb, Sb)
        a1[...] = -7.0
        ar1[...] = 3.0
        for which, (Ya, Yra, fexp, Sexp) in (("same record", (Y1, Yr1, f1c, S1c)), ("another record", (Y2, Yr2, fbc, Sbc))):
            a2, ar2 = np.array(Ya, float), np.array(Yra, float)
            f2, S2 = sd_est_raw(a2, ar2, 1.0 / fs, n, method, pov)
            if f2.shape != fe.shape or not np.allclose(f2, fe, rtol=1e-12, atol=0, equal_nan=False):
                ofail(ctx, method, "ownership-grid", "after the caller overwrote the arrays of an earlier call in place (freq *= 2 pi, freq[0] = nan), the next estimate "
                      "(%s, same nxseg=%d, fs=%g) returns a frequency vector that is not k*fs/nxseg: df got %.6g, expected %.6g; freq[0] = %r"
                      % (which, n, fs, f2[2] - f2[1] if len(f2) > 2 else float("nan"), fs / n, float(f2[0]) if len(f2) else None), case)
                return
            if not np.array_equal(f2, fexp) or S2.shape != Sexp.shape or not np.array_equal(S2, Sexp):
                ofail(ctx, method, "ownership-spectrum", "after the caller overwrote the arrays of an earlier call and its record in place, the next estimate (%s) "
                      "differs from what a first call gave (rel. dev %.3g)" % (which, relerr(S2, Sexp) if S2.shape == Sexp.shape else float("inf")), case)
                return
            shared = [nm for nm, (x, y) in (("freq/earlier freq", (f2, f1)), ("Sy/earlier Sy", (S2, S1)), ("freq/other earlier freq", (f2, fb)),
                                            ("Sy/other earlier Sy", (S2, Sb)), ("Sy/record", (S2, a2)), ("freq/record", (f2, a2))) if np.shares_memory(x, y)]
            if shared:
                ofail(ctx, method, "ownership-shared", "arrays returned by the next estimate (%s) share memory with arrays handed out or passed in before: %s"
                      % (which, ", ".join(shared)), case)
                return
            scribble(f2, S2)  # and once more for the following round


def oracle_ownership(ctx):
    rng = ctx.np_rng
    for path in sorted(glob.glob(os.path.join(VERIF, "corpus", "C13", "*.json"))):
        c = json.load(open(path))
        if c.get("kind") == "ownership":
            ctx.count(dict(kind="corpus-ownership", file=os.path.basename(path)))
            ownership_case(ctx, c["method"], c["n"], c["fs"], c["noverlap"], c["Y1"], c["Yref1"], c["Y2"], c["Yref2"], dict(c, corpus=os.path.basename(path)))
    confs = [(method, n, fs) for method in ("cor", "per") for (n, fs) in ([(64, 32.0), (16, 51.2), (25, 100.0)] if ctx.quick()
                                                                      else [(64, 32.0), (16, 51.2), (25, 100.0), (128, 0.5), (50, 12.5), (256, 99.0), (1024, 100.0)])]
    for (method, n, fs) in confs:
        nall, nref = int(rng.integers(1, 4)), int(rng.integers(1, 3))
        m = [0, n // 4, n // 2][int(rng.integers(3))]
        if exact_pov(n, m) is None:
            m = 0
        N1 = max(m + int(rng.integers(2, 6)) * (n - m) + 1, n)
        N2 = max(m + int(rng.integers(2, 6)) * (n - m) + 2, n)
        Y1, Yr1 = dyad(rng, (nall, N1)), dyad(rng, (nref, N1))
        Y2, Yr2 = dyad(rng, (nall, N2)), dyad(rng, (nref, N2))
        case = dict(kind="ownership", method=method, n=n, fs=fs, noverlap=m, Y1=Y1.tolist(), Yref1=Yr1.tolist(), Y2=Y2.tolist(), Yref2=Yr2.tolist())
        ctx.count(dict(kind="ownership", method=method, n=n, fs=fs, m=m, d=float(Y1[0, 0]), N1=N1, N2=N2))
        ctx.hist("ownership", (method, n, fs))
        ownership_case(ctx, method, n, fs, m, Y1, Yr1, Y2, Yr2, case)
    # through the classes: overwrite alg.result.freq / Sy of one object in place, then run ANOTHER object on another record with the same nxseg, fs, method
    import pyoma2.algorithms as algs
    from pyoma2.setup import SingleSetup
    for (c1, c2, method, n, fs) in [("FDD", "EFDD", "cor", 64, 32.0), ("EFDD", "FDD", "per", 64, 32.0)]:
        d1, d2 = dyad(rng, (n * 5 + 7, 3)), dyad(rng, (n * 6 + 3, 2))
        case = dict(kind="class-ownership", first=c1, second=c2, method=method, nxseg=n, fs=fs, data1=d1.tolist(), data2=d2.tolist())
        ctx.count(dict(kind="class-ownership", first=c1, second=c2, method=method, d=float(d1[0, 0])))
        try:
            with warnings.catch_warnings():
                warnings.simplefilter("ignore")
                s1, s2 = SingleSetup(d1.copy(), fs=fs), SingleSetup(d2.copy(), fs=fs)
                a = getattr(algs, c1)(name="a", nxseg=n, method_SD=method, pov=0.5)
                b = getattr(algs, c2)(name="b", nxseg=n, method_SD=method, pov=0.5)
                s1.add_algorithms(a)
                s2.add_algorithms(b)
                s1.run_by_name("a")
                fa, Sa = a.result.freq, a.result.Sy
                _, Sexp = sd_est(d2.T, d2.T, 1.0 / fs, n, method, 0.5)
                Sexp = Sexp.copy()
                scribble(fa, Sa)
                s2.run_by_name("b")
                fb, Sb = np.asarray(b.result.freq), np.asarray(b.result.Sy)
                s1.run_by_name("a")  # and the first object again
                fa2 = np.asarray(a.result.freq)
        except Exception as ex:
            ctx.fail("oracle", "class ownership sequence %s/%s (%s) raises %s (%s)" % (c1, c2, method, type(ex).__name__, str(ex)[:120]), case, key="C13:glue:%s:exception" % c1)
            continue
        fe = np.arange(n // 2 + 1) * fs / n
        for nm, fx in ((c2 + " (another object, another record)", fb), (c1 + " (the same object run again)", fa2)):
            if fx.shape != fe.shape or not np.allclose(fx, fe, rtol=1e-12, atol=0):
                ctx.fail("oracle", "after %s.result.freq / Sy were overwritten in place by their owner, %s with the same nxseg=%d, fs=%g, method=%s stores a frequency vector "
                         "that is not k*fs/nxseg: df got %.6g, expected %.6g" % (c1, nm, n, fs, method, fx[2] - fx[1] if len(fx) > 2 else float("nan"), fs / n),
                         case, key="C13:glue:%s:ownership" % c2)
                break
        else:
            if Sb.shape != Sexp.shape or not np.array_equal(Sb, Sexp) or np.shares_memory(fb, fa) or np.shares_memory(Sb, Sa):
                ctx.fail("oracle", "after %s.result.freq / Sy were overwritten in place, %s.result on another record is not what a first run gives (or shares memory with them)"
                         % (c1, c2), case, key="C13:glue:%s:ownership" % c2)


def forms_case(ctx, method, n, fs, m, Y, Yr, case):
    """every accepted form of the same option value gives the same result (to 1e-12 of the largest entry) as the plain Python form, whose result the other
    clauses judge; forms established on the unchanged tree: nxseg int / np.int64 / np.int32 / element of np.arange / 0-d integer array;
    dt and pov float / np.float64 / 0-d array (pov = 0 also as int 0, np.int64(0)); method str / np.str_; records writable or read-only."""
    dt, pov = 1.0 / fs, m / n
    fe = np.arange(n // 2 + 1) * fs / n
    with Guard(ctx, method, case):
        f0, S0 = sd_est(Y, Yr, dt, n, method, pov, ro=False)
        if f0.shape != fe.shape or not np.allclose(f0, fe, rtol=1e-12, atol=0):
            ofail(ctx, method, "grid", "frequency vector is not k*fs/nxseg", case)
            return
    variants = [("nxseg as np.int64", dict(n=np.int64(n))), ("nxseg as np.int32", dict(n=np.int32(n))), ("nxseg as element of np.arange", dict(n=np.arange(n + 1)[n])),
                ("nxseg as 0-d integer array", dict(n=np.array(n))), ("dt as np.float64", dict(dt=np.float64(dt))), ("dt as 0-d array", dict(dt=np.array(dt))),
                ("pov as np.float64", dict(pov=np.float64(pov))), ("pov as 0-d array", dict(pov=np.array(pov))), ("method as np.str_", dict(method=np.str_(method))),
                ("all options as NumPy scalars", dict(n=np.int64(n), dt=np.float64(dt), pov=np.float64(pov), method=np.str_(method))),
                ("records read-only", dict(ro=True))]
    if m == 0:
        variants += [("pov = 0 as int", dict(pov=0)), ("pov = 0 as np.int64", dict(pov=np.int64(0)))]
    for name, ch in variants:
        kw = dict(dt=dt, n=n, method=method, pov=pov, ro=False)
        kw.update(ch)
        vcase = dict(case, variant=name)
        with Guard(ctx, method, vcase):
            f, S = sd_est(Y, Yr, kw["dt"], kw["n"], kw["method"], kw["pov"], ro=kw["ro"])
            # same values up to summation order (1e-12 of the largest entry): an implementation may legitimately route NumPy scalars / 0-d arrays
            # through another code path than plain Python numbers, the property only fixes the estimate
            if S.shape != S0.shape or relerr(S, S0) > 1e-12 or not np.allclose(f, f0, rtol=1e-14, atol=0):
                ofail(ctx, method, "option-form", "%s: result differs from that of the plain Python value (rel. dev %.3g%s)"
                      % (name, relerr(S, S0) if S.shape == S0.shape else float("inf"), "" if np.array_equal(f, f0) else "; frequency vector differs"), vcase)


def oracle_forms(ctx):
    rng = ctx.np_rng
    for path in sorted(glob.glob(os.path.join(VERIF, "corpus", "C13", "*.json"))):
        c = json.load(open(path))
        if c.get("kind") in ("forms", "readonly"):
            for method in ("per", "cor"):
                ctx.count(dict(kind="corpus-" + c["kind"], file=os.path.basename(path), method=method))
                forms_case(ctx, method, c["n"], c["fs"], c["noverlap"], c["Y"], c["Yref"], dict(c, method=method, corpus=os.path.basename(path)))
        if c.get("kind") == "storage":
            Y, Yr = np.array(c["Y"], dtype=c["dtype"]), np.array(c["Yref"], dtype=c["dtype"])
            for method in ("per", "cor"):
                ctx.count(dict(kind="corpus-storage", file=os.path.basename(path), method=method))
                integer_record_checks(ctx, method, Y, Yr, None, None, c["fs"], c["n"], c["noverlap"], dict(c, method=method, corpus=os.path.basename(path)))
    for (n, fs, m) in ([(32, 51.2, 16), (16, 100.0, 0), (25, 12.5, 0)] if ctx.quick() else [(32, 51.2, 16), (16, 100.0, 0), (25, 12.5, 0), (64, 0.5, 48), (128, 99.0, 32), (50, 20.0, 25)]):
        nall, nref = int(rng.integers(1, 4)), int(rng.integers(1, 3))
        N = max(m + int(rng.integers(2, 6)) * (n - m) + 1, n)
        Y, Yr = dyad(rng, (nall, N)), dyad(rng, (nref, N))
        for method in ("per", "cor"):
            case = dict(kind="forms", method=method, n=n, fs=fs, noverlap=m, Y=Y.tolist(), Yref=Yr.tolist())
            ctx.count(dict(kind="forms", method=method, n=n, fs=fs, m=m, d=float(Y[0, 0])))
            ctx.hist("option_forms", (method, n))
            forms_case(ctx, method, n, fs, m, Y, Yr, case)
    # class level: constructor / setup options in NumPy forms (pydantic coerces them), record read-only
    import pyoma2.algorithms as algs
    from pyoma2.setup import SingleSetup
    n, fs, pov = 32, 51.2, 0.25
    data = dyad(rng, (n * 6 + 5, 3))
    variants = [("plain", dict(nxseg=n, pov=pov, fs=fs)), ("nxseg np.int64", dict(nxseg=np.int64(n), pov=pov, fs=fs)), ("nxseg np.int32", dict(nxseg=np.int32(n), pov=pov, fs=fs)),
                ("nxseg element of np.arange", dict(nxseg=np.arange(n + 1)[n], pov=pov, fs=fs)), ("pov np.float64", dict(nxseg=n, pov=np.float64(pov), fs=fs)),
                ("pov 0-d array", dict(nxseg=n, pov=np.array(pov), fs=fs)), ("fs np.float64", dict(nxseg=n, pov=pov, fs=np.float64(fs))), ("fs 0-d array", dict(nxseg=n, pov=pov, fs=np.array(fs)))]
    for cname in ("FDD", "pLSCF"):
        for method in ("per", "cor"):
            r = try_est(ctx, method, dict(kind="class-forms", cls=cname, method=method, nxseg=n, pov=pov, fs=fs, data=data.tolist()), data.T, data.T, 1.0 / fs, n, method, pov, ro=False)
            if r is None:
                continue
            Sexp = r[1]
            for vi, (name, v) in enumerate(variants if ctx.quick() is False or method == "per" else variants[:1] + variants[1::3]):
                case = dict(kind="class-forms", cls=cname, method=method, variant=name, nxseg=n, pov=pov, fs=fs, data=data.tolist(), readonly=bool(vi % 2))
                ctx.count(dict(kind="class-forms", cls=cname, method=method, variant=name, d=float(data[0, 0])))
                try:
                    with warnings.catch_warnings():
                        warnings.simplefilter("ignore")
                        held = data.copy()
                        if vi % 2:
                            held.setflags(write=False)
                        ss = SingleSetup(held, fs=v["fs"])
                        kw = dict(name="a", nxseg=v["nxseg"], method_SD=method, pov=v["pov"])
                        if cname == "pLSCF":
                            kw["ordmax"] = np.int64(6) if vi % 3 == 1 else (np.arange(9)[6] if vi % 3 == 2 else 6)
                        alg = getattr(algs, cname)(**kw)
                        ss.add_algorithms(alg)
                        ss.run_by_name("a")
                        Sr = np.asarray(alg.result.Sy)
                except Exception as ex:
                    ctx.fail("oracle", "%s(%s) with %s%s raises %s (%s)" % (cname, method, name, ", record read-only" if vi % 2 else "", type(ex).__name__, str(ex)[:120]),
                             case, key="C13:glue:%s:option-form" % cname)
                    continue
                if Sr.shape != Sexp.shape or relerr(Sr, Sexp) > 1e-12 or not np.array_equal(held, data):
                    ctx.fail("oracle", "%s(%s) with %s%s: result.Sy differs from SD_est with the plain values (rel. dev %.3g)"
                             % (cname, method, name, ", record read-only" if vi % 2 else "", relerr(Sr, Sexp) if Sr.shape == Sexp.shape else float("inf")),
                             case, key="C13:glue:%s:option-form" % cname)


# ----------------------------------------------------------------------------- positional / keyword call forms
# Parameter order of the documented signatures, read from the pristine tree and fixed HERE (never introspected at run time: a changed
# tree must not redefine what a positional call means):
#   fdd.SD_est(Yall, Yref, dt, nxseg=1024, method="cor", pov=0.5)
#   SingleSetup(data, fs);  <Algorithm>(run_params=None, name=None, **run parameter fields);  setup.add_algorithms(*algorithms);
#   setup.run_by_name(name);  algorithm.set_run_params(run_params)
SD_EST_ORDER = ("Yall", "Yref", "dt", "nxseg", "method", "pov")


def pfail(ctx, entry, what, case):
    ctx.fail("oracle", "%s: %s" % (entry, what), case, key="C13:%s:positional-call" % entry)


def _sd_forms(Y, Yr, dt, n, method, pov):
    """the same estimate requested in four call forms; every form gets fresh views of the caller's arrays. Values by name, in SD_EST_ORDER."""
    vals = dict(Yall=Y, Yref=Yr, dt=dt, nxseg=n, method=method, pov=pov)

    def args(k):
        return [vals[p].view() if isinstance(vals[p], np.ndarray) else vals[p] for p in SD_EST_ORDER[:k]]

    def kws(k):
        return {p: (vals[p].view() if isinstance(vals[p], np.ndarray) else vals[p]) for p in SD_EST_ORDER[k:]}

    return [("keyword", lambda: fdd.SD_est(**kws(0))),
            ("positional", lambda: fdd.SD_est(*args(6))),
            ("records and dt positional, options by keyword", lambda: fdd.SD_est(*args(3), **kws(3))),
            ("all but pov positional", lambda: fdd.SD_est(*args(5), **kws(5)))]


def positional_sd_case(ctx, method, n, fs, m, Y, Yr, case):
    """SD_est(Yall, Yref, dt, nxseg, method, pov) called fully positionally in the documented order gives (a) bit for bit what the call with
    every argument named gives (and the mixed forms the library itself uses), and (b) satisfies the property text: grid k*fs/nxseg,
    n_all x n_ref x lines, entry (i, j) = channel i against reference j, 'per': Welch's estimate with THIS overlap (lines >= 2), g^2 scaling.
    Every option differs from its default (nxseg != 1024, pov != 0.5, dt != 1; method 'per' != 'cor'), n_all != n_ref, data != reference."""
    dt, pov = 1.0 / fs, m / n
    nall, nref = Y.shape[0], Yr.shape[0]
    keep = (Y.copy(), Yr.copy())
    out = {}
    for name, fn in _sd_forms(Y, Yr, dt, n, method, pov):
        try:
            with warnings.catch_warnings():
                warnings.simplefilter("ignore")
                f, S = fn()
            out[name] = (np.asarray(f), np.asarray(S))
        except Exception as ex:
            out[name] = ex
    if not (np.array_equal(Y, keep[0]) and np.array_equal(Yr, keep[1])):
        pfail(ctx, "SD_est", "an input array was modified", case)
        return
    kwr = out["keyword"]
    if isinstance(kwr, Exception):
        ctx.fail("oracle", "SD_est(Yall=, Yref=, dt=, nxseg=, method=, pov=) with every documented parameter named raises %s (%s) on a valid record"
                 % (type(kwr).__name__, str(kwr)[:160]), case, key="C13:SD_est:keyword-call")
    for name in ("positional", "records and dt positional, options by keyword", "all but pov positional"):
        r = out[name]
        vcase = dict(case, form=name, order=list(SD_EST_ORDER))
        if isinstance(r, Exception):
            pfail(ctx, "SD_est", "call form '%s' in the documented order (Yall, Yref, dt, nxseg, method, pov) raises %s (%s) on a valid record"
                  % (name, type(r).__name__, str(r)[:160]), vcase)
            continue
        if isinstance(kwr, Exception):
            continue
        if r[1].shape != kwr[1].shape or not np.array_equal(r[1], kwr[1]) or not np.array_equal(r[0], kwr[0]):
            pfail(ctx, "SD_est", "call form '%s' (order Yall, Yref, dt, nxseg=%d, method=%r, pov=%r) differs from the call with every argument named: "
                  "shape %s vs %s, rel. dev %.3g%s" % (name, n, method, pov, r[1].shape, kwr[1].shape,
                                                      relerr(r[1], kwr[1]) if r[1].shape == kwr[1].shape else float("inf"),
                                                      "" if np.array_equal(r[0], kwr[0]) else "; frequency vector differs"), vcase)
    # (b) the property text on the positional call
    r = out["positional"]
    if isinstance(r, Exception):
        return
    f, S = r
    pcase = dict(case, form="positional", order=list(SD_EST_ORDER))
    fe = np.arange(n // 2 + 1) * fs / n
    if f.shape != fe.shape or not np.allclose(f, fe, rtol=1e-12, atol=0):
        pfail(ctx, "SD_est", "positional call: frequency vector is not one line every fs/nxseg (got %d lines, spacing %.9g; expected %d lines, spacing %.9g): "
              "dt / nxseg did not arrive at their parameters" % (len(f), float(f[1] - f[0]) if len(f) > 1 else float("nan"), len(fe), fs / n), pcase)
        return
    if S.shape != (nall, nref, n // 2 + 1):
        pfail(ctx, "SD_est", "positional call: Sy has shape %s, expected (n_all, n_ref, nxseg/2+1) = %s" % (S.shape, (nall, nref, n // 2 + 1)), pcase)
        return
    if method == "per":
        W = welch_independent(Y, Yr, fs, n, m)
        dev = relerr(S[:, :, 2:], W[:, :, 2:])
        if dev > 1e-9:
            pfail(ctx, "SD_est", "positional call ('per', nxseg=%d, pov=%r): differs from Welch's averaged Hann-windowed one-sided density with overlap %d "
                  "(lines >= 2) by %.3g" % (n, pov, m, dev), pcase)
            return
    try:
        with warnings.catch_warnings():
            warnings.simplefilter("ignore")
            i, j = nall - 1, 0
            s1 = np.asarray(fdd.SD_est(Y[i:i + 1].copy(), Yr[j:j + 1].copy(), dt, n, method, pov)[1])
            Sg = np.asarray(fdd.SD_est(-3.0 * Y, -3.0 * Yr, dt, n, method, pov)[1])
    except Exception as ex:
        pfail(ctx, "SD_est", "positional call raises %s (%s) on a valid record" % (type(ex).__name__, str(ex)[:160]), pcase)
        return
    if s1.shape != (1, 1, n // 2 + 1) or np.abs(s1[0, 0] - S[i, j]).max() > 1e-10 * np.abs(S).max():
        pfail(ctx, "SD_est", "positional call: entry (%d,%d) is not the estimate of channel %d against reference %d" % (i, j, i, j), pcase)
    elif Sg.shape != S.shape or relerr(Sg, 9.0 * S) > 1e-9:
        pfail(ctx, "SD_est", "positional call: common gain -3 does not scale the matrix by 9", pcase)


def positional_class_case(ctx, cname, method, n, fs, m, data, case):
    """the classes of observe_at built and driven in both call forms: SingleSetup(data, fs) / SingleSetup(data=, fs=); Alg(run_params, name) /
    Alg(run_params=, name=) / Alg(name=, **fields); set_run_params(rp) / set_run_params(run_params=rp); run_by_name(name) / run_by_name(name=).
    Every form stores bit for bit the same freq/Sy, which is SD_est on the record ('per': Welch's estimate), under the name given."""
    import pyoma2.algorithms as algs
    from pyoma2.setup import SingleSetup
    cls = getattr(algs, cname)
    pov = m / n
    fields = dict(nxseg=n, method_SD=method, pov=pov)
    other = dict(nxseg=2 * n, method_SD="per" if method == "cor" else "cor", pov=0.0)
    if cname == "pLSCF":
        fields["ordmax"] = 6
        other["ordmax"] = 5
    nm = "unit_" + cname  # not the default name (the class name)

    def positional():
        ss = SingleSetup(data.copy(), fs)
        alg = cls(cls.RunParamCls(**other), nm)
        alg.set_run_params(cls.RunParamCls(**fields))
        ss.add_algorithms(alg)
        ss.run_by_name(nm)
        return ss, alg

    def keyword():
        ss = SingleSetup(data=data.copy(), fs=fs)
        alg = cls(run_params=cls.RunParamCls(**other), name=nm)
        alg.set_run_params(run_params=cls.RunParamCls(**fields))
        ss.add_algorithms(alg)
        ss.run_by_name(name=nm)
        return ss, alg

    def positional_direct():
        ss = SingleSetup(data.copy(), fs)
        alg = cls(cls.RunParamCls(**fields), nm)
        ss.add_algorithms(alg)
        ss.run_by_name(nm)
        return ss, alg

    def fields_by_keyword():
        ss = SingleSetup(data=data.copy(), fs=fs)
        alg = cls(name=nm, **fields)
        ss.add_algorithms(alg)
        ss.run_by_name(name=nm)
        return ss, alg

    out = {}
    for name, fn in (("keyword", keyword), ("fields by keyword", fields_by_keyword), ("positional", positional), ("positional, run_params in the constructor", positional_direct)):
        try:
            with warnings.catch_warnings():
                warnings.simplefilter("ignore")
                ss, alg = fn()
            out[name] = dict(f=np.asarray(alg.result.freq), S=np.asarray(alg.result.Sy), name=alg.name, fs=float(ss.fs), keys=sorted(ss.algorithms),
                             data_ok=bool(np.array_equal(np.asarray(ss.data), data)))
        except Exception as ex:
            out[name] = ex
    ref = out["keyword"] if not isinstance(out["keyword"], Exception) else out["fields by keyword"]
    if isinstance(ref, Exception):
        ctx.fail("oracle", "%s(%s): building and running with every argument named raises %s (%s)" % (cname, method, type(ref).__name__, str(ref)[:160]),
                 case, key="C13:glue:%s:exception" % cname)
        return
    try:
        with warnings.catch_warnings():
            warnings.simplefilter("ignore")
            fx, Sx = fdd.SD_est(data.T.copy(), data.T.copy(), 1.0 / fs, n, method, pov)
        fx, Sx = np.asarray(fx), np.asarray(Sx)
    except Exception:
        fx = Sx = None  # reported by positional_sd_case
    W = welch_independent(data.T, data.T, fs, n, m) if method == "per" else None
    fe = np.arange(n // 2 + 1) * fs / n
    for name in ("keyword", "fields by keyword", "positional", "positional, run_params in the constructor"):
        r = out[name]
        vcase = dict(case, form=name)
        entry = "glue:%s" % cname
        if isinstance(r, Exception):
            pfail(ctx, entry, "SingleSetup(data, fs) / %s(run_params, name) / set_run_params / run_by_name in call form '%s' raises %s (%s) on a valid record"
                  % (cname, name, type(r).__name__, str(r)[:160]), vcase)
            continue
        if r["name"] != nm or r["keys"] != [nm] or r["fs"] != fs or not r["data_ok"]:
            pfail(ctx, entry, "call form '%s': the algorithm is stored as %r under %r (given name %r), the setup holds fs=%r (given %r), data %s"
                  % (name, r["name"], r["keys"], nm, r["fs"], fs, "unchanged" if r["data_ok"] else "changed"), vcase)
            continue
        if r is not ref and (r["S"].shape != ref["S"].shape or not np.array_equal(r["S"], ref["S"]) or not np.array_equal(r["f"], ref["f"])):
            pfail(ctx, entry, "call form '%s' stores another freq/Sy than the construction with every argument named (rel. dev %.3g)"
                  % (name, relerr(r["S"], ref["S"]) if r["S"].shape == ref["S"].shape else float("inf")), vcase)
            continue
        if r["f"].shape != fe.shape or not np.allclose(r["f"], fe, rtol=1e-12, atol=0) or r["S"].shape != (data.shape[1], data.shape[1], n // 2 + 1):
            pfail(ctx, entry, "call form '%s': result.freq / Sy are not on the grid k*fs/nxseg with fs=%g, nxseg=%d (lines %d, Sy %s)"
                  % (name, fs, n, len(r["f"]), r["S"].shape), vcase)
            continue
        if W is not None and relerr(r["S"][:, :, 2:], W[:, :, 2:]) > 1e-9:
            pfail(ctx, entry, "call form '%s': result.Sy differs from Welch's estimate with nxseg=%d, overlap %d (lines >= 2) by %.3g"
                  % (name, n, m, relerr(r["S"][:, :, 2:], W[:, :, 2:])), vcase)
            continue
        if Sx is not None and Sx.shape == r["S"].shape and relerr(r["S"], Sx) > 1e-12:
            pfail(ctx, entry, "call form '%s': result.Sy differs from SD_est on the record with the parameters given (method %s) by %.3g"
                  % (name, method, relerr(r["S"], Sx)), vcase)


def oracle_positional(ctx):
    rng = ctx.np_rng
    for path in sorted(glob.glob(os.path.join(VERIF, "corpus", "C13", "*.json"))):
        c = json.load(open(path))
        if c.get("kind") == "positional":
            ctx.count(dict(kind="corpus-positional", file=os.path.basename(path)))
            positional_sd_case(ctx, c["method"], c["n"], c["fs"], c["noverlap"], np.array(c["Y"], float), np.array(c["Yref"], float), dict(c, corpus=os.path.basename(path)))
    # nxseg never 1024, overlap never nxseg/2, fs never 1: a value that falls back to its default, or lands on a neighbouring parameter, shows
    confs = [(16, 51.2, 4), (25, 12.5, 0), (48, 100.0, 36), (64, 0.5, 16), (100, 99.0, 75), (256, 20.0, 64)]
    if not ctx.quick():
        confs += [(32, 8.0, 24), (50, 37.0, 0), (128, 250.0, 32), (512, 2000.0, 384), (2048, 3.0, 512), (125, 51.2, 0)]
    for (n, fs, m) in confs:
        if exact_pov(n, m) is None:
            ctx.not_judged += 1
            continue
        nall = int(rng.integers(2, 5))
        nref = int(rng.integers(1, nall))          # n_all != n_ref: exchanging the two records changes the shape
        N = max(m + int(rng.integers(3, 7)) * (n - m) + int(rng.integers(0, n - m)), n)
        Y = rng.standard_normal((nall, N)) * rng.uniform(0.2, 5, (nall, 1)) + rng.uniform(-1, 1, (nall, 1))
        Yr = rng.standard_normal((nref, N)) + 0.5 * Y[:1]
        for method in ("per", "cor"):
            case = dict(kind="positional", method=method, n=n, fs=fs, noverlap=m, pov=m / n, N=N, nall=nall, nref=nref,
                        Y=Y[:, :64].tolist(), Yref=Yr[:, :64].tolist(), truncated=N > 64, data_note="ctx.np_rng stream")
            ctx.count(dict(kind="positional", method=method, n=n, fs=fs, m=m, N=N, d=float(Y[0, 0])))
            ctx.hist("positional_forms", ("SD_est", method, n))
            positional_sd_case(ctx, method, n, fs, m, Y, Yr, case)
    for ci, cname in enumerate(("FDD", "EFDD", "FSDD", "pLSCF")):
        for mi, method in enumerate(("per", "cor")):
            n, fs, m = [(32, 51.2, 8), (64, 12.5, 48), (16, 99.0, 0), (48, 20.0, 12)][(ci + mi) % 4]
            data = dyad(rng, (m + 5 * (n - m) + 3, 3 if cname != "pLSCF" else 2))
            case = dict(kind="class-positional", cls=cname, method=method, nxseg=n, fs=fs, noverlap=m, pov=m / n, data=data.tolist())
            ctx.count(dict(kind="class-positional", cls=cname, method=method, n=n, fs=fs, m=m, d=float(data[0, 0]), e=float(data[1, 1])))
            ctx.hist("positional_forms", (cname, method, n))
            positional_class_case(ctx, cname, method, n, fs, m, data, case)


def oracle_corpus(ctx):
    for path in sorted(glob.glob(os.path.join(VERIF, "corpus", "C13", "*.json"))):
        c = json.load(open(path))
        if c.get("kind") != "sinusoid":
            continue
        n, k0, A = c["n"], c["line"], np.array([complex(*a) for a in c["A"]])
        t = np.arange(c["N"])
        Y = np.real(A[:, None] * np.exp(2j * np.pi * k0 * t[None, :] / n))
        ctx.count(dict(kind="corpus-sinusoid", file=os.path.basename(path)))
        r = try_est(ctx, "per", dict(c, corpus=os.path.basename(path)), Y, Y, 1.0 / c["fs"], n, "per", c["pov"])
        if r is None:
            continue
        f, S = r
        fsin = k0 * c["fs"] / n
        kp = int(np.argmax(S[0, 0].real))
        if len(f) != n // 2 + 1 or kp != k0 or abs(f[kp] - fsin) > 1e-9 * fsin:
            ofail(ctx, "per", "sinusoid-frequency", "corpus %s: sinusoids at %.9g Hz (grid line %d of nxseg=%d, fs=%g) are reported at %.9g Hz (line %d of %d)"
                  % (os.path.basename(path), fsin, k0, n, c["fs"], f[kp] if kp < len(f) else float("nan"), kp, len(f)), c)
            continue
        r = S[0, 1, k0] / S[0, 0, k0]
        if S.shape != (len(A), len(A), n // 2 + 1) or abs(r - A[1] / A[0]) > 1e-9 * abs(A[1] / A[0]):
            ofail(ctx, "per", "sinusoid", "corpus %s: Sy[0][1]/Sy[0][0] = %s, amplitude ratio A_1/A_0 = %s" % (os.path.basename(path), r, A[1] / A[0]), c)


def run(ctx):
    ctx.extra["rule"] = ("correspondence: (estimator, nxseg, n_all, n_ref, pov, segments, dt, data) with short-dyadic data, non-trivial when data and reference are "
                         "not all zero; oracle: random records per (estimator, nxseg, channels, references, overlap, fs); distinct by hash of parameters and data")
    ctx.assumptions += [
        "witness inputs of the executed model: DFT twiddles exp(-2 pi i t/n), periodic Hann samples and the exponential window 0.01^(t/n), computed here with "
        "NumPy from their definitions and passed as exact rational images; the theorems are generic in them",
        "oracle contracts: scipy.signal.csd (Welch segmentation, detrend='constant', window scaling, one-sided doubling), numpy.fft.irfft/rfft as modelled in "
        "M_spectra.v - tied to the installed SciPy/NumPy by the correspondence step only",
        "large correspondence cases are evaluated by the two-carrier evaluator (sums over exact dyadic numbers on Bignums integers, scaling over Q); its agreement "
        "with the one-carrier generic model the theorems speak about is checked exactly on the small cases of every run, not proved",
        "printer: model values are rounded to multiples of 2^-90 before comparison at relative 1e-9",
    ]
    oracle_corpus(ctx)
    correspondence(ctx)
    oracle_grid_pairing_bilinear(ctx)
    oracle_integer(ctx)
    oracle_welch(ctx)
    oracle_welch_long(ctx)
    oracle_gain_delay(ctx)
    oracle_sinusoid(ctx)
    oracle_classes(ctx)
    oracle_forms(ctx)
    oracle_positional(ctx)
    oracle_ownership(ctx)  # last: it overwrites returned arrays on purpose
