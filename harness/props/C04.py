"""C04 - PreGER spectral merging.  Model: coq/Model/M_preger_sd.v; theorems: coq/Properties/C04.v.

Correspondence: fdd.SD_PreGER(Y, fs, nxseg, pov, method) against the model merge evaluated in Coq (exact complex
rationals) on the harness's own per-setup fdd.SD_est(.., pov=pov) spectra (witness floats), line by line.  The
comparison itself is exact and happens inside Coq (check_line): the model is evaluated division-free (numerators and
row denominators, C04_exec_sound) and an entry passes when |num - den*S_impl| <= |den| * tol.
Oracle (property text, NumPy/SciPy only): simultaneous recording => merged == single-setup cross-spectral matrix of
(references, roving in setup order) against the references on the grid k*fs/nxseg; in general reference block = mean,
roving block = transmissibility . mean; a per-setup gain changes nothing but the mean reference block.
Class level: FDD_MS / EFDD_MS / pLSCF_MS .result.{freq,Sy} through MultiSetup_PreGER.run_all, against the grid k*fs/nxseg, the SciPy
reference estimator, SD_PreGER, and FDD / EFDD / pLSCF .result.{freq,Sy} through SingleSetup on the same simultaneous recording.
Segment lengths include odd and non-power-of-two values in both tiers (an odd nxseg separates k*fs/nxseg from linspace(0, fs/2, ..)).
"""
import glob
import json
import os
import time
from fractions import Fraction

import numpy as np
from scipy import signal

from common import VERIF, clist
from pyoma2.functions import fdd

# Integer literals of the generated case files are written as sign + little-endian base-2^62 limbs of primitive 63-bit
# integers (elaborated in constant time; a 120-bit decimal Z literal takes ~5 ms).  The reader lives here, in the generated
# file, so that the cone of Properties/C04.vo does not load the primitive-integer library.
HEADER = """From Coq Require Import Uint63.
From PyOMA.Model Require Import M_preger_sd.
Definition z_of_limbs (neg:bool) (ls:list int) : Z :=
  let v := fold_right (fun l acc => (Uint63.to_Z l + 4611686018427387904 * acc)%Z) 0%Z ls in if neg then Z.opp v else v.
Definition qz (a:bool) (x:list int) : Qc := Q2Qc (z_of_limbs a x # 1).
Definition cq (a:bool) (x:list int) (b:bool) (y:list int) : CQ := (qz a x, qz b y).
Open Scope uint63_scope."""
TOL = 1e-9
# Float comparisons involving inv(Grr): relative tolerance max(TOL, C_COND * eps * cond(Grr)) per line, judged up to COND_MAX.
# Calibration on the unchanged tree (4072 lines, nearly collinear references eps 1e-2..1e-5, cond 1e4..1e10, both estimators):
# worst deviation 0.53 * eps * cond of max|S| (merged vs single-setup and vs mean/transmissibility), 0.79 * eps * cond of the
# column difference itself -> C_COND = 30 leaves a 38x margin; the deviation stays proportional to cond up to 1e13.
EPS = float(np.finfo(float).eps)
C_COND = 30.0
COND_MAX = 1e10
# Mixed / narrow sample dtypes: a setup whose stacked block is float32, int16 or uint16 is processed by scipy.signal.csd in single
# precision (complex64 spectra), and a float32 block is detrended in float32.  Such cases ("single") are judged against the
# float64 image of the same sample values at max(TOLS, C_COND * EPS32 * cond).  Calibration on the unchanged tree (3092 lines,
# dtypes drawn per block from DTYPES): worst deviation 3.6e-6 of max|S| -> 55x margin.
EPS32 = float(np.finfo(np.float32).eps)
TOLS = 2e-4
DTYPES = ["float64", "float32", "int16", "int32", "int64", "uint16"]
MASK62 = (1 << 62) - 1


# ----------------------------------------------------------------------------- data
def make_recording(seed, N, nch):
    """One simultaneous recording (N x nch): mixed, delayed white noise so that cross spectra are complex."""
    rng = np.random.default_rng([int(seed), 404])
    w = rng.standard_normal((N + 16, nch))
    mix = np.eye(nch) + 0.4 * rng.standard_normal((nch, nch))
    x = w @ mix
    out = x[16:, :].copy()
    for j in range(nch):
        d = 1 + (j % 5)
        out[:, j] += 0.6 * x[16 - d:N + 16 - d, (j + 1) % nch]
    return out


def build_datasets(case):
    """datasets (list of N_k x nch_k arrays) and ref_ind (positions of the references in each setup's channel list)."""
    if case["kind"] == "sim":
        rec = make_recording(case["seed"], case["N"], case["nch"])
        if case.get("collinear"):  # side-by-side reference sensors: ref2 = ref1 + eps * local motion (reference block cond ~ 1/eps^2)
            r0, r1 = case["chan"][0][case["ref_ind"][0][0]], case["chan"][0][case["ref_ind"][0][1]]
            rec[:, r1] = rec[:, r0] + float(case["collinear"]) * rec[:, r1]
        datasets = [rec[:, ch].copy() for ch in case["chan"]]
    else:
        datasets = [make_recording(case["seed"] + 7919 * (k + 1), case["Ns"][k], len(ch)) for k, ch in enumerate(case["chan"])]
    for z in case.get("zero", []):  # malformed stream: a dead reference channel
        datasets[z[0]][:, case["ref_ind"][z[0]][z[1]]] = 0.0
    dd = case.get("ds_dtypes")
    if dd:  # one dtype per data set (MultiSetup_PreGER takes one array per setup); the reference records stay identical real values
        if any(_is_int(d) for d in dd):
            off = 10000.0 if "uint16" in dd else 0.0
            datasets = [np.rint(100.0 * d) + off for d in datasets]
        elif "float32" in dd:
            datasets = [d.astype(np.float32).astype(np.float64) for d in datasets]
        datasets = [np.ascontiguousarray(d.astype(t)) for d, t in zip(datasets, dd)]
    return datasets, case["ref_ind"]


def split_setups(datasets, ref_ind):
    """The layout MultiSetup_PreGER hands to the algorithms, written independently of gen.pre_multisetup:
    'ref' = the reference columns in the order of ref_ind, 'mov' = the other columns in column order, both channels x samples."""
    Y = []
    for d, ri in zip(datasets, ref_ind):
        mi = [c for c in range(d.shape[1]) if c not in ri]
        Y.append({"ref": np.ascontiguousarray(d[:, ri].T), "mov": np.ascontiguousarray(d[:, mi].T)})
    return Y


def _is_int(d):
    return np.issubdtype(np.dtype(d), np.integer)


def typed_setups(Y, dtypes):
    """Per-block sample dtypes: dtypes[k] = (dtype of 'ref', dtype of 'mov') of setup k.  Integral blocks hold integer-valued counts
    (round(100 x), +10000 for uint16), float blocks non-integer samples (so a cast to an integer type is visible).  The reference
    records stay the SAME real values in every setup (the premise of the property): if any setup logs them as integers they are
    integer-valued everywhere, else if any logs them as float32 they are float32-representable everywhere."""
    refd = [d[0] for d in dtypes]
    anyint, anyu, any32 = any(_is_int(d) for d in refd), any(d == "uint16" for d in refd), any(d == "float32" for d in refd)
    out = []
    for y, (dr, dm) in zip(Y, dtypes):
        r = y["ref"]
        if anyint:
            r = np.rint(100.0 * r) + (10000.0 if anyu else 0.0)
        elif any32:
            r = r.astype(np.float32).astype(np.float64)
        m = y["mov"]
        if _is_int(dm):
            m = np.rint(100.0 * m) + (10000.0 if dm == "uint16" else 0.0)
        out.append({"ref": np.ascontiguousarray(r.astype(dr)), "mov": np.ascontiguousarray(m.astype(dm))})
    return out


def f64(Y):
    return [{"ref": y["ref"].astype(np.float64), "mov": y["mov"].astype(np.float64)} for y in Y]


def hand_over(Y, readonly):
    """Fresh copies for the implementation, optionally read-only (the library never writes to its inputs)."""
    out = []
    for y in Y:
        d = {"ref": y["ref"].copy(), "mov": y["mov"].copy()}
        if readonly:
            d["ref"].setflags(write=False)
            d["mov"].setflags(write=False)
        out.append(d)
    return out


def same_inputs(A, B):
    return all(a[k].dtype == b[k].dtype and a[k].shape == b[k].shape and np.array_equal(a[k], b[k]) for a, b in zip(A, B) for k in ("ref", "mov"))


def ref_estimator(X, Yr, fs, nxseg, method, pov):
    """Single-setup cross-spectral matrix written from SciPy only (Welch/Hann for 'per'; box-car correlogram with the
    1 % exponential window for 'cor'): entry (a,b) pairs channel a of X with channel b of Yr."""
    if method == "per":
        f, S = signal.csd(X[:, None, :], Yr[None, :, :], fs=fs, window="hann", nperseg=nxseg, noverlap=int(nxseg * pov))
        return f, S
    _, P = signal.csd(X[:, None, :], Yr[None, :, :], nperseg=nxseg // 2, nfft=nxseg, noverlap=0, window="boxcar")
    Rxy = np.fft.irfft(P)
    n = Rxy.shape[2]
    win = signal.windows.exponential(n, center=0, tau=-n / np.log(0.01), sym=False)
    S = np.fft.rfft(Rxy * win)
    return np.arange(S.shape[2]) * (fs / nxseg), S


# ----------------------------------------------------------------------------- exact integers for Coq
def limbs(n):
    s = "true" if n < 0 else "false"
    n = abs(n)
    out = []
    while n:
        out.append(str(n & MASK62))
        n >>= 62
    return "%s [%s]" % (s, ";".join(out))


def line_exponent(vals):
    """Largest k such that every float in vals is an integer multiple of 2^-k."""
    k = 0
    for v in vals:
        d = float(v).as_integer_ratio()[1]
        if d > 1:
            k = max(k, d.bit_length() - 1)
    return k


def to_int(v, k):
    n, d = float(v).as_integer_ratio()
    return n * ((1 << k) // d)


def cmat(M, k):
    return clist([clist(["(cq %s %s)" % (limbs(to_int(z.real, k)), limbs(to_int(z.imag, k))) for z in row]) for row in M])


def line_expr(docert, nr, G, Sline, k_line, tol):
    """check_line expression for one frequency line: G = list of (Grr, Gmr) arrays, Sline = implementation's matrix."""
    vals = [v for (a, b) in G for M in (a, b) for z in M.ravel() for v in (z.real, z.imag)]
    vals += [v for z in Sline.ravel() for v in (z.real, z.imag)]
    k = line_exponent(vals)
    L = clist(["(%s, %s)" % (cmat(a, k), cmat(b, k)) for (a, b) in G])
    t = int(Fraction(tol) * 7071 / 10000 * (1 << k))
    return "check_line %s %d %s %s (qz %s)" % ("true" if docert else "false", nr, L, cmat(Sline, k), limbs(t)), \
           "run_line %d %s" % (nr, L), k


# ----------------------------------------------------------------------------- property text in NumPy
def np_merge(G):
    """reference block = mean of Grr; roving block k = Gmr_k . inv(Grr_k) . mean  (per line)."""
    n = len(G)
    mean = sum(a for a, _ in G) / n
    blocks = [mean]
    for a, b in G:
        T = np.linalg.solve(a.T, b.T).T  # T a = b
        blocks.append(T @ mean)
    return np.vstack(blocks), mean


def close(A, B, scale, tol=TOL):
    return A.shape == B.shape and bool(np.all(np.abs(A - B) <= tol * scale + 1e-300))


def cond_tol(cond, single=False):
    if single:
        return np.maximum(TOLS, C_COND * EPS32 * np.asarray(cond, float))
    return np.maximum(TOL, C_COND * EPS * np.asarray(cond, float))


# ----------------------------------------------------------------------------- positional and keyword call forms
# Every public entry point this check drives is called in BOTH forms: fully positionally, in the parameter order of the PRISTINE
# signatures as documented (read from /repo/src when this was written and hard-coded here on purpose - a changed tree must not redefine
# the expected order), and by keyword.  The two calls must give the same answer, and the oracles of the property run on the positional
# one.  A new optional parameter inserted in the middle of a signature, or two defaulted parameters swapped, binds the documented
# positional call to the wrong parameters while every keyword call keeps working.
#   fdd.SD_PreGER(Y, fs, nxseg=1024, pov=0.5, method="per")
#   fdd.SD_est(Yall, Yref, dt, nxseg=1024, method="cor", pov=0.5)
#   MultiSetup_PreGER(fs, ref_ind, datasets)      SingleSetup(data, fs)      <Algorithm>(run_params, name)
# The generators never use the defaults together: nxseg != 1024 in the quick tier, both estimators (each is the default of one of the two
# functions), overlaps 0..0.75 ('per' is the estimator on which the overlap acts), so a fall-back to a default or a swap shows.
def forms_agree(a, b, single):
    """(freq, S) of the positional and of the keyword call: same shapes, same values (tolerance of the glue comparison in class_level;
    the two calls execute the same arithmetic)."""
    fa, Sa, fb, Sb = np.asarray(a[0]), np.asarray(a[1]), np.asarray(b[0]), np.asarray(b[1])
    if fa.shape != fb.shape or Sa.shape != Sb.shape:
        return False
    fin = np.abs(Sb[np.isfinite(Sb)])
    m = float(fin.max()) if fin.size else 1.0
    fm = float(np.abs(fb[np.isfinite(fb)]).max()) if np.any(np.isfinite(fb)) else 1.0
    return bool(np.allclose(fa, fb, rtol=0, atol=1e-12 * max(fm, 1e-300), equal_nan=True)
                and np.allclose(Sa, Sb, rtol=1e-5 if single else 1e-12, atol=(1e-6 if single else 1e-15) * m, equal_nan=True))


def forms_dev(a, b):
    try:
        Sa, Sb = np.asarray(a[1]), np.asarray(b[1])
        if Sa.shape != Sb.shape:
            return "shapes %s / %s" % (Sa.shape, Sb.shape)
        return "max dev %.3g of scale %.3g; last frequency %.12g / %.12g" % (float(np.nanmax(np.abs(Sa - Sb))), float(np.nanmax(np.abs(Sb))),
                                                                             float(np.real(np.asarray(a[0]).ravel()[-1])), float(np.real(np.asarray(b[0]).ravel()[-1])))
    except Exception:
        return "results not comparable"


def same_setup_data(A, B):
    """Pre-processed multi-setup data (list of {'ref','mov'}) or a plain array: moved values, compared exactly."""
    if isinstance(A, np.ndarray) or isinstance(B, np.ndarray):
        return isinstance(A, np.ndarray) and isinstance(B, np.ndarray) and A.shape == B.shape and A.dtype == B.dtype and np.array_equal(A, B)
    return len(A) == len(B) and all(set(a) == set(b) and all(np.shape(a[k]) == np.shape(b[k]) and np.array_equal(a[k], b[k]) for k in a) for a, b in zip(A, B))


# ----------------------------------------------------------------------------- one case
class Pending:
    def __init__(self):
        self.exprs, self.meta = [], []


def run_case(ctx, case, pend, lines_cap):
    method, nxseg, pov, fs = case["method"], case["nxseg"], case["pov"], case["fs"]
    datasets, ref_ind = build_datasets(case)
    Y = split_setups(datasets, ref_ind)
    if case.get("dtypes"):
        Y = typed_setups(Y, case["dtypes"])
        for dr, dm in case["dtypes"]:
            ctx.hist("block dtypes (ref, mov)", (dr, dm))
            ctx.hist("ref narrower than mov", bool(np.dtype(dr) != np.result_type(np.dtype(dr), np.dtype(dm))))
    Y64 = f64(Y)  # the float64 image of the same sample values: what the single-setup matrix is taken of
    readonly = bool(case.get("readonly"))
    ctx.hist("inputs read-only", readonly)
    nr = len(ref_ind[0])
    nset = len(Y)
    nms = [y["mov"].shape[0] for y in Y]
    ctx.hist("kind/method", (case["kind"], method))
    ctx.hist("nxseg", nxseg)
    ctx.hist("pov", pov)
    ctx.hist("shape (n_ref, n_mov per setup)", (nr, tuple(nms)))
    malformed = bool(case.get("zero")) or case.get("dupref", False)
    ctx.count(case, nontrivial=not malformed)
    ctx.sample(case)
    tag = "%s/%s/nxseg=%d/pov=%s" % (case["kind"], method, nxseg, pov)

    # ---- implementation: the documented positional call SD_PreGER(Y, fs, nxseg, pov, method) (pristine parameter order, hard-coded);
    #      every oracle below runs on its result.  The same call by keyword must give the same answer (see "call forms" above).
    err = None
    pos_ex = None
    Yin = hand_over(Y, readonly)
    try:
        freq, Sy = fdd.SD_PreGER(Yin, fs, nxseg, pov, method)
        Sy = np.asarray(Sy)
    except np.linalg.LinAlgError:
        err = "LinAlgError"
    except Exception as ex:  # any other exception on a valid measurement is a failing input
        pos_ex = ex
    kw_res = None
    if err is None:
        try:
            kw_res = fdd.SD_PreGER(Y=hand_over(Y, readonly), fs=fs, nxseg=nxseg, pov=pov, method=method)
            kw_res = (np.asarray(kw_res[0]), np.asarray(kw_res[1]))
        except Exception as ex:
            kw_res = ex
    if pos_ex is not None:
        if isinstance(kw_res, tuple):
            ctx.fail("oracle", "SD_PreGER(Y, fs, nxseg, pov, method) called positionally in the documented parameter order raised %s: %s, the same "
                     "call by keyword returns (%s)" % (type(pos_ex).__name__, str(pos_ex)[:200], tag), case, key="C04:SD_PreGER:positional-call")
        else:
            ctx.fail("oracle", "SD_PreGER raised %s: %s (%s%s)" % (type(pos_ex).__name__, str(pos_ex)[:200], tag, ", read-only input arrays" if readonly else ""),
                     case, key="C04:SD_PreGER:raises")
        return
    if not same_inputs(Yin, Y):
        ctx.fail("oracle", "SD_PreGER modified its input records (%s)" % tag, case, key="C04:SD_PreGER:mutates-input")
    # ---- harness's own per-setup spectra (witnesses): SD_est on [ref; mov] against ref, as SD_PreGER consumes them; called positionally in
    #      the pristine order SD_est(Yall, Yref, dt, nxseg, method, pov) and, on one setup per case, also by keyword
    G_all, F_all = [], []
    kw_setup = int(case.get("seed", 0)) % len(Y)
    for kk, y in enumerate(Y):
        Ya_, Yr_ = np.vstack([y["ref"], y["mov"]]), y["ref"]
        est_ex = None
        try:
            f_w, S = fdd.SD_est(Ya_, Yr_, 1.0 / fs, nxseg, method, pov)
        except Exception as ex:
            est_ex = ex
        if est_ex is not None or kk == kw_setup:
            try:
                kw_est = fdd.SD_est(Yall=Ya_.copy(), Yref=Yr_.copy(), dt=1.0 / fs, nxseg=nxseg, method=method, pov=pov)
            except Exception as ex:
                kw_est = ex
            if est_ex is not None:
                if not isinstance(kw_est, tuple):
                    raise est_ex
                ctx.fail("oracle", "SD_est(Yall, Yref, dt, nxseg, method, pov) called positionally in the documented parameter order raised %s: %s, "
                         "the same call by keyword returns (%s)" % (type(est_ex).__name__, str(est_ex)[:200], tag), case, key="C04:SD_est:positional-call")
                return
            sgl_k = np.asarray(S).dtype == np.complex64 or Ya_.dtype == np.float32
            if isinstance(kw_est, TypeError):
                ctx.note("SD_est does not accept its documented parameter names as keywords (%s); positional / keyword comparison skipped" % str(kw_est)[:120])
            elif not isinstance(kw_est, tuple) or not forms_agree((f_w, S), kw_est, sgl_k):
                ctx.fail("oracle", "SD_est(Yall, Yref, dt, nxseg, method, pov) called positionally in the documented parameter order differs from the same "
                         "call by keyword (setup %d, %s): %s" % (kk, tag, forms_dev((f_w, S), kw_est) if isinstance(kw_est, tuple) else
                                                                   "keyword call raised %s" % type(kw_est).__name__), case, key="C04:SD_est:positional-call")
        G_all.append(np.asarray(S))
        F_all.append(np.asarray(f_w))
    nf = G_all[0].shape[2]
    # precision class of the case (see TOLS): single when SciPy works in single precision on some block
    single = any(S.dtype == np.complex64 for S in G_all) or any(y[b].dtype == np.float32 for y in Y for b in ("ref", "mov"))
    G_all = [S.astype(np.complex128) for S in G_all]
    if not err and np.iscomplexobj(Sy):
        Sy = Sy.astype(np.complex128)
    btol = TOLS if single else TOL
    ctx.hist("precision class", "single" if single else "double")
    if not err and not (bool(case.get("zero")) or case.get("dupref", False)):
        ctx.hist("called positionally and by keyword", ("SD_PreGER", method, "pov=0.5" if pov == 0.5 else "pov!=0.5"))
        if isinstance(kw_res, TypeError):
            ctx.note("SD_PreGER does not accept its documented parameter names as keywords (%s); positional / keyword comparison skipped" % str(kw_res)[:120])
        elif not isinstance(kw_res, tuple) or not forms_agree((freq, Sy), kw_res, single):
            ctx.fail("oracle", "SD_PreGER(Y, fs, nxseg, pov, method) called positionally in the documented parameter order differs from the same call by "
                     "keyword (%s): %s" % (tag, forms_dev((freq, Sy), kw_res) if isinstance(kw_res, tuple) else
                                           "keyword call raised %s: %s" % (type(kw_res).__name__, str(kw_res)[:160])), case, key="C04:SD_PreGER:positional-call")

    if malformed:
        # singular reference block: the model says LinAlgError; the property does not name the exception -> note only
        G0 = [(S[:nr, :, 1], S[nr:, :, 1]) for S in G_all]
        Sl = np.zeros((nr + sum(nms), nr), complex)
        e, _, _ = line_expr(False, nr, G0, Sl, 1, 1.0)
        pend.exprs.append(e)
        pend.meta.append(dict(case=case, tag=tag, line=1, malformed=True, impl_err=err, finite=None if err else bool(np.all(np.isfinite(Sy)))))
        return
    if err:
        ctx.fail("oracle", "SD_PreGER raised %s on well-conditioned spectra (%s)" % (err, tag), case, key="C04:SD_PreGER:raises")
        return

    rows = nr + sum(nms)
    # ---- shape and grid (property: same frequency grid  k*fs/nxseg, k = 0..nxseg/2)
    grid = np.arange(nxseg // 2 + 1) * (fs / nxseg)
    if Sy.shape != (rows, nr, len(grid)) or np.shape(freq) != grid.shape:
        ctx.fail("oracle", "SD_PreGER shape %s / freq %s, expected (%d,%d,%d) (%s)" % (Sy.shape, np.shape(freq), rows, nr, len(grid), tag),
                 case, key="C04:SD_PreGER:shape")
        return
    freq = np.asarray(freq)
    ftol = 1e-12 * fs
    if np.iscomplexobj(freq) or not np.all(np.isfinite(freq)) or not np.allclose(freq, grid, rtol=0, atol=ftol):
        ctx.fail("oracle", "SD_PreGER frequency vector is not the grid k*fs/nxseg, k=0..nxseg//2 of the run parameters (%s): last line %.12g, grid %.12g"
                 % (tag, float(np.real(freq[-1])), grid[-1]), case, key="C04:SD_PreGER:grid")
    for kk, fw in enumerate(F_all):
        if np.shape(fw) != freq.shape or not np.allclose(freq, fw, rtol=0, atol=ftol):
            ctx.fail("oracle", "SD_PreGER frequency vector differs from the grid of SD_est for setup %d with the same run parameters (%s)" % (kk, tag), case,
                     key="C04:SD_PreGER:grid-vs-SD_est")
            break
    if not np.all(np.isfinite(Sy)):
        ctx.fail("oracle", "SD_PreGER returned non-finite spectra on well-conditioned input (%s)" % tag, case, key="C04:SD_PreGER:non-finite")
        return

    # ---- conditioning per line (float comparisons are judged only where every reference block is well conditioned)
    cond = np.zeros(nf)
    for S in G_all:
        with np.errstate(all="ignore"):
            c = np.linalg.cond(np.moveaxis(S[:nr, :, :], 2, 0))
        cond = np.maximum(cond, np.where(np.isfinite(c), c, np.inf))
    judged = cond <= COND_MAX
    ctx.not_judged += int(np.sum(~judged))
    tolr = cond_tol(np.where(judged, cond, 1.0), single)  # per-line relative tolerance, scaled by the measured conditioning
    ctx.hist("log10 cond(Grr) of judged lines", "<=4" if not np.any(judged) or cond[judged].max() <= 1e4 else "%d" % int(np.ceil(np.log10(cond[judged].max()))))

    # ---- property text, general part: reference block = mean, roving block = transmissibility . mean
    expect = np.zeros((rows, nr, nf), complex)
    means = np.zeros((nr, nr, nf), complex)
    for k in range(nf):
        if judged[k]:
            expect[:, :, k], means[:, :, k] = np_merge([(S[:nr, :, k], S[nr:, :, k]) for S in G_all])
    gscale = float(np.abs(expect).max()) or 1.0
    lscale = np.maximum(np.abs(expect).max(axis=(0, 1)), 1e-6 * gscale)
    for k in range(nf):
        if judged[k] and not close(Sy[:, :, k], expect[:, :, k], lscale[k], tolr[k]):
            blk = "reference block" if not close(Sy[:nr, :, k], expect[:nr, :, k], lscale[k], btol) else "roving blocks"
            ctx.fail("oracle", "SD_PreGER %s differ from mean / transmissibility.mean of the per-setup spectra at line %d (%s): max dev %.3g of scale %.3g"
                     % (blk, k, tag, np.abs(Sy[:, :, k] - expect[:, :, k]).max(), lscale[k]), case, key="C04:SD_PreGER:general-%s" % blk.split()[0])
            break

    # ---- property text, first sentence: one simultaneous recording => single-setup cross-spectral matrix
    if case["kind"] == "sim":
        allrec = np.vstack([Y64[0]["ref"]] + [y["mov"] for y in Y64])
        for which, est in (("SD_est", lambda: fdd.SD_est(allrec, Y64[0]["ref"], 1.0 / fs, nxseg, method, pov)),
                           ("SciPy reference estimator", lambda: ref_estimator(allrec, Y64[0]["ref"], fs, nxseg, method, pov))):
            f1, S1 = est()
            S1 = np.asarray(S1)
            if S1.shape != Sy.shape or np.shape(f1) != freq.shape or not np.allclose(f1, freq, rtol=0, atol=ftol):
                ctx.fail("oracle", "merged matrix and single-setup matrix (%s) are not on the same frequency grid / shape (%s): merged %s last %.12g, "
                         "single-setup %s last %.12g" % (which, tag, Sy.shape, float(np.real(freq[-1])), S1.shape, float(np.asarray(f1)[-1])), case,
                         key="C04:SD_PreGER:single-setup-grid")
                break
            sc = np.maximum(np.abs(S1).max(axis=(0, 1)), 1e-6 * float(np.abs(S1).max()))
            bad = [k for k in range(nf) if judged[k] and not close(Sy[:, :, k], S1[:, :, k], sc[k], tolr[k])]
            if bad:
                k = bad[0]
                dev = np.abs(Sy[:, :, k] - S1[:, :, k])
                r = int(np.unravel_index(np.argmax(dev), dev.shape)[0])
                ctx.fail("oracle", "simultaneous recording: merged matrix != single-setup cross-spectral matrix (%s) of (references, roving in setup "
                         "order) against the references, %d of %d lines, first line %d row %d: dev %.3g of scale %.3g (%s)"
                         % (which, len(bad), nf, k, r, dev.max(), sc[k], tag), case,
                         key="C04:SD_PreGER:single-setup" if which == "SD_est" else "C04:SD_est:reference-estimator")
            if nr >= 2:
                # sharper derived observable: the difference of the first two reference columns of the roving blocks (for side-by-side
                # references it is eps times smaller than the entries, and it is what a rank-truncated inverse loses); its float error
                # is proportional to ITSELF (calibration above), so it is judged relative to its own scale
                D, D1 = Sy[nr:, 1, :] - Sy[nr:, 0, :], S1[nr:, 1, :] - S1[nr:, 0, :]
                dsc = np.abs(D1).max(axis=0)
                dev = np.abs(D - D1).max(axis=0)
                badd = [k for k in range(nf) if judged[k] and dev[k] > tolr[k] * dsc[k] + (TOLS if single else 16 * EPS) * sc[k]]
                if badd:
                    k = badd[0]
                    ctx.fail("oracle", "simultaneous recording: the difference of the two reference columns of the roving blocks differs from that of the "
                             "single-setup matrix (%s), %d of %d lines, first line %d: deviation %.3g of its scale %.3g (%.3g relative; tolerance %.3g at "
                             "cond %.3g) (%s)" % (which, len(badd), nf, k, dev[k], dsc[k], dev[k] / max(dsc[k], 1e-300), tolr[k], cond[k], tag), case,
                             key="C04:SD_PreGER:single-setup-coldiff" if which == "SD_est" else "C04:SD_est:reference-estimator-coldiff")
                    break
            if bad:
                break

    # ---- property text, last sentence: a per-setup gain changes nothing but the mean reference block
    gi, g = case["gain"]["i"], case["gain"]["g"]
    if case.get("dtypes"):  # the gain keeps every block in its dtype (integer gain, counts stay in range)
        Yg = [dict(ref=(y["ref"] * (g if k == gi else 1.0)).astype(y["ref"].dtype), mov=(y["mov"] * (g if k == gi else 1.0)).astype(y["mov"].dtype))
              for k, y in enumerate(Y)]
    else:
        Yg = [dict(ref=y["ref"] * (g if k == gi else 1.0), mov=y["mov"] * (g if k == gi else 1.0)) for k, y in enumerate(Y)]
    try:
        fg, Sg = fdd.SD_PreGER(hand_over(Yg, readonly), fs, nxseg, pov, method)
        Sg = np.asarray(Sg).astype(np.complex128)
    except Exception:
        fg, Sg = None, None
    if Sg is None or np.shape(Sg) != Sy.shape or np.shape(fg) != freq.shape or not np.allclose(fg, freq, rtol=0, atol=ftol):
        ctx.fail("oracle", "SD_PreGER fails or changes shape / frequency grid when setup %d is multiplied by %s (%s)" % (gi, g, tag), case, key="C04:SD_PreGER:gain")
    else:
        for k in range(nf):
            if not judged[k]:
                continue
            M = Sy[:nr, :, k]
            Mg_expect = M + (g * g - 1.0) / nset * G_all[gi][:nr, :, k]
            cM = max(np.linalg.cond(M), np.linalg.cond(Mg_expect))
            ok_ref = close(Sg[:nr, :, k], Mg_expect, max(np.abs(Mg_expect).max(), 1e-6 * gscale), btol)
            ok_T = True
            if cM <= 1e4:
                T0 = np.linalg.solve(M.T, Sy[nr:, :, k].T).T
                T1 = np.linalg.solve(Sg[:nr, :, k].T, Sg[nr:, :, k].T).T
                ok_T = close(T1, T0, max(np.abs(T0).max(), 1e-12) * cM, btol)
            if not (ok_ref and ok_T):
                ctx.fail("oracle", "multiplying setup %d by %s: %s (line %d, %s)" % (
                    gi, g, "mean reference block is not mean + (g^2-1)/n Grr(i)" if not ok_ref else
                    "a roving block changed otherwise than through the mean reference block", k, tag), case,
                    key="C04:SD_PreGER:gain-%s" % ("ref" if not ok_ref else "rov"))
                break

    # ---- entry locality of SD_est (model: SD_est(Yall, Yref)[a, b] = csd(Yall[a], Yref[b])) on one channel pair
    a, b = rows % (nr + nms[0]), (nr - 1)
    Ya = np.vstack([Y[0]["ref"], Y[0]["mov"]])
    _, s_ab = fdd.SD_est(Ya[a:a + 1], Y[0]["ref"][b:b + 1], 1.0 / fs, nxseg, method, pov)
    if not np.allclose(np.asarray(s_ab)[0, 0], G_all[0][a, b], rtol=10 * btol, atol=(1e-3 if single else 1e-12) * gscale):
        ctx.fail("oracle", "SD_est entry (a,b) is not a function of channel a and reference b alone (%s)" % tag, case, key="C04:SD_est:entry-locality")

    # ---- correspondence with the Coq model, line by line
    cand = [k for k in range(nf) if judged[k]]
    if len(cand) > lines_cap:
        sel = sorted(ctx.rng.sample(cand[1:-1], lines_cap - 2)) if lines_cap > 2 else []
        cand = [cand[0]] + sel + [cand[-1]]
    for j, k in enumerate(cand):
        G = [(S[:nr, :, k], S[nr:, :, k]) for S in G_all]
        e, full, kk = line_expr(j == len(cand) // 2, nr, G, Sy[:, :, k], k, tolr[k] * lscale[k])
        pend.exprs.append(e)
        pend.meta.append(dict(case=case, tag=tag, line=k, malformed=False, full=full, k2=kk, S=Sy[:, :, k], nr=nr))
    ctx.extra["lines_compared_in_coq"] = ctx.extra.get("lines_compared_in_coq", 0) + len(cand)


def settle(ctx, pend):
    """Evaluate all pending line comparisons in Coq and classify the answers."""
    n = len(pend.exprs)
    # one coqc start-up costs ~0.7 s: few shards, lines dealt round-robin so that the expensive (3-reference) cases spread out
    ns = 14 if n <= 1000 else 42
    order = [i for r in range(ns) for i in range(r, n, ns)]
    shard = max(1, -(-n // ns))
    out = ctx.coq_eval(HEADER, [pend.exprs[i] for i in order], shard=shard)
    res = [None] * n
    for i, s in zip(order, out):
        res[i] = s
    slow = []
    for m, s in zip(pend.meta, res):
        if m["malformed"]:
            ctx.hist("malformed (model, implementation)", (s if s == "E" else "value", m["impl_err"] or ("finite" if m["finite"] else "non-finite")))
            if (s == "E") != (m["impl_err"] is not None or not m["finite"]):
                ctx.note("singular reference block: model says %s, implementation %s (not constrained by the property)" % (
                    "LinAlgError" if s == "E" else "a value", m["impl_err"] or "returns a value"))
            continue
        if s == "E":
            ctx.fail("correspondence", "model: singular reference block at line %d, implementation returned a value (%s)" % (m["line"], m["tag"]),
                     m["case"], key="C04:SD_PreGER:corr-singular")
            continue
        cert, shape, bad = s.split("|")
        if cert != "T":
            ctx.fail("correspondence", "adjugate certificate G.A = A.G = det.I failed in the model (%s, line %d)" % (m["tag"], m["line"]), m["case"],
                     key="C04:model:certificate")
        if shape != "T" or bad.strip():
            slow.append((m, bad))
    seen = set()
    for m, bad in slow:
        detail = ""
        if m["tag"] not in seen and len(seen) < 3:  # diagnostics: the model's value at the first failing entry
            seen.add(m["tag"])
            out = ctx.coq_eval(HEADER, [m["full"]], shard=1)[0].split("|")
            if len(out) == 3 and bad.strip():
                r, c = (int(x) for x in bad.split()[0].split(","))
                num = out[1].split(";")[r].split(" ")[c].split(",")
                den = out[2].split(" ")[r].split(",")
                fr = lambda t: Fraction(int(t.split("/")[0]), int(t.split("/")[1]))
                nz, dz = complex(float(fr(num[0])), float(fr(num[1]))), (fr(den[0]), fr(den[1]))
                dn = dz[0] * dz[0] + dz[1] * dz[1]
                val = complex(float((fr(num[0]) * dz[0] + fr(num[1]) * dz[1]) / dn), float((fr(num[1]) * dz[0] - fr(num[0]) * dz[1]) / dn)) / 2.0 ** m["k2"]
                detail = "; entry (%d,%d): model %.12g%+.12gj, implementation %.12g%+.12gj" % (r, c, val.real, val.imag, m["S"][r, c].real, m["S"][r, c].imag)
                del nz
        ctx.fail("correspondence", "SD_PreGER differs from the model merge of the per-setup SD_est spectra at line %d, entries %s (%s)%s"
                 % (m["line"], bad.strip()[:60] or "shape", m["tag"], detail), m["case"], key="C04:SD_PreGER:corr")


# ----------------------------------------------------------------------------- generators
def gen_case(ctx, kind, method, nxseg, pov, force=None):
    rng = ctx.rng
    force = force or {}
    nch = force.get("nch", rng.randint(2, 9))
    nr = force.get("nr", rng.randint(1, min(3, nch - 1)))
    nset = force.get("nset", rng.randint(2, 4))
    chans = list(range(nch))
    rng.shuffle(chans)
    refs = chans[:nr]
    pool = chans[nr:]
    # roving channels: a partition of the pool when it is large enough, otherwise channels are re-measured
    if len(pool) >= nset:
        cuts = sorted(rng.sample(range(1, len(pool)), nset - 1))
        parts = [pool[a:b] for a, b in zip([0] + cuts, cuts + [len(pool)])]
    else:
        parts = [[rng.choice(pool)] for _ in range(nset)]
        for p in pool:
            if all(p not in q for q in parts):
                parts[rng.randrange(nset)].append(p)
    chan, ref_ind = [], []
    for part in parts:
        lst = list(refs) + list(part)
        rng.shuffle(lst)  # references anywhere in the setup's channel list
        chan.append(lst)
        ref_ind.append([lst.index(r) for r in refs])
    nseg = rng.randint(4, 9) + (2 if nr == 3 else 0)
    N = nxseg * nseg + rng.randint(0, nxseg - 1)
    case = dict(kind=kind, method=method, nxseg=nxseg, pov=pov, fs=rng.choice([1.0, 10.0, 128.0, 200.0]), seed=rng.randrange(1 << 30),
                nch=nch, chan=chan, ref_ind=ref_ind, gain=dict(i=rng.randrange(nset), g=rng.choice([0.5, 2.0, 3.0, 0.25, 1.5])))
    case["readonly"] = rng.random() < 0.35  # input arrays handed over read-only (the library never writes to its inputs)
    if kind == "sim":
        case["N"] = N
    else:
        case["Ns"] = [nxseg * (rng.randint(4, 9) + (2 if nr == 3 else 0)) + rng.randint(0, nxseg - 1) for _ in range(nset)]
    return case


def class_level(ctx, case):
    """FDD_MS / EFDD_MS / pLSCF_MS through MultiSetup_PreGER.run_all: result.freq / result.Sy are SD_PreGER with the class's
    own run parameters (and, the recording being simultaneous, the single-setup matrix)."""
    from pyoma2.algorithms import EFDD_MS, FDD_MS, pLSCF_MS
    from pyoma2.setup import MultiSetup_PreGER

    datasets, ref_ind = build_datasets(case)
    Y = split_setups(datasets, ref_ind)
    Y64 = f64(Y)
    fs = case["fs"]
    readonly = bool(case.get("readonly"))
    dsin = [d.copy() for d in datasets]
    if readonly:
        for d in dsin:
            d.setflags(write=False)
    sgl = any(str(d.dtype) in ("float32", "int16", "uint16") for d in datasets)  # SciPy then works in single precision (see TOLS)
    ctx.hist("class level: data set dtypes", tuple(str(d.dtype) for d in datasets))
    ctx.hist("class level: inputs read-only", readonly)
    try:
        ms = MultiSetup_PreGER(fs=fs, ref_ind=[list(r) for r in ref_ind], datasets=dsin)
    except Exception as ex:
        ctx.count(case)
        ctx.fail("oracle", "MultiSetup_PreGER(...) raised %s: %s (data set dtypes %s%s)" % (type(ex).__name__, str(ex)[:200], [str(d.dtype) for d in datasets],
                 ", read-only arrays" if readonly else ""), case, key="C04:MultiSetup_PreGER:raises")
        return
    algs = []
    for (cls, name), (nxseg, method, pov) in zip(((FDD_MS, "fdd"), (EFDD_MS, "efdd"), (pLSCF_MS, "plscf")), case["params"]):
        kw = dict(name=name, nxseg=nxseg, method_SD=method, pov=pov)
        if cls is pLSCF_MS:
            kw["ordmax"] = 4
        algs.append((cls, cls(**kw), nxseg, method, pov))
    ms.add_algorithms(*[a for _, a, _, _, _ in algs])
    try:
        ms.run_all()
    except Exception as ex:
        ctx.count(case)
        ctx.fail("oracle", "MultiSetup_PreGER.run_all raised %s: %s with run parameters %s%s" % (type(ex).__name__, str(ex)[:200], case["params"],
                 ", read-only data sets" if readonly else ""), case, key="C04:run_all:raises")
        return
    if not all(a.dtype == b.dtype and np.array_equal(a, b) for a, b in zip(dsin, datasets)):
        ctx.fail("oracle", "MultiSetup_PreGER / run_all modified the data sets handed over", case, key="C04:run_all:mutates-input")
    # ---- the same construction fully positionally, in the parameter order of the pristine signatures (hard-coded, see "call forms"):
    #      MultiSetup_PreGER(fs, ref_ind, datasets) and <Algorithm>(run_params, name); same state, and after run_all the same results
    pos_algs, site = {}, "MultiSetup_PreGER"
    try:
        msp = MultiSetup_PreGER(fs, [list(r) for r in ref_ind], [d.copy() for d in datasets])
        if not (msp.fs == ms.fs and msp.dt == ms.dt and same_setup_data(msp.data, ms.data)
                and [list(r) for r in msp.ref_ind] == [list(r) for r in ms.ref_ind]):
            ctx.fail("oracle", "MultiSetup_PreGER(fs, ref_ind, datasets) called positionally in the documented parameter order holds other fs / dt / "
                     "ref_ind / pre-processed data than the same call by keyword", case, key="C04:MultiSetup_PreGER:positional-call")
        pa = []
        for (cls, name), (nxseg, method, pov) in zip(((FDD_MS, "fdd"), (EFDD_MS, "efdd"), (pLSCF_MS, "plscf")), case["params"]):
            site = cls.__name__
            kw = dict(nxseg=nxseg, method_SD=method, pov=pov)
            if cls is pLSCF_MS:
                kw["ordmax"] = 4
            a = cls(cls.RunParamCls(**kw), name)
            ref = [x for c, x, _, _, _ in algs if c is cls][0]
            if a.name != ref.name or any(getattr(a.run_params, k) != getattr(ref.run_params, k) for k in kw):
                ctx.fail("oracle", "%s(run_params, name) called positionally in the documented parameter order has name %r / run parameters %s, the "
                         "keyword construction %r / %s" % (site, a.name, {k: getattr(a.run_params, k, None) for k in kw}, ref.name,
                                                          {k: getattr(ref.run_params, k, None) for k in kw}), case, key="C04:%s:positional-call" % site)
            pa.append((cls, a))
        site = "MultiSetup_PreGER"
        msp.add_algorithms(*[a for _, a in pa])
        msp.run_all()
        pos_algs = {cls.__name__: a for cls, a in pa}
        ctx.hist("called positionally and by keyword", "MultiSetup_PreGER + FDD_MS / EFDD_MS / pLSCF_MS constructors")
    except Exception as ex:
        ctx.fail("oracle", "%s called positionally in the documented parameter order (%s) raised %s: %s; the keyword construction ran" % (
            site, "fs, ref_ind, datasets" if site == "MultiSetup_PreGER" else "run_params, name", type(ex).__name__, str(ex)[:200]), case,
            key="C04:%s:positional-call" % site)
    allrec = np.vstack([Y64[0]["ref"]] + [y["mov"] for y in Y64])
    nr = len(ref_ind[0])
    # the single-setup classes on the same simultaneous recording (all sensors: references, then roving in setup order)
    from pyoma2.algorithms import EFDD, FDD, pLSCF
    from pyoma2.setup import SingleSetup
    single = {}
    ss, sal = None, []
    try:
        ss = SingleSetup(np.ascontiguousarray(allrec.T), fs=fs)
        for (scls, name), (nxseg, method, pov) in zip(((FDD, "fdd"), (EFDD, "efdd"), (pLSCF, "plscf")), case["params"]):
            kw = dict(name=name, nxseg=nxseg, method_SD=method, pov=pov)
            if scls is pLSCF:
                kw["ordmax"] = 4
            sal.append(scls(**kw))
        ss.add_algorithms(*sal)
        for n, a in zip(("FDD_MS", "EFDD_MS", "pLSCF_MS"), sal):
            try:
                ss.run_by_name(a.name)
                single[n] = a
            except Exception as ex:  # the single-setup class itself is outside C04: comparison skipped for this class only
                ctx.note("single-setup %s could not be run for the class-level comparison (%s); that class is compared with the grid, the "
                         "SciPy estimator and SD_PreGER only" % (type(a).__name__, type(ex).__name__))
    except Exception as ex:
        ctx.note("SingleSetup could not be built for the class-level comparison: %s" % type(ex).__name__)
    # the same single-setup construction fully positionally, pristine order SingleSetup(data, fs) and <Algorithm>(run_params, name): same state
    if ss is not None and len(sal) == 3:
        site = "SingleSetup"
        try:
            ssp = SingleSetup(np.ascontiguousarray(allrec.T), fs)
            if not (ssp.fs == ss.fs and ssp.dt == ss.dt and same_setup_data(np.asarray(ssp.data), np.asarray(ss.data))):
                ctx.fail("oracle", "SingleSetup(data, fs) called positionally in the documented parameter order holds other fs / dt / data than the same "
                         "call by keyword", case, key="C04:SingleSetup:positional-call")
            for (scls, name), (nxseg, method, pov), ref in zip(((FDD, "fdd"), (EFDD, "efdd"), (pLSCF, "plscf")), case["params"], sal):
                site = scls.__name__
                kw = dict(nxseg=nxseg, method_SD=method, pov=pov)
                if scls is pLSCF:
                    kw["ordmax"] = 4
                ap = scls(scls.RunParamCls(**kw), name)
                if ap.name != ref.name or any(getattr(ap.run_params, k) != getattr(ref.run_params, k) for k in kw):
                    ctx.fail("oracle", "%s(run_params, name) called positionally in the documented parameter order has another name / other run "
                             "parameters than the keyword construction" % site, case, key="C04:%s:positional-call" % site)
        except Exception as ex:
            ctx.fail("oracle", "%s called positionally in the documented parameter order (%s) raised %s: %s; the keyword construction ran" % (
                site, "data, fs" if site == "SingleSetup" else "run_params, name", type(ex).__name__, str(ex)[:200]), case,
                key="C04:%s:positional-call" % site)
    for cls, alg, nxseg, method, pov in algs:
        c = dict(case, cls=cls.__name__, nxseg=nxseg, method=method, pov=pov)
        ctx.count(c)
        ctx.hist("class level", (cls.__name__, method, nxseg, pov))
        f0, S0 = fdd.SD_PreGER(Y, fs, nxseg, pov, method)
        f1, S1 = ref_estimator(allrec, Y64[0]["ref"], fs, nxseg, method, pov)
        fr, Sr = np.asarray(alg.result.freq), np.asarray(alg.result.Sy)
        tag = "%s nxseg=%d method_SD=%s pov=%s" % (cls.__name__, nxseg, method, pov)
        ftol = 1e-12 * fs
        grid = np.arange(nxseg // 2 + 1) * (fs / nxseg)
        if cls.__name__ in pos_algs:  # positional construction (MultiSetup_PreGER(fs, ref_ind, datasets), cls(run_params, name)) against the keyword one
            rp = pos_algs[cls.__name__].result
            if rp is None or not forms_agree((rp.freq, rp.Sy), (fr, Sr), sgl):
                ctx.fail("oracle", "%s: result.{freq,Sy} of the set-up and algorithm constructed positionally in the documented parameter order differ "
                         "from those of the keyword construction: %s" % (tag, "no result" if rp is None else forms_dev((rp.freq, rp.Sy), (fr, Sr))), c,
                         key="C04:%s:positional-call" % cls.__name__)
        if cls.__name__ in single:
            rs = single[cls.__name__].result
            fs1, Ss1 = np.asarray(rs.freq), np.asarray(rs.Sy)
            if fs1.shape != fr.shape or not np.allclose(fr, fs1, rtol=0, atol=ftol):
                ctx.fail("oracle", "%s: result.freq differs from result.freq of %s on the same simultaneous recording with the same run parameters "
                         "(last line %.12g vs %.12g)" % (tag, type(single[cls.__name__]).__name__, float(fr[-1]), float(fs1.ravel()[-1])), c,
                         key="C04:%s:grid-vs-single-setup-class" % cls.__name__)
        if Sr.shape != S1.shape or fr.shape != grid.shape or not np.allclose(fr, grid, rtol=0, atol=ftol) or not np.allclose(fr, f1, rtol=0, atol=ftol):
            ctx.fail("oracle", "%s: result.freq/result.Sy are not on the grid k*fs/nxseg of the run parameters (Sy shape %s, expected %s; freq %s last %.12g, "
                     "grid last %.12g)" % (tag, Sr.shape, S1.shape, fr.shape, float(np.real(fr.ravel()[-1])), grid[-1]),
                     c, key="C04:%s:grid" % cls.__name__)
            continue
        if cls.__name__ in single:
            Ss1 = np.asarray(single[cls.__name__].result.Sy)
            if Ss1.shape[0] == Sr.shape[0] and Ss1.shape[2] == Sr.shape[2]:
                S1c = Ss1[:, :nr, :]
                scc = np.maximum(np.abs(S1c).max(axis=(0, 1)), 1e-6 * float(np.abs(S1c).max()))
                cc = np.linalg.cond(np.moveaxis(S1c[:nr, :, :], 2, 0))
                okc = cc <= COND_MAX
                devc = np.abs(Sr - S1c).max(axis=(0, 1))
                if np.any(devc[okc] > cond_tol(cc[okc], sgl) * scc[okc]):
                    ctx.fail("oracle", "%s: result.Sy differs from the reference columns of result.Sy of %s on the same simultaneous recording "
                             "(max dev %.3g of scale %.3g)" % (tag, type(single[cls.__name__]).__name__, devc[okc].max(), scc.max()), c,
                             key="C04:%s:single-setup-class" % cls.__name__)
            else:
                ctx.fail("oracle", "%s: result.Sy has shape %s, the single-setup class on the same recording gives %s" % (tag, Sr.shape, Ss1.shape), c,
                         key="C04:%s:shape-vs-single-setup-class" % cls.__name__)
        sc = np.maximum(np.abs(S1).max(axis=(0, 1)), 1e-6 * float(np.abs(S1).max()))
        cond = np.linalg.cond(np.moveaxis(S1[:S1.shape[1], :, :], 2, 0))
        ok = cond <= COND_MAX
        dev = np.abs(Sr - S1).max(axis=(0, 1))
        if np.any(dev[ok] > cond_tol(cond[ok], sgl) * sc[ok]):
            ctx.fail("oracle", "%s through MultiSetup_PreGER.run_all: result.Sy is not the single-setup cross-spectral matrix of the simultaneous "
                     "recording for the class's run parameters (max dev %.3g of scale %.3g)" % (tag, dev[ok].max(), sc.max()), c,
                     key="C04:%s:single-setup" % cls.__name__)
        if np.shape(S0) != Sr.shape or not np.allclose(Sr, S0, rtol=1e-5 if sgl else 1e-12, atol=(1e-6 if sgl else 1e-15) * float(np.abs(S1).max())) or np.shape(f0) != fr.shape or not np.allclose(fr, f0, rtol=0, atol=ftol):
            ctx.fail("correspondence", "%s: result.{freq,Sy} differ from fdd.SD_PreGER(data, fs, nxseg, pov, method_SD) of the run parameters" % tag, c,
                     key="C04:%s:glue" % cls.__name__)


# ----------------------------------------------------------------------------- entry point
def run(ctx):
    ctx.extra["rule"] = ("case = (kind sim|gen, estimator, nxseg, pov, fs, seed, channel lists with the references anywhere, gain); sim = all setups cut "
                         "from one recording, gen = independent recordings of different lengths; non-trivial when no reference channel is dead or "
                         "duplicated (those form the malformed stream); distinct by hash of the case recipe")
    ctx.assumptions += [
        "oracle contract np.linalg.inv: two-sided inverse (Section hypothesis inv_contract of the C04 theorems); the executed model uses the "
        "adjugate inverse, proved for 1..3 references (adj_right/adj_left) and certified exactly (G.A = A.G = det.I) on one line per case",
        "oracle SD_est/csd (C13): entry (a,b) depends on channel a and reference b only (checked on one pair per case), homogeneous of degree 2 "
        "(checked through the gain oracle); witness spectra = the harness's own fdd.SD_est(.., pov=pov) per setup, exact rational images",
        "comparison inside Coq, exact: |num - den*S| in the 1-norm against |den|_1 * tol/sqrt2 (pass => within tol=1e-9*scale, fail => farther than tol/2); "
        "spectra of a line are multiplied by a power of two to integers (C04_homogeneous)",
        "float comparisons through inv(Grr) use the relative tolerance max(1e-9, 30*eps*cond(Grr)) per line (calibrated: unchanged tree <= 0.8*eps*cond "
        "over 4072 nearly-collinear lines); lines with cond > 1e10 are not judged; counted under not_judged",
        "mixed sample dtypes: merged matrix judged against the single-setup matrix of the float64 image of the same values; where SciPy works in "
        "single precision (float32 / int16 / uint16 blocks -> complex64 spectra, float32 detrend) the tolerance is max(2e-4, 30*eps32*cond) "
        "(unchanged tree: <= 3.6e-6 over 3092 lines)",
    ]
    pend = Pending()
    tm = ctx.extra.setdefault("timing_s", {})
    t0 = time.time()
    # ---- corpus first (failing inputs of repaired defects)
    for path in sorted(glob.glob(os.path.join(VERIF, "corpus", "C04", "*.json"))):
        case = json.load(open(path))
        if case.get("level") == "class":
            class_level(ctx, case)
        else:
            run_case(ctx, case, pend, 9)
    if pend.exprs:
        settle(ctx, pend)
        pend = Pending()
    if any(f["kind"] == "oracle" for f in ctx.failures):
        return  # a repaired defect is back: report it at once

    tm["corpus"] = round(time.time() - t0, 2)
    t0 = time.time()
    quick = ctx.quick()
    povs = [0.0, 0.25, 0.5, 0.75]
    nxsegs = [16, 32, 64] if quick else [16, 32, 64, 128, 256, 512, 1024, 2048]
    reps = ctx.n(1, 2)
    k = 0
    for rep in range(reps):
        for method in ("per", "cor"):
            for nxseg in nxsegs:
                for pov in povs:
                    for kind in ("sim", "gen"):
                        k += 1
                        force = {}
                        if k % 3 == 0:
                            force = dict(nr=rng_pick(ctx, [2, 3]), nch=ctx.rng.randint(5, 9))  # complex off-diagonal reference blocks
                        case = gen_case(ctx, kind, method, nxseg, pov, force)
                        cap = (33 if kind == "sim" else 7) if nxseg <= 64 else 16
                        if quick:  # budget: a 3-reference line costs ~0.5 s of exact arithmetic, a 1-reference line 0.02 s
                            nrc = len(case["ref_ind"][0])
                            cap = min(cap, {1: 33, 2: 17, 3: 9}[nrc] if kind == "sim" else {1: 7, 2: 7, 3: 5}[nrc])
                        run_case(ctx, case, pend, cap)
    # segment lengths / overlaps off the power-of-two grid
    # (odd lengths: the grid k*fs/nxseg then ends below fs/2, so a grid rebuilt as linspace(0, fs/2, ..) is visible)
    offgrid = [(24, 0.3, "per"), (48, 0.6, "per"), (20, 0.1, "cor"), (40, 0.45, "per"),
               (15, 0.25, "per"), (33, 0.5, "cor"), (65, 0.75, "per"), (27, 0.0, "cor"), (51, 0.4, "per")]
    if not quick:
        offgrid += [(100, 0.33, "per"), (250, 0.7, "per"), (72, 0.2, "cor"), (375, 0.25, "per"), (2047, 0.5, "per"), (1025, 0.75, "cor"),
                    (129, 0.3, "per"), (375, 0.5, "cor"), (999, 0.0, "per")]
    for (nxseg, pov, method) in offgrid:
        ctx.hist("nxseg parity", "odd" if nxseg % 2 else "even, not a power of two")
        run_case(ctx, gen_case(ctx, "sim", method, nxseg, pov), pend, 7)
        run_case(ctx, gen_case(ctx, "gen", method, nxseg, pov), pend, 5)
    # nearly collinear (side-by-side) reference sensors: ref2 = ref1 + eps * local motion, reference block cond ~ 1/eps^2 but invertible;
    # all setups share the reference records, so the merged matrix must still be the single-setup one (a truncated pseudo-inverse is not)
    cl = [(1e-2, "per", 32), (1e-3, "cor", 33), (1e-4, "per", 64), (1e-4, "cor", 32), (3e-5, "per", 33), (3e-4, "per", 16), (1e-5, "cor", 64), (1e-4, "per", 24)]
    if not quick:
        cl += [(e, m, n) for e in (1e-2, 1e-3, 3e-4, 1e-4, 3e-5, 1e-5) for m in ("per", "cor") for n in (65, 128, 375)]
    for j, (epsc, method, nxseg) in enumerate(cl):
        case = gen_case(ctx, "sim", method, nxseg, povs[j % 4], dict(nr=2 + (j % 3 == 2), nch=ctx.rng.randint(5, 9)))
        case["collinear"] = epsc
        ctx.hist("collinear references eps", epsc)
        run_case(ctx, case, pend, 7 if quick else 12)
    # per-block sample dtypes: each setup's 'ref' and 'mov' block independently from DTYPES (a reference station logged as integer counts
    # beside float roving sensors, ...); merged == single-setup matrix of the float64 image of the same values
    forced = [[("int32", "float64"), ("uint16", "float64")], [("float64", "int16"), ("int16", "float32")], [("float32", "float64"), ("int64", "float64")],
              [("uint16", "float32"), ("int32", "int64")]]
    ndt = ctx.n(14, 60)
    for j in range(ndt):
        kind = "sim" if j % 3 else "gen"
        case = gen_case(ctx, kind, "per" if j % 2 else "cor", [16, 32, 33, 64][j % 4] if quick else ctx.rng.choice([16, 33, 64, 128, 375]), povs[(j // 2) % 4],
                        dict(nr=1 + j % 3, nch=ctx.rng.randint(4, 9)) if j % 2 else None)
        nset = len(case["chan"])
        dts = [(ctx.rng.choice(DTYPES), ctx.rng.choice(DTYPES)) for _ in range(nset)]
        if j < len(forced):
            dts[:2] = forced[j]
        elif j % 2 == 0:  # every second case: at least one setup whose references are narrower than its roving sensors
            dts[ctx.rng.randrange(nset)] = (ctx.rng.choice(["int16", "int32", "uint16", "int64"]), ctx.rng.choice(["float64", "float32"]))
        case["dtypes"] = [list(d) for d in dts]
        case["gain"]["g"] = ctx.rng.choice([2.0, 3.0])
        run_case(ctx, case, pend, 5 if quick else 9)
    # malformed stream (~15 %): dead or duplicated reference channel -> exactly singular reference block
    nmal = max(4, int(0.15 * ctx.evaluations))
    for j in range(nmal):
        case = gen_case(ctx, "gen" if j % 2 else "sim", "per" if j % 3 else "cor", 16, 0.5, dict(nr=1 + j % 2, nch=ctx.rng.randint(4, 7)))
        if j % 2 == 0 or len(case["ref_ind"][0]) < 2:
            case["zero"] = [[ctx.rng.randrange(len(case["chan"])), 0]]
        else:
            case["dupref"] = True
            for ri in case["ref_ind"]:
                ri[1] = ri[0]
        run_case(ctx, case, pend, 1)
    tm["implementation+oracle+expressions"] = round(time.time() - t0, 2)
    t0 = time.time()
    settle(ctx, pend)
    tm["coq"] = round(time.time() - t0, 2)
    t0 = time.time()

    # ---- class level
    for j in range(ctx.n(6, 24)):
        case = gen_case(ctx, "sim", "per", 32, 0.5)
        if len(case["ref_ind"][0]) < 2:
            case = gen_case(ctx, "sim", "per", 32, 0.5, dict(nr=2, nch=ctx.rng.randint(4, 8)))
        N = case["N"]
        nxs = [16, 32, 64, 15, 33, 65, 24] if quick else [32, 64, 128, 256, 65, 129, 375, 100]
        ps = []
        for c in range(3):
            ps.append((ctx.rng.choice(nxs), "per" if (j + c) % 3 else "cor", ctx.rng.choice([0.0, 0.25, 0.75, 0.6])))
        if not any(p[0] % 2 for p in ps):  # every class-level case carries at least one odd segment length
            c = j % 3
            ps[c] = (ctx.rng.choice([x for x in nxs if x % 2]), ps[c][1], ps[c][2])
        case["N"] = max(N, 8 * max(p[0] for p in ps))
        case["params"] = ps
        case["level"] = "class"
        if j % 3 == 1:
            case["collinear"] = [1e-3, 1e-4, 3e-5][(j // 3) % 3]
        case["readonly"] = bool(j % 2)
        if j % 3 == 2:  # one dtype per data set, drawn independently (integer counts / float32 loggers beside float64)
            case["ds_dtypes"] = [ctx.rng.choice(DTYPES) for _ in case["chan"]]
        class_level(ctx, case)
    tm["class level"] = round(time.time() - t0, 2)


def rng_pick(ctx, xs):
    return ctx.rng.choice(xs)
