"""C08 - identification is covariant under gain, channel order / orthogonal mixing and time unit; every reported mode
shape has its largest-magnitude component equal to 1.
Model: coq/Model/M_covar.v (+ M_hankel.v); theorems: coq/Properties/C08.v.

Oracle = the property text, as metamorphic relations between runs of the REAL classes through SingleSetup
(FDD, EFDD, FSDD, SSIcov cov_mm / cov_R, SSIdat, pLSCF; spectra 'per' and 'cor') and MultiSetup_PreGER (FDD_MS, EFDD_MS,
SSIcov_MS cov_mm / cov_R, SSIdat_MS, pLSCF_MS):
  tier A  gains 2^k and sampling-rate factors 2^k on noisy records: a power of two commutes with every IEEE operation of
          the pipeline, so WHOLE tables (Fn_poles, Xi_poles, Phi_poles, Lambds, Lab, freq, S_vec, Fn, Xi, Phi, order_out) are
          compared element by element at 1e-12 with EQUAL NaN patterns (Sy, S_val up to the one positive factor the
          property leaves free);
  tier B  non-dyadic gains in [1e-6, 1e6], factors in [0.01, 100], channel permutations and orthogonal mixings (reference
          indices mapped consistently) on low-noise multi-mode records: per model order the poles are matched as
          multisets at 1e-6 (frequencies * k, damping unchanged, shape rows permuted / rotated), extracted modes too;
  unit    every reported shape (pole tables and extracted Phi, every class, every run): the component of largest
          modulus equals 1+0j within 1e-12.
  positional  a share of the class cases (spec["pos"], positional_check) and every anchored function (positional_functions) are also
          driven through the documented POSITIONAL call forms, in the parameter order of the pristine signatures (hard-coded: POS_SIGS,
          mpe_request, run_alg, make_alg) with non-default values: same answer as the keyword call and the relations above on it
          (keys C08:<entry point>:positional-call).
Model side (ctx.coq_eval, exact rationals): the right-hand sides of hank_gain / hank_perm / hank_mix evaluated on the
UNtransformed data vs ssi.build_hank on the transformed data; unity normalisation vs ssi.ac2mp, plscf.ac2mp_poly and
fdd.FDD_mpe; lamc and the frequency grids vs the functions.
"""
import glob
import json
import multiprocessing
import os
from concurrent.futures import ProcessPoolExecutor
from fractions import Fraction

import numpy as np
from scipy import linalg as sla
from scipy import signal as ssig

from common import VERIF, clist, parse_mat, qc, qc_c, qc_mat

HEADER = "From PyOMA.Base Require Import Cplx.\nFrom PyOMA.Model Require Import M_hankel M_covar."

TOL_A = 1e-12
TOL_B = 1e-6
TOL_EFDD = 1e-8
# covariance tables under NON-dyadic changes: the sensitivities go through a nearly singular inverse (Eq. 28 of the reference), the
# unchanged code reproduces the variance of fn to 1e-9 ... 2e-3 and the (fn, xi) cross term it stores as Xi_poles_cov to ~10 %
TOL_COV = 2e-2
TOL_XCOV = 1.0   # within a factor 2
NEAR = 1e-7  # threshold decisions closer than this (relative) to their limit are not judged in tier B

SINGLE_ALGS = ["FDD", "EFDD", "FSDD", "SSIcov_mm", "SSIcov_R", "SSIdat", "pLSCF", "SSIcov_mm_unc"]   # _unc: calc_unc=True (covariance tables, cov_max bites)
MULTI_ALGS = ["FDD_MS", "EFDD_MS", "SSIcov_MS_mm", "SSIcov_MS_R", "SSIdat_MS", "pLSCF_MS"]
HC_DEFAULT = dict(conj=True, xi_max=0.1, mpc_lim=0.7, mpd_lim=0.3, cov_max=0.2)
HC_NEUTRAL = dict(conj=True, xi_max=0.1, mpc_lim=0.0, mpd_lim=2.0, cov_max=0.2)  # MPC / MPD cannot bite (mixing)
SC_DEFAULT = dict(err_fn=0.01, err_xi=0.05, err_phi=0.03)


def family(alg):
    if alg.startswith("SSI"):
        return "SSI"
    if alg.startswith("pLSCF"):
        return "pLSCF"
    if alg.startswith("FDD"):
        return "FDD"
    return "EFDD"


# ------------------------------------------------------------------------------------------------ data
def synth(rng, N, l, fr, xi, noise, kind):
    """Response of a modal model sampled at ANY rate: only the relative frequencies fr (cycles/sample) matter."""
    nm = len(fr)
    q = np.zeros((N, nm))
    for m in range(nm):
        wn = 2 * np.pi * fr[m]
        lam = np.exp(-xi[m] * wn + 1j * wn * np.sqrt(1 - xi[m] ** 2))
        a = [1.0, -2 * lam.real, abs(lam) ** 2]
        if kind == "decay":
            e = np.zeros(N)
            e[0] = rng.uniform(0.5, 2.0)
            e[1] = rng.uniform(-1.0, 1.0)
        else:
            e = rng.standard_normal(N)
        x = ssig.lfilter([1.0], a, e)
        q[:, m] = x / x.std()
    Phi = rng.standard_normal((l, nm))
    Phi[np.abs(Phi) < 0.15] += 0.3
    y = q @ Phi.T
    y = y + noise * y.std() * rng.standard_normal((N, l))
    return y, Phi


def rand_orth(rng, n):
    if n == 0:
        return np.zeros((0, 0))
    q, r = np.linalg.qr(rng.standard_normal((n, n)))
    return q * np.sign(np.diag(r))


def as_counts(y, spec):
    """records stored as INTEGER ADC counts (dtype and peak value of the case), otherwise unchanged floats."""
    if not spec.get("idtype"):
        return y
    # unsigned raw A/D counts sit around a mid-scale offset (e.g. 2048 for 12 bit)
    return (np.round(y * (spec["peak"] / np.max(np.abs(y)))) + spec.get("offset", 0)).astype(spec["idtype"])


def keep_dtype(d):
    d = np.asarray(d)
    return np.array(d) if (np.issubdtype(d.dtype, np.integer) or d.dtype == np.float32) else np.array(d, dtype=float)


def build_case_data(spec):
    """-> dict(single: data | multi: datasets, ref_ind), true relative frequencies."""
    rng = np.random.default_rng(spec["seed"])
    nm = spec["nmodes"]
    lo, hi = spec.get("band", (0.08, 0.42))
    while True:
        fr = np.sort(rng.uniform(lo, hi, nm))
        if nm == 1 or np.min(np.diff(fr)) > 0.05:
            break
    xi = rng.uniform(0.006, 0.025, nm)
    if spec["setup"] == "single":
        y, Phi = synth(rng, spec["N"], spec["l"], fr, xi, spec["noise"], spec["kind"])
        y = y * (spec.get("amp", 1.0) / y.std())   # record rms = amp (realistic small / unit / large amplitudes)
        return dict(data=as_counts(y, spec), fr=fr, xi=xi)
    # multi: one physical structure with n_ref fixed + roving channels, measured in several setups (independent records)
    nref = spec["nref"]
    movs = spec["movs"]
    ltot = nref + sum(movs)
    PhiAll = rng.standard_normal((ltot, nm))
    PhiAll[np.abs(PhiAll) < 0.15] += 0.3
    datasets, ref_ind = [], []
    off = nref
    for i, nmov in enumerate(movs):
        n_i = nref + nmov
        N_i = spec["N"] + 16 * i
        q = np.zeros((N_i, nm))
        for m in range(nm):
            wn = 2 * np.pi * fr[m]
            lam = np.exp(-xi[m] * wn + 1j * wn * np.sqrt(1 - xi[m] ** 2))
            x = ssig.lfilter([1.0], [1.0, -2 * lam.real, abs(lam) ** 2], rng.standard_normal(N_i))
            q[:, m] = x / x.std()
        rows = list(range(nref)) + list(range(off, off + nmov))
        off += nmov
        y = q @ PhiAll[rows].T
        y = y + spec["noise"] * y.std() * rng.standard_normal(y.shape)
        y = y * (spec.get("amp", 1.0) / y.std())
        # scatter the reference channels over arbitrary positions of the record (listed order = reference order)
        pos = rng.permutation(n_i)
        d = np.zeros_like(y)
        d[:, pos] = y
        datasets.append(as_counts(d, spec))
        ref_ind.append([int(pos[a]) for a in range(nref)])
    return dict(datasets=datasets, ref_ind=ref_ind, fr=fr, xi=xi)


# ------------------------------------------------------------------------------------------------ running the classes
class Form:
    """How option VALUES are written.  Established on the unchanged tree: every run parameter of every class, the sampling
    frequency, reference indices, the mpe arguments and the entries of an order LIST accept Python and NumPy scalars alike (ints
    also as elements of np.arange, floats also as 0-d arrays, booleans also as 1/0 and np.bool_); only a SCALAR mpe order must be a
    Python int (np.int64 raises AttributeError in SSI_mpe / ValueError in pLSCF_mpe) and stays one.  np.float32 is not used for
    floats: float32(0.1) is another number."""

    def __init__(self, name=None):
        self.name = name or "py"

    def i(self, v):
        v = int(v)
        return {"py": v, "np64": np.int64(v), "np32": np.int32(v), "arange": np.arange(abs(v) + 1)[abs(v)] * (1 if v >= 0 else -1)}[self.name]

    def f(self, v):
        v = float(v)
        return {"py": v, "np64": np.float64(v), "np32": np.array(v), "arange": np.float64(v)}[self.name]

    def b(self, v):
        v = bool(v)
        return {"py": v, "np64": np.bool_(v), "np32": int(v), "arange": np.bool_(v)}[self.name]

    def hc(self, d):
        return {k: (self.b(v) if k == "conj" else self.f(v)) for k, v in d.items()}


def make_alg(alg, P, ref_ind, kf=1.0, form=None, positional=False):
    a = make_alg_kw(alg, P, ref_ind, kf, form)
    if positional:
        # the documented positional form of every algorithm constructor (pristine order, hard-coded): cls(run_params, name)
        a = type(a)(a.run_params, "a")
    return a


def make_alg_kw(alg, P, ref_ind, kf=1.0, form=None):
    from pyoma2 import algorithms as A

    F = form or Form()
    fam = family(alg)
    if fam in ("FDD", "EFDD"):
        cls = dict(FDD=A.FDD, EFDD=A.EFDD, FSDD=A.FSDD, FDD_MS=A.FDD_MS, EFDD_MS=A.EFDD_MS)[alg]
        return cls(name="a", nxseg=F.i(P["nxseg"]), method_SD=P["method_SD"], pov=F.f(P["pov"]))
    if fam == "SSI":
        base, _, meth = alg.partition("_")
        if alg.startswith("SSIcov_MS"):
            cls, meth = A.SSIcov_MS, "cov_" + alg.split("_")[-1]
        elif alg.startswith("SSIdat_MS"):
            cls, meth = A.SSIdat_MS, "dat"
        elif alg.startswith("SSIcov"):
            cls, meth = A.SSIcov, "cov_" + alg.split("_")[1]
        else:
            cls, meth = A.SSIdat, "dat"
        # cov_max is a variance of a frequency: the same physical limit in the new time unit is cov_max * kf^2
        kw = dict(br=F.i(P["br"]), ordmax=F.i(P["ordmax"]), ordmin=F.i(P.get("ordmin", 0)), method=meth,
                  hc=F.hc(dict(P["hc"], cov_max=P["hc"]["cov_max"] * kf * kf)), sc={k: F.f(v) for k, v in P["sc"].items()})
        if alg.endswith("_unc"):
            kw.update(calc_unc=F.b(True), nb=F.i(P["nb"]))
        elif F.name != "py":
            kw.update(calc_unc=F.b(False))
        if "_MS" not in alg and ref_ind is not None:
            kw["ref_ind"] = [F.i(r) for r in ref_ind]
        return cls(name="a", **kw)
    cls = A.pLSCF_MS if alg.endswith("_MS") else A.pLSCF
    hc = {k: v for k, v in P["hc"].items() if k != "cov_max"}
    return cls(name="a", ordmax=F.i(P["pordmax"]), ordmin=F.i(P.get("ordmin", 0)), nxseg=F.i(P["nxseg"]), method_SD=P["method_SD"], pov=F.f(P["pov"]),
               hc=F.hc(hc), sc={k: F.f(v) for k, v in P["sc"].items()})


FIELDS = dict(
    FDD=["freq", "Sy", "S_val", "S_vec", "Fn", "Phi"],
    EFDD=["freq", "Sy", "S_val", "S_vec", "Fn", "Xi", "Phi"],
    SSI=["Fn_poles", "Xi_poles", "Phi_poles", "Lambds", "Lab", "Fn", "Xi", "Phi", "order_out", "Fn_poles_cov", "Xi_poles_cov", "Fn_cov", "Xi_cov"],
    pLSCF=["freq", "Sy", "Fn_poles", "Xi_poles", "Phi_poles", "Lab", "Fn", "Xi", "Phi", "order_out"],
)


def mpe_request(spec, fam, kf, F, sens):
    """-> (names, values) of the mpe call of a class, names / order = the PRISTINE signatures (hard-coded here, never introspected):
         FDD.mpe(sel_freq, DF)      EFDD.mpe / FSDD.mpe(sel_freq, DF1, DF2, cm, MAClim, sppk, npmax)
         SSIdat.mpe / SSIcov.mpe / pLSCF.mpe(sel_freq, order, rtol)           (the _MS classes inherit them)
    sens=False: the requests every case makes.  sens=True (cases that are also called POSITIONALLY): no value is the default of its
    parameter and a fall-back to a default / a swap of two neighbours changes the answer:
      FDD   requests 2-4 lines away from the peaks with a search band that does not reach them (the default 0.1 either reaches the peak
            or is narrower than a line);
      EFDD  cm=2 with MAClim=0.3 (second singular vectors take part), sppk / npmax of the case, DF1 != DF2 != defaults;
      SSI / pLSCF  first request 2 % off its mode with rtol=0.004 (not served; served with the default 0.05), integer / list order."""
    P = spec["P"]
    sel = [float(f) * kf for f in spec["sel"]]
    if fam in ("SSI", "pLSCF"):
        sel = [float(f) * kf for f in spec.get("sel_req", spec["sel"])]
        if sens:
            sel = [float(f) * kf * (1.02 if i == 0 else 1.0) for i, f in enumerate(spec["sel"])]
        o0 = P["order"] if fam == "SSI" else P["porder"]
        # (pLSCF_mpe with a per-mode list often meets an all-NaN order column and raises: the positional cases ask for one order there)
        order = [F.i(max(1, o0 - (i % 2))) for i in range(len(sel))] if P.get("order_mode") == "list" and not (sens and fam == "pLSCF") else o0
        return ["sel_freq", "order", "rtol"], [[F.f(x) for x in sel], order, F.f(0.004 if sens else P["rtol"])]
    if fam == "FDD":
        DF = P["DF"]
        if sens:
            df = spec["fs"] / P["nxseg"]
            DF = 1.2 * df
            if abs(DF - 0.1) < 1.5 * df:
                DF = 0.1 + 2.0 * df
            shift = DF + 1.3 * df
            sel = [(f + shift if f + shift < 0.45 * spec["fs"] else f - shift) * kf for f in spec["sel"]]
        return ["sel_freq", "DF"], [[F.f(x) for x in sel], F.f(DF * kf)]
    return (["sel_freq", "DF1", "DF2", "cm", "MAClim", "sppk", "npmax"],
            [[F.f(x) for x in sel], F.f(P["DF"] * kf), F.f(P["DF2"] * kf), F.i(2 if sens else 1), F.f(0.3 if sens else P["MAClim"]), F.i(P["sppk"]), F.i(P["npmax"])])


def run_alg(spec, inp, fs, kf, hold=None, reuse=None, same_setup=False, form=None, readonly=None, positional=False, sens=False):
    """Run one class through its setup on the (possibly transformed) input.  kf = factor applied to every frequency-valued
    ARGUMENT (sel_freq, DF...) - the same physical request expressed in the new time unit.
    hold: dict that receives the (setup, algorithm) objects.  reuse = such a pair: the SAME algorithm object (already run and
    queried) is attached to the new setup and run again; same_setup: it is simply run again on the setup it is attached to."""
    from pyoma2.setup import MultiSetup_PreGER, SingleSetup

    alg, P = spec["alg"], spec["P"]
    fam = family(alg)
    out = {}
    F = form or Form()
    readonly = spec.get("readonly", False) if readonly is None else readonly
    given = []

    def own(d):
        # the harness' own copy of a record, presented READ-ONLY in a share of the cases (np.load(mmap_mode="r"), broadcast views ...)
        d = keep_dtype(d)
        given.append((d, d.copy()))
        if readonly:
            d.setflags(write=False)
        return d
    try:
        if same_setup and reuse is not None:
            st, a = reuse
        else:
            if spec["setup"] == "single":
                st = SingleSetup(own(inp["data"]), F.f(fs)) if positional else SingleSetup(own(inp["data"]), fs=F.f(fs))
            elif positional:   # pristine order: MultiSetup_PreGER(fs, ref_ind, datasets)
                st = MultiSetup_PreGER(F.f(fs), [[F.i(x) for x in r] for r in inp["ref_ind"]], [own(d) for d in inp["datasets"]])
            else:
                st = MultiSetup_PreGER(fs=F.f(fs), ref_ind=[[F.i(x) for x in r] for r in inp["ref_ind"]], datasets=[own(d) for d in inp["datasets"]])
            a = reuse[1] if reuse is not None else make_alg(alg, P, inp.get("ref_ind") if spec["setup"] == "single" else None, kf, F, positional)
            if reuse is not None and fam == "SSI":
                a.run_params.hc = dict(a.run_params.hc, cov_max=P["hc"]["cov_max"] * kf * kf)
            st.add_algorithms(a)
        if hold is not None:
            hold["pair"] = (st, a)
        st.run_by_name("a")
    except Exception as e:  # noqa: BLE001
        return dict(exc="run:" + type(e).__name__)
    try:
        # the request list of the SSI / pLSCF classes may carry a frequency that has NO pole (mid-way between two modes): which requests
        # are served and how many modes come back must not depend on the time unit; order given as one int or as a per-mode list
        names, vals = mpe_request(spec, fam, kf, F, sens)
        if positional:
            st.mpe("a", *vals)
        else:
            st.mpe("a", **dict(zip(names, vals)))
        # what the class recorded as its mpe parameters (run_params.<name>; the SSI / pLSCF classes store order as order_in)
        def eqv(u, v):
            try:
                return bool(np.all(np.asarray(u) == np.asarray(v)))
            except Exception:  # noqa: BLE001
                return False
        out["rp_bad"] = [n for n, v in zip(names, vals) if not eqv(getattr(a.run_params, "order_in" if n == "order" else n, None), v)]
    except Exception as e:  # noqa: BLE001
        out["mpe_exc"] = type(e).__name__
    out["inputs_modified"] = any(not np.array_equal(d, d0) for d, d0 in given)
    r = a.result
    for k in FIELDS[fam]:
        v = getattr(r, k, None)
        if v is None or (k in ("Fn", "Xi", "Phi", "order_out", "Fn_cov", "Xi_cov") and "mpe_exc" in out):
            out[k] = None
        else:
            out[k] = np.array(v)
    return out


# ------------------------------------------------------------------------------------------------ transformations
def dof_labels(ref_ind, nchs, rho=None, perms=None):
    """Order of the rows of a PreGER result: references in listed order, then the roving channels of each setup in
    increasing channel index.  Labels are physical: ('r', a) = a-th reference of the ORIGINAL list, (i, c) = channel c of the
    ORIGINAL record i."""
    nref = len(ref_ind[0])
    rho = list(range(nref)) if rho is None else rho
    lab = [("r", rho[a]) for a in range(nref)]
    for i, n in enumerate(nchs):
        for j in range(n):
            if j not in ref_ind[i]:
                lab.append((i, j if perms is None else perms[i][j]))
    return lab


def apply_transform(spec, base_inp, T):
    """-> (input, fs factor, shape_map) ; shape_map(phi_old) = expected new shape up to one complex scalar."""
    t = T["t"]
    single = spec["setup"] == "single"
    inp = dict(base_inp)
    ident = lambda v: v  # noqa: E731
    if t == "gain":
        g = T["g"]
        if single:
            inp["data"] = base_inp["data"] * g
        else:
            inp["datasets"] = [d * g for d in base_inp["datasets"]]
        return inp, 1.0, ident
    if t == "fs":
        return inp, T["k"], ident
    if t in ("rerun", "optform"):
        return inp, 1.0, ident
    if t == "asf32":
        if single:
            inp["data"] = base_inp["data"].astype(np.float32)
        else:
            inp["datasets"] = [d.astype(np.float32) for d in base_inp["datasets"]]
        return inp, 1.0, ident
    if t in ("asfloat", "igain"):
        # integer records: the float image of the same counts / an integer gain applied in the record's own integer arithmetic
        def f(d):
            if t == "asfloat":
                return d.astype(float)
            out = d * d.dtype.type(T["g"])
            assert out.dtype == d.dtype and np.array_equal(out.astype(float), d.astype(float) * T["g"]), "generator: gain leaves the dtype's range"
            return out
        if single:
            inp["data"] = f(base_inp["data"])
        else:
            inp["datasets"] = [f(d) for d in base_inp["datasets"]]
        return inp, 1.0, ident
    if t == "refform":
        # the same reference channels written another way: negative indices (legal NumPy indexing) or the list reversed
        l = base_inp["data"].shape[1]
        ref = list(base_inp["ref_ind"])
        if T["form"] == "negative":
            inp["ref_ind"] = [int(r % l) - l if i % 2 == 0 else int(r % l) for i, r in enumerate(ref)]
        elif T["form"] == "positive":
            inp["ref_ind"] = [int(r % l) for r in ref]
        else:
            inp["ref_ind"] = ref[::-1]
        return inp, 1.0, ident
    rng = np.random.default_rng(T["seed"])
    if single:
        data = base_inp["data"]
        l = data.shape[1]
        ref = base_inp.get("ref_ind")
        if ref is not None:
            ref = [int(r % l) for r in ref]
        if t == "perm":
            p = rng.permutation(l)
            while l > 1 and np.all(p == np.arange(l)):
                p = rng.permutation(l)
            inp["data"] = data[:, p]
            if ref is not None:
                pinv = np.argsort(p)
                inp["ref_ind"] = [int(pinv[r]) for r in ref]
                if T.get("neg"):  # the mapped indices written as negative indices (every other one)
                    inp["ref_ind"] = [m - l if i % 2 else m for i, m in enumerate(inp["ref_ind"])]
            return inp, 1.0, (lambda v, p=p: v[p])
        # orthogonal mixing, block structured when a reference subset is in use
        Q = np.zeros((l, l))
        if ref is None:
            Q = rand_orth(rng, l)
        else:
            mov = [c for c in range(l) if c not in ref]
            Q[np.ix_(ref, ref)] = rand_orth(rng, len(ref))
            if mov:
                Q[np.ix_(mov, mov)] = rand_orth(rng, len(mov))
        inp["data"] = data @ Q.T
        return inp, 1.0, (lambda v, Q=Q: Q @ v)
    ds, ref = base_inp["datasets"], base_inp["ref_ind"]
    nref = len(ref[0])
    nchs = [d.shape[1] for d in ds]
    lab0 = dof_labels(ref, nchs)
    if t == "perm":
        perms = [rng.permutation(n) for n in nchs]
        rho = [int(x) for x in rng.permutation(nref)]
        nds, nref_ind = [], []
        for i, d in enumerate(ds):
            p = perms[i]
            pinv = np.argsort(p)
            nds.append(d[:, p])
            moved = [int(pinv[r]) for r in ref[i]]
            nref_ind.append([moved[rho[a]] for a in range(nref)])
        lab1 = dof_labels(nref_ind, nchs, rho=rho, perms=perms)
        idx = np.array([lab0.index(x) for x in lab1])
        inp["datasets"], inp["ref_ind"] = nds, nref_ind
        return inp, 1.0, (lambda v, idx=idx: v[idx])
    Qr = rand_orth(rng, nref)
    blocks = [Qr]
    nds = []
    for i, d in enumerate(ds):
        mov = [c for c in range(nchs[i]) if c not in ref[i]]
        Qm = rand_orth(rng, len(mov))
        nd = np.array(d)
        nd[:, ref[i]] = d[:, ref[i]] @ Qr.T
        if mov:
            nd[:, mov] = d[:, mov] @ Qm.T
        nds.append(nd)
        blocks.append(Qm)
    Qall = sla.block_diag(*[b for b in blocks if b.size])
    inp["datasets"] = nds
    return inp, 1.0, (lambda v, Q=Qall: Q @ v)


# ------------------------------------------------------------------------------------------------ comparisons
class Rec:
    def __init__(self, spec):
        self.spec = spec
        self.fails = []
        self.not_judged = 0
        self.notes = []
        self.checked = 0
        self.maxdev = 0.0
        self.cells = 0      # lenient pass: pole-table cells actually compared ...
        self.nj_cells = 0   # ... and cells set aside (NaN pattern / unmatched)
        self.lenient = False  # second pass of an attributed finding: NaN-pattern / unmatched-pole differences are not judged

    def fail(self, what, site, extra=None, key=None):
        case = {k: v for k, v in self.spec.items()}
        if extra:
            case["detail"] = extra
        self.fails.append(dict(kind="oracle", what=what, case=case, key=key or "C08:%s:%s" % (self.spec["alg"], site)))


def nanpat(a):
    a = np.asarray(a)
    return np.isnan(a.real) | (np.isnan(a.imag) if np.iscomplexobj(a) else False)


def cmp_exact(rec, name, Tn, exp, got, site, tol=TOL_A):
    """tier A element-wise comparison with equal NaN patterns."""
    if exp is None and got is None:
        return True
    if rec.lenient and (exp is None or got is None or np.shape(exp) != np.shape(got)):
        rec.not_judged += 1
        return True
    if exp is None or got is None or np.shape(exp) != np.shape(got):
        rec.fail("%s under %s: shape/presence differs (%s vs %s)" % (name, Tn, None if exp is None else np.shape(exp), None if got is None else np.shape(got)), site + ":" + name + "-shape")
        return False
    pe, pg = nanpat(exp), nanpat(got)
    if rec.lenient:
        rec.not_judged += int(np.sum(pe != pg))
        if name in ("Fn_poles", "Xi_poles"):
            rec.nj_cells += int(np.sum(pe != pg))
            rec.cells += int(np.sum(~(pe | pg)))
        pe = pe | pg
        tol = max(tol, 1e-9)
    elif not np.array_equal(pe, pg):
        rec.fail("%s under %s: NaN pattern differs at %d cells" % (name, Tn, int(np.sum(pe != pg))), site + ":" + name + "-nan")
        return False
    m = ~pe
    if not m.any():
        return True
    e, g = np.asarray(exp)[m], np.asarray(got)[m]
    if not (np.all(np.isfinite(e)) and np.all(np.isfinite(g))):
        if not np.array_equal(np.isfinite(e), np.isfinite(g)):
            rec.fail("%s under %s: infinities differ" % (name, Tn), site + ":" + name + "-inf")
            return False
        f = np.isfinite(e)
        e, g = e[f], g[f]
        if e.size == 0:
            return True
    scale = float(np.max(np.abs(e)))
    dev = float(np.max(np.abs(e - g)))
    rec.checked += 1
    if scale > 0:
        rec.maxdev = max(rec.maxdev, dev / scale)
    if dev > tol * scale + 1e-300:
        rec.fail("%s under %s: relative deviation %.3g > %g" % (name, Tn, dev / max(scale, 1e-300), tol), site + ":" + name)
        return False
    return True


def cmp_prop(rec, name, Tn, base, got, site, tol):
    """equal up to ONE positive factor (the property does not pin the level of spectra)."""
    if base is None and got is None:
        return
    if base is None or got is None or np.shape(base) != np.shape(got):
        rec.fail("%s under %s: shape/presence differs" % (name, Tn), site + ":" + name + "-shape")
        return
    b, g = np.asarray(base).ravel(), np.asarray(got).ravel()
    if not np.array_equal(np.isfinite(b), np.isfinite(g)):
        rec.fail("%s under %s: NaN/inf pattern differs" % (name, Tn), site + ":" + name + "-nan")
        return
    f = np.isfinite(b)
    b, g = b[f], g[f]
    den = np.vdot(b, b).real
    if den == 0:
        return
    c = np.vdot(b, g) / den
    dev = float(np.max(np.abs(g - c * b)))
    scale = float(np.max(np.abs(g)))
    rec.checked += 1
    if abs(c.imag) > tol * abs(c) or c.real <= 0 or dev > tol * scale:
        rec.fail("%s under %s: not proportional to the untransformed one (factor %s, residual %.3g)" % (name, Tn, c, dev / max(scale, 1e-300)), site + ":" + name)


def sc_cell(Fn, Xi, Phi, i, o):
    """Independent evaluation of the three stability quantities of cell (i, o) against column o-1."""
    f, x = Fn[i, o], Xi[i, o]
    prev = Fn[:, o - 1]
    if np.isnan(f) or np.all(np.isnan(prev)):
        return None
    j = int(np.nanargmin(np.abs(prev - f)))
    c1 = abs(f - prev[j]) / f
    c2 = abs(x - Xi[j, o - 1]) / x
    u, v = Phi[i, o, :], Phi[j, o - 1, :]
    mac = abs(np.vdot(u, v)) ** 2 / (np.vdot(u, u).real * np.vdot(v, v).real)
    return c1, c2, 1 - mac


def cmp_lab(rec, Tn, base, got, sc, site, exact_tables):
    if rec.lenient:
        return
    Lb, Lg = base.get("Lab"), got.get("Lab")
    if Lb is None or Lg is None or Lb.shape != Lg.shape:
        rec.fail("Lab under %s: shape/presence differs" % Tn, site + ":Lab-shape")
        return
    if np.array_equal(Lb, Lg):
        return
    if exact_tables:
        rec.fail("Lab under %s: differs at %d cells although the pole tables are identical" % (Tn, int(np.sum(Lb != Lg))), site + ":Lab")
        return
    for i, o in np.argwhere(Lb != Lg):
        near = False
        if o >= 1:
            for tab in (base, got):
                c = sc_cell(tab["Fn_poles"], tab["Xi_poles"], tab["Phi_poles"], i, o)
                if c is not None and any(abs(ci - lim) <= 1e-9 * lim for ci, lim in zip(c, (sc["err_fn"], sc["err_xi"], sc["err_phi"]))):
                    near = True
        if near:
            rec.not_judged += 1
        else:
            rec.fail("Lab under %s: cell (%d,%d) %d -> %d away from every stability threshold" % (Tn, i, o, Lb[i, o], Lg[i, o]), site + ":Lab")
            return


def unit_max_check(rec, name, Tn, Phi, site, tol=1e-12):
    """every reported shape: the component of largest modulus equals 1+0j.  Phi[..., channel] rows or columns."""
    if Phi is None:
        return
    P = np.asarray(Phi)
    if P.size == 0:
        return
    if P.ndim == 1:
        P = P[None, :]
    P = P.reshape(-1, P.shape[-1])
    ok = ~np.any(nanpat(P), axis=1)
    P = P[ok]
    if P.size == 0:
        return
    k = np.argmax(np.abs(P), axis=1)
    piv = P[np.arange(len(P)), k]
    dev = np.abs(piv - 1.0)
    rec.checked += 1
    if np.any(~np.isfinite(dev)) or float(np.max(dev)) > tol:
        j = int(np.nanargmax(np.where(np.isfinite(dev), dev, np.inf)))
        rec.fail("%s under %s: largest-magnitude component of a reported shape is %s, not 1" % (name, Tn, complex(piv[j])), site + ":unit-max:" + name,
                 extra=dict(shape=[[float(z.real), float(z.imag)] for z in P[j]]))


def shape_dev(exp, got):
    """distance of two shapes up to one complex scalar, after normalising both at the largest component of exp."""
    k = int(np.argmax(np.abs(exp)))
    if exp[k] == 0 or got[k] == 0:
        return np.inf
    return float(np.max(np.abs(exp / exp[k] - got / got[k])))


def hc_margin(P, xi, phi, fcov=None, covmax=None):
    """how close a pole is to one of the hard-criteria limits (relative)."""
    from pyoma2.functions import gen

    hc = P["hc"]
    m = [abs(xi) / 1.0, abs(xi - hc["xi_max"]) / hc["xi_max"]]
    if fcov is not None and covmax and np.isfinite(fcov):
        m.append(abs(fcov - covmax) / covmax * (NEAR / TOL_COV))   # not judged within TOL_COV of the covariance limit
    try:
        if hc["mpc_lim"] > 0:
            m.append(abs(float(gen.MPC(phi)) - hc["mpc_lim"]) / hc["mpc_lim"])
        if hc["mpd_lim"] < 1.6:
            m.append(abs(float(gen.MPD(phi)) - hc["mpd_lim"]) / hc["mpd_lim"])
    except Exception:  # noqa: BLE001
        return 0.0
    return min(m)


def cmp_poles_multiset(rec, Tn, base, got, kf, smap, site, P):
    """tier B: per model order, poles matched as multisets."""
    Fb, Xb, Pb = base.get("Fn_poles"), base.get("Xi_poles"), base.get("Phi_poles")
    Fg, Xg, Pg = got.get("Fn_poles"), got.get("Xi_poles"), got.get("Phi_poles")
    if any(x is None for x in (Fb, Xb, Pb, Fg, Xg, Pg)) or Fb.shape != Fg.shape or Pb.shape != Pg.shape or Xb.shape != Xg.shape:
        rec.fail("pole tables under %s: shape/presence differs" % Tn, site + ":poles-shape")
        return
    for name, A_, B_ in (("Xi_poles", Fb, Xb), ("Phi_poles", Fb, Pb[:, :, 0]), ("Xi_poles'", Fg, Xg), ("Phi_poles'", Fg, Pg[:, :, 0])):
        if not np.array_equal(nanpat(A_), nanpat(B_)):
            rec.fail("%s under %s: NaN pattern differs from that of Fn_poles in the same run" % (name, Tn), site + ":joint-nan")
            return
    Cb, Cg, XCb, XCg = base.get("Fn_poles_cov"), got.get("Fn_poles_cov"), base.get("Xi_poles_cov"), got.get("Xi_poles_cov")
    if (Cb is None) != (Cg is None) or (Cb is not None and Cb.shape != Cg.shape):
        rec.fail("covariance tables under %s: shape/presence differs" % Tn, site + ":poles_cov-shape")
        return
    for o in range(Fb.shape[1]):
        ib = [i for i in range(Fb.shape[0]) if not np.isnan(Fb[i, o])]
        ig = [i for i in range(Fg.shape[0]) if not np.isnan(Fg[i, o])]
        used = set()
        unmatched_b = []
        for i in ib:
            best, bj = None, None
            for j in ig:
                if j in used:
                    continue
                d = abs(Fg[j, o] - kf * Fb[i, o]) / (kf * Fb[i, o]) + abs(Xg[j, o] - Xb[i, o])
                if best is None or d < best:
                    best, bj = d, j
            if bj is not None and abs(Fg[bj, o] - kf * Fb[i, o]) <= TOL_B * kf * Fb[i, o] and abs(Xg[bj, o] - Xb[i, o]) <= TOL_B:
                # several poles may share (fn, xi) numerically (conjugates are removed by the code or kept as pairs): take the
                # candidate with the closest shape among those within tolerance
                cands = [j for j in ig if j not in used and abs(Fg[j, o] - kf * Fb[i, o]) <= TOL_B * kf * Fb[i, o] and abs(Xg[j, o] - Xb[i, o]) <= TOL_B]
                e = smap(Pb[i, o, :])
                sd = [(shape_dev(e, Pg[j, o, :]), j) for j in cands]
                sdev, bj = min(sd)
                used.add(bj)
                rec.checked += 1
                rec.cells += 2
                rec.maxdev = max(rec.maxdev, abs(Fg[bj, o] - kf * Fb[i, o]) / (kf * Fb[i, o]))
                try:
                    rank_bound = 2 * int((rec.spec or {}).get("nmodes"))
                except Exception:
                    rank_bound = None
                if Cb is not None and Cg is not None and (rank_bound is None or o <= rank_bound):
                    # (above the exact rank of the record the sensitivities of the surplus poles go through a singular inverse: 19 % seen on
                    # an order-8 pole of a two-mode record under a re-ordering of the references - the property does not speak of variances)
                    # covariance tables (calc_unc): variance of fn scales with kf^2; the damping table is compared when the time unit is kept
                    cb, cg = Cb[i, o] * kf * kf, Cg[bj, o]
                    bad = (np.isnan(cb) != np.isnan(cg)) or (np.isfinite(cb) and not abs(cg - cb) <= TOL_COV * abs(cb))
                    if not bad and kf == 1.0 and XCb is not None and XCg is not None:
                        xb_, xg_ = XCb[i, o], XCg[bj, o]
                        bad = (np.isnan(xb_) != np.isnan(xg_)) or (np.isfinite(xb_) and not abs(xg_ - xb_) <= TOL_XCOV * abs(xb_))
                    if bad:
                        rec.fail("covariance tables under %s: order column %d, pole fn=%.6g: Fn_poles_cov %.6g -> %.6g (expected x %g), Xi_poles_cov %s -> %s" % (
                            Tn, o, Fb[i, o], Cb[i, o], cg, kf * kf, None if XCb is None else XCb[i, o], None if XCg is None else XCg[bj, o]), site + ":poles_cov")
                        return
                if sdev > TOL_B:
                    # a conjugate pair shares (fn, xi) and has conjugate shapes
                    if min(shape_dev(np.conj(e), Pg[j, o, :]) for j in cands) <= TOL_B:
                        continue
                    rec.fail("Phi_poles under %s: order column %d, pole fn=%.6g: shape is not the %s of the untransformed one (deviation %.3g)" % (
                        Tn, o, Fb[i, o], "permuted/rotated image" if Tn.startswith(("perm", "mix")) else "same as that", sdev), site + ":Phi_poles")
                    return
            else:
                unmatched_b.append(i)
        unmatched_g = [j for j in ig if j not in used]
        for who, idx, F_, X_, Ph_, C_, cm_ in (("untransformed", unmatched_b, Fb, Xb, Pb, Cb, P["hc"]["cov_max"]),
                                               ("transformed", unmatched_g, Fg, Xg, Pg, Cg, P["hc"]["cov_max"] * kf * kf)):
            for i in idx:
                if rec.lenient or hc_margin(P, X_[i, o], Ph_[i, o, :], None if C_ is None else C_[i, o], cm_) <= NEAR:
                    rec.not_judged += 1
                    rec.nj_cells += 1
                    continue
                rec.fail("pole tables under %s: order column %d: pole (fn=%.8g, xi=%.6g) of the %s run has no counterpart within 1e-6 (expected fn %s %g)" % (
                    Tn, o, F_[i, o], X_[i, o], who, "*" if who == "untransformed" else "/", kf), site + ":poles")
                return


KEY_COR = "C08:pLSCF:cor-window-term-not-in-time-unit"


def defect_prediction(base, kf, c):
    """What plscf.ac2mp_poly's 'cor' branch produces when the samples are declared kf times faster: it subtracts the constant
    c = 1/tau (tau in SAMPLES) from poles expressed in rad/s, so lam' = kf (lam + c) - c instead of kf lam.  Returned tables are
    divided by kf again because the comparison multiplies frequencies by kf."""
    b = dict(base)
    for fk, xk in (("Fn_poles", "Xi_poles"), ("Fn", "Xi")):
        F, X = base.get(fk), base.get(xk)
        if F is None or X is None or np.shape(F) != np.shape(X):
            continue
        lam = 2 * np.pi * F * (-X + 1j * np.sqrt(1 - X**2))
        mu = kf * (lam + c) - c
        b[fk] = np.abs(mu) / (2 * np.pi) / kf
        b[xk] = -mu.real / np.abs(mu)
    return b


def compare(rec, spec, base, got, T, kf, smap):
    """Relates one transformed run to the untransformed one.  One configuration is attributed: pLSCF family + correlogram
    spectra + change of sampling rate (see KEY_COR), and only when the function-level probe (probe_cor) has just shown that
    plscf.ac2mp_poly itself mis-scales the window term: if the runs are NOT related as the property says and nothing contradicts
    the relation that the mis-scaled term predicts, the case is reported under KEY_COR; anything else keeps its own key."""
    P = spec["P"]
    if spec.get("attrib_cor") and family(spec["alg"]) == "pLSCF" and P["method_SD"] == "cor" and T["t"] == "fs" and "exc" not in base and "exc" not in got:
        r1 = Rec(rec.spec)
        compare_core(r1, spec, base, got, T, kf, smap)
        if r1.fails:
            r2 = Rec(rec.spec)
            r2.lenient = True
            c = -np.log(0.01) / (P["nxseg"] - 1)
            compare_core(r2, spec, defect_prediction(base, kf, c), got, T, kf, smap)
            if not r2.fails:
                rec.fail("pLSCF family with method_SD='cor': declaring the same samples at %g x the sampling frequency does not multiply the poles by %g "
                         "(%s); the tables are reproduced exactly by lam' = k (lam + 1/tau) - 1/tau, i.e. plscf.ac2mp_poly subtracts 1/tau with tau in "
                         "samples from poles in rad/s" % (kf, kf, r1.fails[0]["what"]), "fs", key=KEY_COR)
                rec.not_judged += r2.not_judged
                rec.checked += r2.checked
                return
        rec.fails += r1.fails
        rec.not_judged += r1.not_judged
        rec.checked += r1.checked
        rec.maxdev = max(rec.maxdev, r1.maxdev)
        return
    compare_core(rec, spec, base, got, T, kf, smap)


def compare_core(rec, spec, base, got, T, kf, smap):
    fam = family(spec["alg"])
    tier = spec["tier"]
    Tn = T["t"]
    site = Tn + ("%+d" % T["g"] if Tn == "igain" else "") + ("-reuse" if T.get("reuse") and Tn != "rerun" else "") + ("-" + T["form"] if Tn == "refform" else "") + ("-neg" if T.get("neg") else "")
    if Tn == "asf32":
        cmp_f32(rec, spec, base, got, site)
        return
    if Tn == "optform":
        site = "optform-" + T["form"]
    if Tn in ("rerun", "optform") or (Tn == "refform" and T["form"] in ("negative", "positive")):
        tier = "A"   # the very same computation: identical results whatever the record
    if T.get("cmp"):
        tier = T["cmp"]
    Tn = site        # wording of the messages ("fs-reuse" = same algorithm object attached to the second setup)
    P = spec["P"]
    if ("exc" in base) or ("exc" in got):
        if base.get("exc") != got.get("exc"):
            rec.fail("run under %s: exception %s vs %s on the untransformed input" % (Tn, got.get("exc"), base.get("exc")), site + ":exception")
        return
    if base.get("mpe_exc") != got.get("mpe_exc"):
        if tier == "A" and not rec.lenient:
            rec.fail("mpe under %s: exception %s vs %s on the untransformed input" % (Tn, got.get("mpe_exc"), base.get("mpe_exc")), site + ":mpe-exception")
        else:
            rec.not_judged += 1
    for nm in ("Phi_poles", "Phi"):
        v = got.get(nm)
        if v is not None:
            unit_max_check(rec, nm, Tn, v if nm == "Phi_poles" else np.asarray(v).T, site)
    if tier == "A":
        ok = True
        if fam in ("FDD", "EFDD", "pLSCF"):
            cmp_exact(rec, "freq", Tn, kf * base["freq"], got["freq"], site)
            cmp_prop(rec, "Sy", Tn, base["Sy"], got["Sy"], site, TOL_A)
        if fam in ("FDD", "EFDD"):
            cmp_prop(rec, "S_val", Tn, base["S_val"], got["S_val"], site, TOL_A)
            cmp_exact(rec, "S_vec", Tn, base["S_vec"], got["S_vec"], site)
        if fam in ("SSI", "pLSCF"):
            ok &= cmp_exact(rec, "Fn_poles", Tn, kf * base["Fn_poles"], got["Fn_poles"], site)
            ok &= cmp_exact(rec, "Xi_poles", Tn, base["Xi_poles"], got["Xi_poles"], site)
            ok &= cmp_exact(rec, "Phi_poles", Tn, base["Phi_poles"], got["Phi_poles"], site)
            if fam == "SSI":
                cmp_exact(rec, "Lambds", Tn, kf * base["Lambds"], got["Lambds"], site)
                # covariance tables (calc_unc): Fn_poles_cov is a variance of frequencies (x kf^2); the damping table as the code
                # stores it is compared up to one factor when the time unit changes, exactly otherwise
                for nm_ in ("Fn_poles_cov", "Fn_cov"):
                    cmp_exact(rec, nm_, Tn, None if base.get(nm_) is None else kf * kf * base[nm_], got.get(nm_), site)
                for nm_ in ("Xi_poles_cov", "Xi_cov"):
                    if kf == 1.0:
                        cmp_exact(rec, nm_, Tn, base.get(nm_), got.get(nm_), site)
                    elif base.get(nm_) is not None or got.get(nm_) is not None:
                        cmp_prop(rec, nm_, Tn, base.get(nm_), got.get(nm_), site, 1e-9)
            if ok:
                exact = all(np.array_equal(kf * base[k] if k == "Fn_poles" else base[k], got[k], equal_nan=True) for k in ("Fn_poles", "Xi_poles", "Phi_poles"))
                cmp_lab(rec, Tn, base, got, P["sc"], site, exact)
            cmp_exact(rec, "order_out", Tn, None if base["order_out"] is None else np.asarray(base["order_out"], dtype=float),
                      None if got["order_out"] is None else np.asarray(got["order_out"], dtype=float), site)
        # EFDD / FSDD damping comes out of scipy.optimize.curve_fit (iterative, ftol = 1e-8): reproducible to ~1e-10 only
        tol_e = TOL_EFDD if fam == "EFDD" else TOL_A
        cmp_exact(rec, "Fn", Tn, None if base["Fn"] is None else kf * base["Fn"], got["Fn"], site, tol_e)
        if fam != "FDD":
            cmp_exact(rec, "Xi", Tn, base["Xi"], got["Xi"], site, tol_e)
        cmp_exact(rec, "Phi", Tn, base["Phi"], got["Phi"], site)
        return
    # ---- tier B
    if fam in ("FDD", "EFDD", "pLSCF"):
        cmp_exact_b(rec, "freq", Tn, kf * base["freq"], got["freq"], site)
    if fam in ("FDD", "EFDD"):
        # singular values of the spectral matrix are invariant (up to the free level factor)
        cmp_prop(rec, "S_val", Tn, base["S_val"], got["S_val"], site, TOL_B)
        if T["t"] in ("gain", "fs", "igain", "asfloat"):
            cmp_prop(rec, "Sy", Tn, base["Sy"], got["Sy"], site, TOL_B)
        elif spec["setup"] == "single":
            cmp_sy_mapped(rec, Tn, base["Sy"], got["Sy"], smap, site)
    if fam == "pLSCF" and spec["setup"] == "single":
        if T["t"] in ("gain", "fs", "igain", "asfloat"):
            cmp_prop(rec, "Sy", Tn, base["Sy"], got["Sy"], site, TOL_B)
        else:
            cmp_sy_mapped(rec, Tn, base["Sy"], got["Sy"], smap, site)
    if fam in ("SSI", "pLSCF"):
        cmp_poles_multiset(rec, Tn, base, got, kf, smap, site, P)
    # extracted modes
    Fb, Fg = base.get("Fn"), got.get("Fn")
    if Fb is None or Fg is None:
        if (Fb is None) != (Fg is None):
            rec.not_judged += 1
        return
    if Fb.shape != Fg.shape:
        if rec.lenient:
            rec.not_judged += 1
        else:
            rec.fail("Fn under %s: %d modes extracted vs %d" % (Tn, len(Fg), len(Fb)), site + ":Fn-shape")
        return
    if len(Fb) == 0:
        return
    if fam == "EFDD":
        # a DEGENERATE correlation fit (non-positive frequency or damping: the extrema search landed on ties of the normalised
        # correlation, decided at rounding level) is not an identified mode: such modes are not judged under non-dyadic changes
        Xb0, Xg0 = base.get("Xi"), got.get("Xi")
        if Xb0 is not None and Xg0 is not None and Xb0.shape == Fb.shape and Xg0.shape == Fg.shape:
            good = (Fb > 0) & (Fg > 0) & (Xb0 > 0) & (Xg0 > 0) & (Xb0 < 1) & (Xg0 < 1)
            if not good.all():
                rec.not_judged += int(np.sum(~good))
                if not good.any():
                    return
                base = dict(base, Fn=Fb[good], Xi=Xb0[good], Phi=None if base.get("Phi") is None else base["Phi"][:, good])
                got = dict(got, Fn=Fg[good], Xi=Xg0[good], Phi=None if got.get("Phi") is None else got["Phi"][:, good])
                Fb, Fg = base["Fn"], got["Fn"]
    dev = np.max(np.abs(Fg - kf * Fb) / (kf * np.abs(Fb)))
    rec.checked += 1
    if dev > TOL_B:
        rec.fail("Fn under %s: extracted frequencies deviate by %.3g (relative) from %g x the untransformed ones" % (Tn, dev, kf), site + ":Fn")
        return
    if fam != "FDD":
        Xb_, Xg_ = base.get("Xi"), got.get("Xi")
        if Xb_ is not None and Xg_ is not None and Xb_.shape == Xg_.shape and len(Xb_):
            d = float(np.max(np.abs(Xg_ - Xb_)))
            tolx = TOL_B if fam != "EFDD" else 1e-5
            if d > tolx * max(1.0, float(np.max(np.abs(Xb_))) / 0.01):
                rec.fail("Xi under %s: extracted damping ratios change by %.3g" % (Tn, d), site + ":Xi")
                return
    Pb_, Pg_ = base.get("Phi"), got.get("Phi")
    if Pb_ is not None and Pg_ is not None and Pb_.ndim == 2 and Pg_.shape == Pb_.shape:
        for m in range(Pb_.shape[1]):
            e = smap(Pb_[:, m])
            sdev = shape_dev(e, Pg_[:, m])
            if fam in ("SSI", "pLSCF"):
                sdev = min(sdev, shape_dev(np.conj(e), Pg_[:, m]))
            rec.checked += 1
            if sdev > (TOL_B if fam in ("SSI", "pLSCF") else 1e-5):
                rec.fail("Phi under %s: extracted shape %d is not the %s of the untransformed one (deviation %.3g)" % (
                    Tn, m, "permuted/rotated image" if Tn.startswith(("perm", "mix")) else "same as that", sdev), site + ":Phi")
                return


def cmp_f32(rec, spec, base, got, site):
    """The same record stored as float32: the library then works (partly) in single precision.  Judged only as far as that
    precision allows, on low-noise records: the run completes like the float64 one, the extracted modes agree (observed on the
    unchanged tree: fn 6e-5, xi 4e-5, shapes 4e-3 at worst) and the singular values of the spectra agree to 1e-3."""
    if base.get("exc") != got.get("exc"):
        rec.fail("float32 record: run raises %s, the float64 image %s" % (got.get("exc"), base.get("exc")), site + ":exception")
        return
    if base.get("exc"):
        return
    fam = family(spec["alg"])
    if fam in ("FDD", "EFDD") and not spec["alg"].endswith("_MS"):
        # single-setup spectra only: the merged multi-setup spectra invert the reference block on every line, which amplifies the
        # single-precision rounding of the stored record by that block's condition number (0.8 % seen on a noisy 600-sample record) -
        # the property says nothing about storage precision, so nothing is demanded there beyond the extracted modes below
        cmp_prop(rec, "S_val", "asf32", base["S_val"], got["S_val"], site, 1e-3)
    Fb, Fg = base.get("Fn"), got.get("Fn")
    if Fb is None or Fg is None or Fb.shape != Fg.shape or Fb.size == 0:
        rec.not_judged += 1
        return
    rec.checked += 1
    ok = (Fb > 0) & (Fg > 0)
    Xb, Xg = base.get("Xi"), got.get("Xi")
    if fam == "EFDD" and Xb is not None and Xg is not None:
        ok &= (Xb > 0) & (Xg > 0) & (Xb < 1) & (Xg < 1)
    if not ok.any():
        rec.not_judged += 1
        return
    if np.max(np.abs(Fg[ok] / Fb[ok] - 1)) > 1e-3:
        rec.fail("float32 record: extracted frequencies deviate by %.3g (relative) from those of the float64 image" % np.max(np.abs(Fg[ok] / Fb[ok] - 1)), site + ":Fn")
        return
    if fam != "FDD" and Xb is not None and Xg is not None and Xb.shape == Xg.shape and np.max(np.abs(Xg[ok] - Xb[ok])) > 2e-3:
        rec.fail("float32 record: extracted damping ratios change by %.3g" % np.max(np.abs(Xg[ok] - Xb[ok])), site + ":Xi")
        return
    Pb, Pg = base.get("Phi"), got.get("Phi")
    if Pb is not None and Pg is not None and Pb.shape == Pg.shape and Pb.ndim == 2:
        for m in np.where(ok)[0]:
            sd = min(shape_dev(Pb[:, m], Pg[:, m]), shape_dev(np.conj(Pb[:, m]), Pg[:, m]))
            if sd > 5e-2:
                rec.fail("float32 record: extracted shape %d deviates by %.3g from that of the float64 image" % (m, sd), site + ":Phi")
                return
        unit_max_check(rec, "Phi", "asf32", np.asarray(Pg).T[ok], site, tol=1e-5)


def cmp_sy_mapped(rec, Tn, Sb, Sg, smap, site):
    """spectral matrix of the permuted / mixed channels: Q Sy Q^T on every line (smap is the linear map v -> Q v)."""
    if Sb is None or Sg is None or Sb.shape != Sg.shape:
        rec.fail("Sy under %s: shape/presence differs" % Tn, site + ":Sy-shape")
        return
    l = Sb.shape[0]
    Q = np.array([smap(np.eye(l)[:, c]) for c in range(l)]).T
    E = np.einsum("ac,cdf,bd->abf", Q, Sb, Q)
    scale = float(np.max(np.abs(E)))
    dev = float(np.max(np.abs(E - Sg)))
    rec.checked += 1
    if dev > TOL_B * scale:
        rec.fail("Sy under %s: not the permuted / rotated spectral matrix (deviation %.3g)" % (Tn, dev / scale), site + ":Sy")


def cmp_exact_b(rec, name, Tn, exp, got, site):
    if exp is None or got is None or np.shape(exp) != np.shape(got):
        rec.fail("%s under %s: shape/presence differs" % (name, Tn), site + ":" + name + "-shape")
        return
    scale = float(np.max(np.abs(exp))) or 1.0
    if float(np.max(np.abs(np.asarray(exp) - np.asarray(got)))) > 1e-9 * scale:
        rec.fail("%s under %s: differs from the expected grid" % (name, Tn), site + ":" + name)


# ------------------------------------------------------------------------------------------------ positional call forms
MPE_FIELDS = ("Fn", "Xi", "Phi", "order_out", "Fn_cov", "Xi_cov", "mpe")
CLS_NAME = dict(SSIcov_mm="SSIcov", SSIcov_R="SSIcov", SSIcov_mm_unc="SSIcov", SSIcov_MS_mm="SSIcov_MS", SSIcov_MS_R="SSIcov_MS")
MPE_OWNER = dict(FDD="FDD", EFDD="EFDD", SSI="SSIdat", pLSCF="pLSCF")   # the class that DEFINES mpe in the pristine hierarchy (one defect, one key)


def positional_check(rec, spec, base_inp, fs0):
    """A share of the cases: the same class is driven once more through the documented POSITIONAL forms, in the parameter order of the
    pristine signatures (hard-coded in run_alg / make_alg / mpe_request):
        SingleSetup(data, fs)   MultiSetup_PreGER(fs, ref_ind, datasets)   <Class>(run_params, name)   setup.mpe(name, *mpe arguments)
    with the mpe values of mpe_request(sens=True), on the record x16 declared at x4 the sampling frequency (both commute exactly with
    the pipeline), and is related to the KEYWORD-form run on the untransformed record as the property says (tier-A comparison: whole
    tables x4 / unchanged at 1e-12, equal NaN patterns, unit-max shapes).  A parameter inserted in the middle of a signature or two
    swapped parameters leave every keyword call alone and bind the positional values elsewhere."""
    # same record, same sampling frequency: the two call forms then run the identical computation (a comparison across a gain / time-unit
    # change at 1e-12 proved too tight for covariance tables of noisy records: 1.1e-12 on a behaviour-preserving rewrite of build_hank)
    kf, g = 1.0, 1.0
    kw = run_alg(spec, base_inp, fs0, 1.0, sens=True)
    inp = dict(base_inp)
    if spec["setup"] == "single":
        inp["data"] = base_inp["data"] * g
    else:
        inp["datasets"] = [d * g for d in base_inp["datasets"]]
    ps = run_alg(spec, inp, fs0 * kf, kf, sens=True, positional=True)
    r = Rec(rec.spec)
    compare(r, spec, kw, ps, dict(t="fs", k=kf, cmp="A"), kf, lambda v: v)
    if not r.fails and "mpe_exc" not in kw and "mpe_exc" not in ps and not kw.get("rp_bad") and ps.get("rp_bad"):
        r.fail("run_params records other values than those passed for %s" % ps["rp_bad"], "fs:mpe")
    rec.checked += r.checked
    rec.not_judged += r.not_judged
    own = [f for f in r.fails if f["key"] == KEY_COR]
    rest = [f for f in r.fails if f["key"] != KEY_COR]
    rec.fails += own
    if rest:
        cls = CLS_NAME.get(spec["alg"], spec["alg"])
        names = {f["key"].split(":")[-1].split("-")[0] for f in rest}
        if names <= set(MPE_FIELDS):
            entry = MPE_OWNER[family(spec["alg"])] + ".mpe"
            form = cls + ": setup.mpe('a', %s) given positionally" % ", ".join(mpe_request(spec, family(spec["alg"]), 1.0, Form(), True)[0])
        else:
            entry = ("SingleSetup" if spec["setup"] == "single" else "MultiSetup_PreGER") + "+BaseAlgorithm.__init__"
            form = "%s, %s(run_params, name) built positionally" % ("SingleSetup(data, fs)" if spec["setup"] == "single" else "MultiSetup_PreGER(fs, ref_ind, datasets)", cls)
        rec.fail("%s: the positional call is not the keyword call with the same values (record x16 at x4 the sampling frequency vs the untransformed "
                 "keyword run: %s%s)" % (form, rest[0]["what"], "; +%d more" % (len(rest) - 1) if len(rest) > 1 else ""), "", key="C08:%s:positional-call" % entry)


# ------------------------------------------------------------------------------------------------ one case (worker)
def run_case(spec):
    import logging
    import warnings

    warnings.filterwarnings("ignore")
    import common as _common

    _common.quiet_debug_logging()
    rec = Rec(spec)
    try:
        d = build_case_data(spec)
        fs0 = spec["fs"]
        spec = dict(spec)
        spec["sel"] = [float(f) * fs0 for f in d["fr"][: spec.get("nsel", len(d["fr"]))]]
        if spec["P"].get("sel_extra") and len(d["fr"]) >= 2:
            # one more request, placed mid-way between the two lowest modes (>= 0.05 cycles/sample apart): usually no pole there
            spec["sel_req"] = [spec["sel"][0], 0.5 * (spec["sel"][0] + spec["sel"][1])] + spec["sel"][1:]
        rec.spec = {k: v for k, v in spec.items()}
        if spec["setup"] == "single":
            base_inp = dict(data=d["data"])
            if spec.get("ref_ind") is not None:
                base_inp["ref_ind"] = list(spec["ref_ind"])
        else:
            base_inp = dict(datasets=d["datasets"], ref_ind=d["ref_ind"])
        if spec["P"].get("cov_q") is not None:
            # a cov_max that BITES: between two neighbouring values of the covariance table obtained without the criterion
            Pq = dict(spec["P"], hc=dict(spec["P"]["hc"], cov_max=1e300))
            pre = run_alg(dict(spec, P=Pq), base_inp, fs0, 1.0)
            vals = np.sort(pre["Fn_poles_cov"][np.isfinite(pre["Fn_poles_cov"])]) if pre.get("Fn_poles_cov") is not None else np.array([])
            vals = vals[vals > 0]
            cm = None
            j0 = int(spec["P"]["cov_q"] * len(vals))
            for j in list(range(j0, len(vals) - 1)) + list(range(j0 - 1, -1, -1)):
                if vals[j + 1] > vals[j] * 1.3:   # a clear gap: the limit sits >= 14 % away from every value of the table
                    cm = float(np.sqrt(vals[j] * vals[j + 1]))
                    break
            spec["P"] = dict(spec["P"], hc=dict(spec["P"]["hc"], cov_max=cm if cm else 1e300))
            spec["P"].pop("cov_q")
            rec.spec = {k: v for k, v in spec.items()}
        hold = {}
        base = run_alg(spec, base_inp, fs0, 1.0, hold=hold)
        if base.get("inputs_modified"):
            rec.fail("%s: the record handed to the setup was modified by the run" % spec["alg"], "base:input-modified")
        if spec.get("readonly") and (base.get("exc") or base.get("mpe_exc")):
            # the library never writes to its inputs: a record presented read-only must behave like a writable one
            wr = run_alg(spec, base_inp, fs0, 1.0, readonly=False)
            if (wr.get("exc"), wr.get("mpe_exc")) != (base.get("exc"), base.get("mpe_exc")):
                rec.fail("%s raises %s on a READ-ONLY record (arr.setflags(write=False)) and %s on a writable copy of it" % (
                    spec["alg"], base.get("exc") or "mpe:" + str(base.get("mpe_exc")), wr.get("exc") or wr.get("mpe_exc") or "nothing"), "read-only-input")
        nontrivial = "exc" not in base
        for nm in ("Phi_poles", "Phi"):
            v = base.get(nm)
            if v is not None:
                unit_max_check(rec, nm, "none", v if nm == "Phi_poles" else np.asarray(v).T, "base")
        npoles = int(np.sum(~np.isnan(base["Fn_poles"]))) if base.get("Fn_poles") is not None else 0
        # "rerun" (run twice on the SAME setup) goes first: afterwards the object is re-attached to other setups
        for T in sorted(spec["transforms"], key=lambda T: T["t"] != "rerun"):
            inp, kf, smap = apply_transform(spec, base_inp, T)
            pair = hold.get("pair") if (T.get("reuse") and "exc" not in base) else None
            got = run_alg(spec, inp, fs0 * kf, kf, reuse=pair, same_setup=(T["t"] == "rerun"), form=Form(T["form"]) if T["t"] == "optform" else None)
            if got.get("inputs_modified"):
                rec.fail("%s under %s: the record handed to the setup was modified by the run" % (spec["alg"], T["t"]), T["t"] + ":input-modified")
            compare(rec, spec, base, got, T, kf, smap)
        if spec.get("pos") and "exc" not in base and not rec.fails:
            positional_check(rec, spec, base_inp, fs0)
        m_int = hank_method(spec["alg"])
        if spec["tier"] == "I" and rec.fails and m_int in (spec.get("attrib_int") or []):
            # the function-level probe has just shown that build_hank itself treats integer records differently for this method:
            # the class-level consequences are the same finding
            first = rec.fails[0]
            rec.fails = [dict(first, key=KEY_INT % m_int, what="%s on an integer record (%s, peak %d counts, %d samples): %s  [%d relations broken; build_hank(method=%r) "
                              "computes with the record's integer dtype]" % (spec["alg"], spec["idtype"], spec["peak"], spec["N"], first["what"], len(rec.fails), m_int))]
        info = dict(exc=base.get("exc"), mpe_exc=base.get("mpe_exc"), npoles=npoles,
                    nmodes=0 if base.get("Fn") is None else int(np.size(base["Fn"])))
    except Exception:  # noqa: BLE001
        import traceback

        rec.fails.append(dict(kind="correspondence", what="harness crashed in case: " + traceback.format_exc()[-1500:], case=spec, key="C08:crash"))
        nontrivial, info = False, {}
    return dict(fails=rec.fails, not_judged=rec.not_judged, notes=rec.notes, checked=rec.checked, maxdev=rec.maxdev, nontrivial=nontrivial, info=info,
                spec={k: v for k, v in spec.items() if k != "P"}, alg=spec["alg"], tier=spec["tier"])


# ------------------------------------------------------------------------------------------------ case generation
def params_for(rng, alg, tier, l_eff, nref_eff, nmodes, v):
    fam = family(alg)
    P = dict(hc=dict(HC_DEFAULT), sc=dict(SC_DEFAULT), rtol=5e-2)
    P["method_SD"] = ("per", "cor")[v % 2]
    if fam in ("SSI", "pLSCF"):
        P["order_mode"] = ("int", "list")[(v // 2) % 2 if tier != "I" else v % 2]
        P["sel_extra"] = (v % 3 != 2)
    P["nxseg"] = int(rng.choice([64, 96, 128]))
    P["pov"] = float(rng.choice([0.5, 0.25, 0.0]))
    P["DF"] = 0.04  # in units of fs0 = 1 ... rescaled by the caller
    P["DF2"] = 0.12
    P["MAClim"] = 0.9
    P["sppk"] = int(rng.choice([1, 2]))
    P["npmax"] = int(rng.choice([4, 6]))
    if fam == "SSI":
        br = int(rng.integers(4, 8))
        # rank conditions of the realisation: ordmax <= columns of H and rows of O_p; PreGER re-scales through the br
        # reference block rows, so there ordmax <= br * n_ref
        cap = br * nref_eff if alg.find("_MS") >= 0 else min((br + 1) * nref_eff, br * l_eff)
        ordmax = int(min(rng.integers(2 * nmodes + 2, 2 * nmodes + 7), cap))
        P["br"], P["ordmax"] = br, ordmax
        P["order"] = int(min(ordmax, 2 * nmodes + int(rng.integers(0, 3))))
        if alg.endswith("_unc"):
            P["nb"] = int(rng.choice([20, 30, 50]))
            P["cov_q"] = float(rng.choice([0.3, 0.5, 0.7]))   # cov_max is placed inside the distribution of Fn_poles_cov so that it bites
    if fam == "pLSCF":
        P["pordmax"] = int(rng.integers(3, 6))
        P["porder"] = P["pordmax"] - 1 - int(rng.integers(0, 2))
    return P


def gen_cases(ctx, tier, per_alg):
    """per_alg variants of every class; variant index v fixes the discrete choices so that every class meets both spectral
    estimators, a proper reference subset (single-setup SSI), random-response and free-decay records."""
    rng = ctx.np_rng
    cases = []
    for alg in SINGLE_ALGS + MULTI_ALGS:
        for v in range(per_alg):
            single = alg in SINGLE_ALGS
            nmodes = int(rng.integers(2, 4))
            spec = dict(id="%s-%s-%d" % (tier, alg, v), tier=tier, alg=alg, setup="single" if single else "multi", seed=int(rng.integers(1, 2**31)),
                        nmodes=nmodes, kind="decay" if v % 4 == 3 else "random")
            spec["amp"] = (1.0, 2e-3, 1.5e3)[v % 3]
            spec["readonly"] = bool(v % 2)   # the records are handed over read-only in half of the cases
            spec["pos"] = (v % 3 == 2)       # also driven through the positional call forms (positional_check)
            spec["fs"] = float(rng.choice([1.0, 10.0, 64.0, 100.0, 250.0]))
            spec["N"] = int(rng.choice([600, 800, 1024]))
            spec["noise"] = float(rng.choice([0.3, 0.6, 1.0])) if tier == "A" else float(rng.choice([0.01, 0.02, 0.05]))
            if family(alg) in ("FDD", "EFDD"):
                spec["band"] = (0.15, 0.42)
            ref = None
            if single:
                l = int(rng.integers(3, 7)) if v % 2 else int(rng.integers(2, 9))
                spec["l"] = l
                ref = None
                if family(alg) == "SSI" and v % 2 == 1:
                    r = int(rng.integers(2, l))
                    ref = [int(x) for x in rng.choice(l, size=r, replace=False)]   # unsorted, as listed
                    if v % 4 == 1:   # written with negative indices (every other one)
                        ref = [x - l if i % 2 == 0 else x for i, x in enumerate(ref)]
                spec["ref_ind"] = ref
                l_eff, nref_eff = l, (l if ref is None else len(ref))
            else:
                nref = int(rng.integers(2, 4))
                nset = int(rng.integers(2, 4))
                spec["nref"] = nref
                spec["movs"] = [int(rng.integers(1, 4)) for _ in range(nset)]
                l_eff, nref_eff = nref + min(spec["movs"]), nref
            P = params_for(rng, alg, tier, l_eff, nref_eff, nmodes, v)
            for k in ("DF", "DF2"):
                P[k] = P[k] * spec["fs"]
            spec["P"] = P
            if tier == "A":
                # powers of two that commute EXACTLY with the pipeline: the data-driven Hankel matrix is linear in the gain and
                # its singular values go through sqrt, scipy's Welch scaling goes through sqrt(1/fs): even exponents there
                if "dat" in alg:
                    ks = [int(x) for x in rng.choice([-20, -12, -6, -2, 2, 4, 10, 16, 24], size=2, replace=False)]
                else:
                    ks = [int(x) for x in rng.choice([-20, -11, -6, -3, -1, 1, 2, 5, 10, 17, 24], size=2, replace=False)]
                kf = [int(x) for x in rng.choice([-4, -2, 2, 4], size=1)] + [(-6, 6)[v % 2]]   # always one end of 4^-3 ... 4^3
                # the two ends of the gain range [1e-6, 1e6] ALWAYS, on every class variant and record amplitude, plus one more
                # reuse=True: the SAME algorithm object (already run and queried on the untransformed setup) is attached to the second
                # setup and run again; rerun: run twice on the same setup
                spec["transforms"] = [dict(t="gain", g=float(2.0 ** -20)), dict(t="gain", g=float(2.0 ** 20), reuse=True), dict(t="gain", g=-float(2.0 ** ks[1])),
                                      dict(t="fs", k=float(2.0 ** kf[0])), dict(t="fs", k=float(2.0 ** kf[1]), reuse=True), dict(t="rerun", reuse=True)]
                if ref is not None:
                    spec["transforms"].append(dict(t="refform", form="positive" if v % 4 == 1 else "negative"))
                # the same option VALUES written as NumPy scalars / 0-d arrays / 1-0 (see class Form): identical results
                spec["transforms"].append(dict(t="optform", form=("np64", "np32", "arange")[v % 3]))
            else:
                g = float(10 ** rng.uniform(-6, 6)) * (1 if rng.random() < 0.7 else -1)
                k = float(10 ** rng.uniform(-2, 2))
                sg = -1.0 if rng.random() < 0.5 else 1.0
                k2 = float(10 ** rng.uniform(-2, 2))
                spec["transforms"] = [dict(t="gain", g=1e-6 * sg), dict(t="gain", g=-1e6 * sg, reuse=True), dict(t="gain", g=g), dict(t="fs", k=k),
                                      dict(t="fs", k=k2, reuse=True), dict(t="fs", k=0.01), dict(t="fs", k=100.0), dict(t="rerun", reuse=True),
                                      dict(t="perm", seed=int(rng.integers(1, 2**31))), dict(t="mix", seed=int(rng.integers(1, 2**31)))]
                spec["transforms"].append(dict(t="asf32"))   # the same (low-noise) record stored as float32
                if ref is not None:
                    spec["transforms"] += [dict(t="perm", seed=int(rng.integers(1, 2**31)), neg=True), dict(t="refform", form="reversed"),
                                           dict(t="refform", form="positive" if v % 4 == 1 else "negative")]
            cases.append(spec)
    return cases


def gen_int_cases(ctx, per_alg):
    """Records stored as integer ADC counts (int16 / int32 / int64, peak 2000 or 30000 counts, 5-12 thousand samples), every class
    variant: the float image of the same counts and integer gains applied in the record's own integer arithmetic (inside the
    dtype's range) must give the same pole tables and shapes.  x4 commutes exactly with the pipeline (tier-A comparison);
    x2, x5, x-3 change the rounding (tier-B comparison)."""
    rng = ctx.np_rng
    cases = []
    k = 0
    for alg in SINGLE_ALGS + MULTI_ALGS:
        for v in range(per_alg):
            single = alg in SINGLE_ALGS
            # scipy.signal.csd promotes int16 input to SINGLE precision (result_type(int16, complex64) = complex64): the spectral classes
            # then work at ~1e-7 and the float image of the record is reproduced to that accuracy only - int16 is kept for the
            # time-domain (SSI) classes, the spectral ones get int32 / int64
            # ... and likewise uint8 / uint16; even variants signed, odd variants UNSIGNED raw counts around a mid-scale offset
            offset = 0
            if v % 2 == 0:
                if family(alg) == "SSI":
                    idtype, peak = [("int32", 2000), ("int16", 2000), ("int64", 30000), ("int32", 30000), ("int16", 2000), ("int64", 2000)][k % 6]
                else:
                    idtype, peak = [("int32", 2000), ("int64", 30000), ("int32", 30000), ("int64", 2000)][k % 4]
            elif family(alg) == "SSI":
                idtype, peak, offset = [("uint16", 2000, 2048), ("uint8", 20, 25), ("uint32", 30000, 32768), ("uint16", 1500, 2048)][k % 4]
            else:
                idtype, peak, offset = [("uint32", 30000, 32768), ("uint32", 2000, 2048)][k % 2]
            k += 1
            nmodes = int(rng.integers(2, 4))
            spec = dict(id="I-%s-%d" % (alg, v), tier="I", alg=alg, setup="single" if single else "multi", seed=int(rng.integers(1, 2**31)), nmodes=nmodes,
                        kind="random", idtype=idtype, peak=peak, offset=offset, amp=1.0, readonly=bool((v // 2 + k) % 2), fs=float(rng.choice([10.0, 100.0, 256.0])), N=int(rng.choice([5000, 8000, 12000])),
                        noise=float(rng.choice([0.02, 0.1, 0.3])))
            if family(alg) in ("FDD", "EFDD"):
                spec["band"] = (0.15, 0.42)
            ref = None
            if single:
                l = int(rng.integers(3, 7))
                spec["l"] = l
                if family(alg) == "SSI" and v % 2 == 1:
                    ref = [int(x) for x in rng.choice(l, size=int(rng.integers(2, l)), replace=False)]
                spec["ref_ind"] = ref
                l_eff, nref_eff = l, (l if ref is None else len(ref))
            else:
                spec["nref"] = int(rng.integers(2, 4))
                spec["movs"] = [int(rng.integers(1, 4)) for _ in range(int(rng.integers(2, 4)))]
                l_eff, nref_eff = spec["nref"] + min(spec["movs"]), spec["nref"]
            P = params_for(rng, alg, "I", l_eff, nref_eff, nmodes, v + k)
            for q in ("DF", "DF2"):
                P[q] = P[q] * spec["fs"]
            spec["P"] = P
            exact2 = "dat" not in alg
            spec["transforms"] = [dict(t="asfloat", cmp="A"), dict(t="igain", g=4, cmp="A"), dict(t="igain", g=2, cmp="A" if exact2 else "B"),
                                  dict(t="igain", g=5, cmp="B"), dict(t="igain", g=-3 if offset == 0 else 3, cmp="B")]
            cases.append(spec)
    return cases


def expand_mix(cases):
    """orthogonal mixing is run with MPC / MPD limits that cannot bite (those two criteria are by definition not rotation
    invariant: they measure per-channel phase scatter); it gets its own case so that the other relations keep the defaults."""
    out = []
    for s in cases:
        if s["tier"] == "B" and family(s["alg"]) in ("SSI", "pLSCF"):
            a = dict(s)
            a["transforms"] = [t for t in s["transforms"] if t["t"] != "mix"]
            b = dict(s)
            b["id"] = s["id"] + "m"
            b["pos"] = False
            b["P"] = dict(s["P"], hc=dict(HC_NEUTRAL))
            b["transforms"] = [t for t in s["transforms"] if t["t"] == "mix"]
            out += [a, b]
        else:
            out.append(s)
    return out


# ------------------------------------------------------------------------------------------------ model side (Coq)
def dyad(rng, shape, bits=5):
    return rng.integers(-(2**bits), 2**bits + 1, size=shape) / float(2 ** (bits - 2))


def model_side(ctx):
    from pyoma2.functions import fdd, plscf, ssi

    rng = ctx.np_rng
    exprs, meta = [], []
    cnt = [0]

    def call(name, fn, arrs):
        """function-level call on the harness' own copies of the arrays, READ-ONLY every other time; the library never writes to its
        inputs, so a read-only array must behave like a writable one and come back bit-equal."""
        cnt[0] += 1
        ro = cnt[0] % 2 == 0
        own = [np.array(x) for x in arrs]
        keep = [x.copy() for x in own]
        for x in own:
            x.setflags(write=not ro)
        try:
            out = fn(*own)
        except Exception as e:  # noqa: BLE001
            if not ro:
                raise
            out = fn(*[x.copy() for x in keep])   # raises again if the arrays are not the reason
            ctx.fail("oracle", "%s raises %s (%s) on READ-ONLY input arrays and runs on writable copies of them" % (name, type(e).__name__, str(e)[:80]),
                     dict(kind="read-only-input", function=name, arrays=[x.tolist() for x in keep]), key="C08:%s:read-only-input" % name)
            return out
        if any(not np.array_equal(x, k0, equal_nan=True) for x, k0 in zip(own, keep)):
            ctx.fail("oracle", "%s modifies its input arrays" % name, dict(kind="input-modified", function=name, arrays=[x.tolist() for x in keep]),
                     key="C08:%s:input-modified" % name)
        return out

    def form():
        # option values as Python / NumPy scalars, 0-d arrays, elements of arange (see class Form): same value, same result
        return Form(("py", "np64", "np32", "arange")[cnt[0] % 4])
    # ---- Hankel: right-hand sides of the theorems on the untransformed data vs build_hank on the transformed data
    shapes = [(2, 1, 1, 9), (3, 2, 2, 13), (2, 2, 1, 10), (3, 1, 2, 12)] if ctx.quick() else \
        [(l, r, br, 2 * br + 7 + e) for l in (2, 3, 4) for r in range(1, l + 1) for br in (1, 2, 3) for e in (0, 3)]
    inv = "Qc_invn"
    for (l, r, br, Ndat) in shapes:
        for rep in range(ctx.n(1, 2)):
            Y = dyad(rng, (l, Ndat))
            ref = sorted(rng.choice(l, size=r, replace=False).tolist())
            Yr = Y[ref, :] if rep == 0 else dyad(rng, (r, Ndat))
            N = Ndat - 2 * br - 1
            g = float(rng.choice([-3.0, 0.5, 1.25, 6.0]))
            p = rng.permutation(l)
            rho = rng.permutation(r)
            Q = dyad(rng, (l, l), bits=3)
            Qr = dyad(rng, (r, r), bits=3)
            for method, nm in (("cov_mm", "mm"), ("cov_R", "R")):
                arg = ("%s %d %d %d %d %s %s" % (qc(Fraction(1, N)), l, r, br, Ndat, qc_mat(Y), qc_mat(Yr))) if nm == "mm" else \
                      ("%s %d %d %d %d %s %s" % (inv, l, r, br, Ndat, qc_mat(Y), qc_mat(Yr)))
                case0 = dict(kind="hankel", method=method, l=l, r=r, br=br, Ndat=Ndat, Y=Y.tolist(), Yref=Yr.tolist())
                Hg = call("build_hank", lambda a_, b_: ssi.build_hank(a_, b_, form().i(br), method)[0], [g * Y, g * Yr])
                exprs.append("showMat (hank_gain_rhs_%s_l %s %s)" % (nm, qc(g), arg))
                meta.append(("hank", dict(case0, t="gain", g=g), Hg))
                Hp = call("build_hank", lambda a_, b_: ssi.build_hank(a_, b_, form().i(br), method)[0], [Y[p, :], Yr[rho, :]])
                exprs.append("showMat (hank_perm_rhs_%s_l %s %s %s)" % (nm, clist(["%d%%nat" % x for x in p]), clist(["%d%%nat" % x for x in rho]), arg))
                meta.append(("hank", dict(case0, t="perm", p=p.tolist(), rho=rho.tolist()), Hp))
                Hm = call("build_hank", lambda a_, b_: ssi.build_hank(a_, b_, form().i(br), method)[0], [Q @ Y, Qr @ Yr])
                exprs.append("showMat (hank_mix_rhs_%s_l %s %s %s)" % (nm, qc_mat(Q), qc_mat(Qr), arg))
                meta.append(("hank", dict(case0, t="mix", Q=Q.tolist(), Qr=Qr.tolist()), Hm))
    # ---- unity normalisation as exposed by ssi.ac2mp, plscf.ac2mp_poly, fdd.FDD_mpe
    for k in range(ctx.n(24, 120)):
        n = int(rng.integers(2, 5))
        Nch = int(rng.integers(2, 6))
        A = dyad(rng, (n, n), bits=4)
        C = dyad(rng, (Nch, n), bits=4)
        if k % 6 == 0:  # exact tie of the two largest moduli: first index must win
            C[1, :] = -C[0, :]
        dt = float(rng.choice([0.5, 0.125, 0.01, 2.0]))
        which = k % 3
        try:
            if which == 0:
                fn, xi, phi, lam_c = call("ac2mp", lambda a_, c_: ssi.ac2mp(a_, c_, form().f(dt), calc_unc=form().b(False))[:4], [A, C])
                lam_d, _, vec = sla.eig(A, left=True)
            elif which == 1:
                fn, xi, phi, lam_c = call("ac2mp_poly", lambda a_, c_: plscf.ac2mp_poly(a_, c_, form().f(dt), "per", form().i(64)), [A, C])
                lam_d, vec = np.linalg.eig(A)
            else:
                nf = 12
                Svec = (dyad(rng, (Nch, Nch, nf), bits=4) + 1j * dyad(rng, (Nch, Nch, nf), bits=4))
                Sval = np.zeros((Nch, Nch, nf))
                pk = int(rng.integers(3, nf - 3))
                Sval[0, 0, :] = 1.0 + np.arange(nf) * 0.01
                Sval[0, 0, pk] = 50.0
                Sval[1, 1, :] = 1.0
                freq = np.arange(nf) * 0.25
                Fn, Phi = call("FDD_mpe", lambda a_, b_, c_: fdd.FDD_mpe(a_, b_, c_, [form().f(freq[pk])], DF=form().f(0.5)), [Sval, Svec, freq])
                # storage: the same singular values / vectors as float32 / complex64 (what single-precision spectra hand over)
                Fn32, Phi32 = fdd.FDD_mpe(Sval.astype(np.float32), Svec.astype(np.complex64), freq, [freq[pk]], DF=0.5)
                case32 = dict(kind="FDD_mpe-complex64", Svec_line=[[z.real, z.imag] for z in Svec[0, :, pk]], pk=pk)
                ctx.count(case32)
                if Fn32[0] != Fn[0] or not np.allclose(Phi32, Phi, rtol=0, atol=1e-5) or abs(Phi32[np.argmax(np.abs(Phi32[:, 0])), 0] - 1) > 1e-6:
                    ctx.fail("oracle", "FDD_mpe on complex64 singular vectors: result differs from that of the complex128 image beyond single precision", case32,
                             key="C08:FDD_mpe:complex64")
                raw = [Svec[0, :, pk]]
                got = [Phi[:, 0]]
                if Fn[0] != freq[pk]:
                    ctx.fail("oracle", "FDD_mpe does not return the peak line", dict(kind="fdd-peak", pk=pk), key="C08:FDD_mpe:peak")
        except Exception as e:  # noqa: BLE001
            ctx.note("model-side generator: %s raised %s (skipped)" % (("ac2mp", "ac2mp_poly", "FDD_mpe")[which], type(e).__name__))
            continue
        if which in (0, 1):
            # the same relations at function level: C -> g C[p, :] leaves fn, xi and gives the permuted shapes
            g = float(rng.choice([-2.5, 0.375, 1e-5, 3e4]))
            p = rng.permutation(Nch)
            r2 = ssi.ac2mp(A, g * C[p, :], dt)[:3] if which == 0 else plscf.ac2mp_poly(A, g * C[p, :], dt, "per", 64)[:3]
            site = ("ac2mp", "ac2mp_poly")[which]
            casef = dict(kind="function-gain-perm", site=site, A=A.tolist(), C=C.tolist(), dt=dt, g=g, p=p.tolist())
            ctx.count(casef)
            for i in range(phi.shape[0]):
                if np.any(np.isnan(phi[i])):
                    continue
                md = np.sort(np.abs(C @ vec[:, i]))[::-1]
                if len(md) > 1 and md[0] - md[1] <= 1e-9 * md[0]:
                    ctx.not_judged += 1
                    continue
                def same(a, b, tol):   # degenerate poles (eigenvalue 0 or 1) give inf / NaN frequencies and damping: equal as such
                    return (np.isnan(a) and np.isnan(b)) or a == b or abs(a - b) <= tol
                if not (np.allclose(r2[2][i], phi[i][p], rtol=0, atol=1e-9) and same(r2[0][i], fn[i], 1e-12 * abs(fn[i])) and same(r2[1][i], xi[i], 1e-12)):
                    ctx.fail("oracle", "%s: output matrix g*C[p,:] does not give the same fn, xi and the permuted unity-normalised shapes" % site, casef,
                             key="C08:%s:gain-perm" % site)
                    break
            prod = C @ vec
            raw = [prod[:, i] for i in range(prod.shape[1])]
            got = [phi[i, :] for i in range(prod.shape[1])]
            # lam_c = log(lam_d) * (1/dt): the model takes the logarithm as an argument
            logl = np.log(lam_d)
            for i in range(len(lam_d)):
                if np.isfinite(logl[i]) and np.isfinite(lam_c[i]):
                    exprs.append("showC (lamc QcOps %s %s)" % (qc_c(logl[i]), qc(dt)))
                    meta.append(("lamc", dict(kind="lamc", logl=[logl[i].real, logl[i].imag], dt=dt), lam_c[i]))
        for iv, (v, gphi) in enumerate(zip(raw, got)):
            if np.any(~np.isfinite(v)):
                continue
            if which == 1 and np.log(lam_d[iv]).real > 0:
                # ac2mp_poly blanks unstable poles (C05's business): nothing to normalise
                if not np.all(np.isnan(gphi)):
                    ctx.note("ac2mp_poly returned a shape for an unstable pole")
                continue
            mod = np.sort(np.abs(v) ** 2)[::-1]
            tie_exact = len(mod) > 1 and mod[0] == mod[1]
            if len(mod) > 1 and not tie_exact and mod[0] - mod[1] <= 1e-9 * mod[0]:
                ctx.not_judged += 1
                continue
            exprs.append("match unity_norm_Qc %s with Some w => showCRow w | None => \"nan\" end" % clist([qc_c(z) for z in v]))
            meta.append(("unity", dict(kind="unity", site=("ac2mp", "ac2mp_poly", "FDD_mpe")[which], v=[[z.real, z.imag] for z in v], tie=bool(tie_exact)), gphi))
    # ---- frequency grids of the classes
    from pyoma2.algorithms import FDD, pLSCF
    from pyoma2.setup import SingleSetup
    for k in range(ctx.n(6, 24)):
        fs = float(rng.choice([0.5, 4.0, 12.5, 100.0, 256.0]))
        nx = int(rng.choice([16, 32, 48]))
        msd = "per" if k % 2 else "cor"
        data = dyad(rng, (4 * nx, 2))
        ss = SingleSetup(data, fs=fs)
        a = FDD(name="a", nxseg=nx, method_SD=msd)
        ss.add_algorithms(a)
        ss.run_by_name("a")
        fr = a.result.freq
        j = int(rng.integers(1, len(fr)))
        exprs.append("showQc (%s QcOps %s %s %s)" % ("grid_per" if msd == "per" else "grid_cor", qc(fs), qc(nx), qc(j)))
        meta.append(("grid", dict(kind="grid", method_SD=msd, fs=fs, nxseg=nx, j=j), fr[j]))
    res = ctx.coq_eval(HEADER, exprs, shard=8)
    for (kind, case, ref), s in zip(meta, res):
        ctx.count(case, nontrivial=True)
        if kind == "hank":
            M = np.array([[float(x) for x in row] for row in parse_mat(s)])
            scale = max(1.0, np.abs(M).max())
            if M.shape != ref.shape or not np.allclose(M, ref, rtol=0, atol=1e-9 * scale):
                ctx.fail("correspondence", "build_hank %s on %s data differs from the right-hand side of C08_hank_%s_%s" % (
                    case["method"], case["t"], case["t"], "mm" if case["method"] == "cov_mm" else "R"), case, key="C08:build_hank:%s-%s" % (case["method"], case["t"]))
                # the same relation on the implementation alone (property text)
                ctx.fail("oracle", "build_hank %s is not covariant under %s" % (case["method"], case["t"]), case, key="C08:build_hank:%s-%s" % (case["method"], case["t"]))
        elif kind == "unity":
            if s == "nan":
                if not np.all(np.isnan(ref)):
                    ctx.fail("correspondence", "%s: model says 0/0 (NaN shape), implementation returns numbers" % case["site"], case, key="C08:%s:unity-nan" % case["site"])
                continue
            w = np.array([complex(float(Fraction(a.split(",")[0])), float(Fraction(a.split(",")[1]))) for a in s.split(" ")])
            if w.shape != ref.shape or not np.allclose(w, ref, rtol=0, atol=1e-9):
                ctx.fail("correspondence", "%s: normalised shape differs from cv_unity_norm (first largest-modulus component -> 1)" % case["site"], case,
                         key="C08:%s:unity" % case["site"])
                piv = ref[np.argmax(np.abs(ref))] if np.all(np.isfinite(ref)) else np.nan
                if not (abs(piv - 1) <= 1e-12):
                    ctx.fail("oracle", "%s: largest-magnitude component of the returned shape is %s, not 1" % (case["site"], piv), case, key="C08:%s:unit-max" % case["site"])
        elif kind == "lamc":
            a, b = s.split(",")
            z = complex(float(Fraction(a)), float(Fraction(b)))
            if not abs(z - ref) <= 1e-12 * max(1.0, abs(z)):
                ctx.fail("correspondence", "ac2mp: lam_c is not log(lam_d) * (1/dt)", case, key="C08:ac2mp:lamc")
        else:
            z = float(Fraction(s))
            if not abs(z - ref) <= 1e-12 * max(1.0, abs(z)):
                ctx.fail("correspondence", "frequency grid of FDD (%s) differs from the model grid" % case["method_SD"], case, key="C08:grid:%s" % case["method_SD"])


# ------------------------------------------------------------------------------------------------ positional call forms: functions
# Parameter order of the PRISTINE signatures of the anchored functions (read from the unchanged tree and hard-coded: a changed tree must
# not redefine the expected order).
POS_SIGS = {
    "ssi.build_hank": ["Y", "Yref", "br", "method", "calc_unc", "nb"],
    "ssi.ac2mp": ["A", "C", "dt", "calc_unc"],
    "ssi.SSI": ["H", "br", "ordmax", "step"],
    "ssi.SSI_fast": ["H", "br", "ordmax", "step", "calc_unc", "T", "nb"],
    "ssi.SSI_poles": ["Obs", "AA", "CC", "ordmax", "dt", "step", "calc_unc", "Q1", "Q2", "Q3", "Q4"],
    "ssi.SSI_multi_setup": ["Y", "fs", "br", "ordmax", "method_hank", "step"],
    "ssi.SSI_mpe": ["freq_ref", "Fn_pol", "Xi_pol", "Phi_pol", "order", "Lab", "rtol", "Fn_cov", "Xi_cov", "Phi_cov"],
    "fdd.SD_PreGER": ["Y", "fs", "nxseg", "pov", "method"],
    "fdd.SD_est": ["Yall", "Yref", "dt", "nxseg", "method", "pov"],
    "fdd.SD_svalsvec": ["SD"],
    "fdd.FDD_mpe": ["Sval", "Svec", "freq", "sel_freq", "DF"],
    "fdd.SDOF_bellandMS": ["Sy", "dt", "sel_fn", "phi_FDD", "method", "cm", "MAClim", "DF"],
    "fdd.EFDD_mpe": ["Sy", "freq", "dt", "sel_freq", "methodSy", "method", "DF1", "DF2", "cm", "MAClim", "sppk", "npmax"],
    "plscf.pLSCF": ["Sy", "dt", "ordmax", "sgn_basf"],
    "plscf.pLSCF_poles": ["Ad", "Bn", "dt", "methodSy", "nxseg"],
    "plscf.rmfd2ac": ["A_den", "B_num"],
    "plscf.ac2mp_poly": ["A", "C", "dt", "methodSy", "nxseg"],
    "plscf.pLSCF_mpe": ["sel_freq", "Fn_pol", "Xi_pol", "Phi_pol", "order", "Lab", "deltaf", "rtol"],
}


def outcome(f):
    try:
        return ("ok", f())
    except Exception as e:  # noqa: BLE001
        return ("exc", type(e).__name__)


def same_value(u, v):
    """bit-equality of two results (nested tuples / lists / dicts / arrays / scalars / None), NaN equal to NaN."""
    if isinstance(u, (tuple, list)) and isinstance(v, (tuple, list)):
        return len(u) == len(v) and all(same_value(a, b) for a, b in zip(u, v))
    if isinstance(u, dict) and isinstance(v, dict):
        return u.keys() == v.keys() and all(same_value(u[k], v[k]) for k in u)
    if u is None or v is None:
        return u is None and v is None
    try:
        a, b = np.asarray(u), np.asarray(v)
        if a.shape != b.shape:
            return False
        if a.dtype.kind in "fc" or b.dtype.kind in "fc":
            return bool(np.array_equal(a, b, equal_nan=True))
        return bool(np.array_equal(a, b))
    except Exception:  # noqa: BLE001
        return u == v


def fn_chain(call, Y, fs, kf, g, rep):
    """The anchored functions called one after the other on a small record, every parameter given, with values that are not the
    defaults and differ between neighbouring parameters.  call(name, values by parameter name) -> result or None (raised).
    Returns what the property constrains (pole tables, extracted modes, every shape) under the names used by fn_relate."""
    from pyoma2.functions import fdd, plscf, ssi

    mods = dict(ssi=ssi, fdd=fdd, plscf=plscf)
    C_ = lambda name, **vals: call(name, getattr(mods[name.split(".")[0]], name.split(".")[1]), vals)  # noqa: E731
    out = {}
    Y = Y * g
    fs = fs * kf
    dt = 1.0 / fs

    def requests(col, off=1.03):
        u = np.unique(col[~np.isnan(col)])
        return [float(u[0]) * off] + [float(x) for x in u[1:2]] if len(u) else [0.13 * fs * off, 0.20 * fs]
    l = Y.shape[0]
    fr = [0.13 * fs, 0.20 * fs]
    method = ("cov_mm", "cov_R", "dat")[rep % 3]
    unc = method == "cov_mm"
    msd = ("per", "cor")[rep % 2]
    br, ordmax, nb, nx = 4, 6, 6, 96
    df = fs / nx
    Yref = Y[[2, 0], :]
    Ym = [dict(ref=Y[[0, 1], :], mov=Y[2:, :]), dict(ref=Y[[0, 1], 64:], mov=Y[2:3, 64:] * 0.5)]
    # ---- time domain
    r = C_("ssi.build_hank", Y=Y, Yref=Yref, br=br, method=method, calc_unc=unc, nb=nb)
    if r is not None:
        H, T = r
        C_("ssi.SSI", H=H, br=br, ordmax=ordmax, step=2)
        C_("ssi.SSI_fast", H=H, br=br, ordmax=ordmax, step=2, calc_unc=unc, T=T, nb=nb)
        r = C_("ssi.SSI_fast", H=H, br=br, ordmax=ordmax, step=1, calc_unc=unc, T=T, nb=nb)
        if r is not None:
            Obs, AA, CC, Q1, Q2, Q3, Q4 = r
            C_("ssi.ac2mp", A=AA[4], C=CC[4], dt=dt, calc_unc=True)
            r = C_("ssi.SSI_poles", Obs=Obs, AA=AA, CC=CC, ordmax=ordmax, dt=dt, step=1, calc_unc=unc, Q1=Q1, Q2=Q2, Q3=Q3, Q4=Q4)
            if r is not None:
                Fn, Xi, Ph, _, Fc, Xc, Pc = r
                out["ssi"] = (Fn, Xi, Ph)
                if Fc is None:   # stand-ins, so that the three covariance parameters carry distinct non-default values
                    Fc, Xc, Pc = Fn * 0 + 1.0, Fn * 0 + 2.0, np.abs(Ph) * 3.0
                Lab = np.where(np.isnan(Fn), 0, 1)
                req = requests(Fn[:, 4])   # first request 3 % off its pole: served with the default rtol, not with 0.01
                r = C_("ssi.SSI_mpe", freq_ref=req, Fn_pol=Fn, Xi_pol=Xi, Phi_pol=Ph, order=4, Lab=Lab, rtol=0.01, Fn_cov=Fc, Xi_cov=Xc, Phi_cov=Pc)
                if r is not None:
                    out["ssi_mpe"] = (r[0], r[1], np.asarray(r[2]).T if np.size(r[2]) else None)
                C_("ssi.SSI_mpe", freq_ref=req, Fn_pol=Fn, Xi_pol=Xi, Phi_pol=Ph, order="find_min", Lab=Lab, rtol=0.3 * kf, Fn_cov=Fc, Xi_cov=Xc, Phi_cov=Pc)
    C_("ssi.SSI_multi_setup", Y=Ym, fs=fs, br=br, ordmax=ordmax, method_hank=method, step=2)
    # ---- spectra
    C_("fdd.SD_est", Yall=Y, Yref=Yref, dt=dt, nxseg=nx, method=msd, pov=0.25)
    C_("fdd.SD_PreGER", Y=Ym, fs=fs, nxseg=nx, pov=0.25, method="cor" if msd == "per" else "per")
    r = C_("fdd.SD_est", Yall=Y, Yref=Y, dt=dt, nxseg=nx, method=msd, pov=0.25)
    if r is None:
        return out
    freq, Sy = r
    r = C_("fdd.SD_svalsvec", SD=Sy)
    if r is not None:
        Sval, Svec = r
        r = C_("fdd.FDD_mpe", Sval=Sval, Svec=Svec, freq=freq, sel_freq=[f + 3.7 * df for f in fr], DF=2.2 * df)
        if r is not None:
            out["fdd"] = (r[0], None, np.asarray(r[1]).T)
            C_("fdd.SDOF_bellandMS", Sy=Sy, dt=dt, sel_fn=fr[1], phi_FDD=r[1][:, 1], method="EFDD", cm=2, MAClim=0.3, DF=9 * df)
    r = C_("fdd.EFDD_mpe", Sy=Sy, freq=freq, dt=dt, sel_freq=fr, methodSy=msd, method="EFDD", DF1=2 * df, DF2=9 * df, cm=2, MAClim=0.3, sppk=1, npmax=6)
    if r is not None:
        out["efdd"] = (r[0].ravel(), r[1].ravel(), np.asarray(r[2]).T)
    # ---- polyreference
    C_("plscf.pLSCF", Sy=Sy, dt=dt, ordmax=3, sgn_basf=1 if msd == "per" else -1)
    r = C_("plscf.pLSCF", Sy=Sy, dt=dt, ordmax=4, sgn_basf=-1 if msd == "per" else 1)
    if r is None:
        return out
    Ad, Bn = r
    r = C_("plscf.rmfd2ac", A_den=Ad[2], B_num=Bn[2])
    if r is not None:
        r = C_("plscf.ac2mp_poly", A=r[0], C=r[1], dt=dt, methodSy=msd, nxseg=nx)
        if r is not None:
            out["poly"] = (None, None, r[2])
    r = C_("plscf.pLSCF_poles", Ad=Ad, Bn=Bn, dt=dt, methodSy=msd, nxseg=nx)
    if r is not None:
        Fn, Xi, Ph, _ = r
        out["plscf" if msd == "per" else "plscf_cor"] = (Fn, Xi, Ph)
        Lab = np.where(np.isnan(Fn), 0, 7)
        # (the function's own default rtol is 0.01: first request 0.7 % off, served with the default and not with 0.004; the search for the
        # lowest stable order gets both requests 2 % off: found with rtol=0.03 inside deltaf=0.3, not with the defaults 0.01 / 0.05)
        req = requests(Fn[:, 3], 1.007)
        r = C_("plscf.pLSCF_mpe", sel_freq=req, Fn_pol=Fn, Xi_pol=Xi, Phi_pol=Ph, order=3, Lab=Lab, deltaf=0.3 * kf, rtol=0.004)
        if r is not None:
            out["plscf_mpe"] = (r[0], r[1], np.asarray(r[2]).T if np.size(r[2]) else None)
        C_("plscf.pLSCF_mpe", sel_freq=[req[0] / 1.007 * 1.02] + [x * 1.02 for x in req[1:]], Fn_pol=Fn, Xi_pol=Xi, Phi_pol=Ph, order="find_min", Lab=Lab, deltaf=0.3 * kf, rtol=0.03)
    return out


def positional_functions(ctx):
    """Every anchored function is called (a) by keyword and (b) fully POSITIONALLY in the pristine parameter order with the same
    values: bit-equal results; then the positional chain is repeated on the record x16 at x4 the sampling frequency and related to the
    first one as the property says (frequencies x4, damping and shapes unchanged, every shape unit-max)."""
    rng = np.random.default_rng(int(ctx.np_rng.integers(1, 2**31)))
    for rep in range(ctx.n(2, 6)):
        l = 3 + rep % 2
        y, _ = synth(rng, 1500, l, [0.13, 0.20], [0.012, 0.02], 0.4, "random")
        Y = np.ascontiguousarray(y.T)
        fs = 8.0
        case = dict(kind="positional-functions", rep=rep, l=l, N=1500, fs=fs, record="synth(default_rng(seed), 1500, l, [0.13, 0.20], [0.012, 0.02], 0.4, 'random')")
        stats = dict(calls=0, raised=0, differ=0)

        def both(name, fn, vals):
            names = POS_SIGS[name]
            assert list(vals) == names, name
            rk = outcome(lambda: fn(**vals))
            rp = outcome(lambda: fn(*[vals[n] for n in names]))
            stats["calls"] += 1
            stats["raised"] += rk[0] == "exc"
            if rk[0] != rp[0] or (rk[0] == "exc" and rk[1] != rp[1]) or (rk[0] == "ok" and not same_value(rk[1], rp[1])):
                stats["differ"] += 1

                def show(o):
                    return "raises " + o[1] if o[0] == "exc" else "returns"
                args = ", ".join("%s=%s" % (n, ("<%s>" % type(vals[n]).__name__) if isinstance(vals[n], (np.ndarray, list, dict)) else repr(vals[n])) for n in names)
                ctx.fail("oracle", "%s(%s): the call with these values given POSITIONALLY in the documented order %s, by keyword %s%s" % (
                    name, args, show(rp), show(rk), " something else" if rk[0] == rp[0] == "ok" else ""), dict(case, function=name), key="C08:%s:positional-call" % name)
            return rp[1] if rp[0] == "ok" else (rk[1] if rk[0] == "ok" else None)

        def pos_only(name, fn, vals):
            rp = outcome(lambda: fn(*[vals[n] for n in POS_SIGS[name]]))
            return rp[1] if rp[0] == "ok" else None

        o1 = fn_chain(both, Y, fs, 1.0, 1.0, rep)
        o2 = fn_chain(pos_only, Y, fs, 4.0, 16.0, rep)
        ctx.count(dict(case, calls=stats["calls"], raised=stats["raised"]), nontrivial=stats["raised"] * 3 < stats["calls"])
        fn_of = dict(ssi="ssi.SSI_poles", ssi_mpe="ssi.SSI_mpe", plscf_mpe="plscf.pLSCF_mpe", fdd="fdd.FDD_mpe", efdd="fdd.EFDD_mpe", poly="plscf.ac2mp_poly", plscf="plscf.pLSCF_poles", plscf_cor="plscf.pLSCF_poles")
        for k, name in fn_of.items():
            if stats["differ"]:
                break   # already reported at the call that differs: what follows it in the chain is a consequence
            a, b = o1.get(k), o2.get(k)
            r_ = Rec(dict(alg=name))
            for o in (a, b):
                if o is not None and o[2] is not None:
                    unit_max_check(r_, "shapes", "positional call", o[2], "fn")
            if k != "plscf_cor" and (a is None) != (b is None):
                r_.fail("raises on the record x16 at x4 the sampling frequency only (or on the untransformed record only)", "fn")
            elif k != "plscf_cor" and a is not None:
                tol = TOL_EFDD if k == "efdd" else 1e-9
                for nm, fac, i in (("frequencies", 4.0, 0), ("damping ratios", 1.0, 1), ("shapes", 1.0, 2)):
                    if a[i] is not None and b[i] is not None:
                        cmp_exact(r_, nm, "x16 gain, x4 sampling frequency (positional calls)", fac * np.asarray(a[i]), np.asarray(b[i]), "fn", tol)
            for f in r_.fails:
                ctx.fail("oracle", "%s called positionally: %s" % (name, f["what"]), dict(case, function=name), key="C08:%s:positional-call" % name)


KEY_INT = "C08:build_hank:%s:integer-record-arithmetic"


def hank_method(alg):
    if not alg.startswith("SSI"):
        return None
    return "dat" if alg.startswith("SSIdat") else "cov_" + [t for t in alg.split("_") if t in ("mm", "R")][0]


def probe_int(ctx):
    """Function-level form of the integer-record relation: ssi.build_hank on a record stored as integer counts must equal
    build_hank on its float image (and scale with an integer gain).  Returns the methods for which it does not."""
    from pyoma2.functions import ssi

    bad = []
    rng = np.random.default_rng(12345)
    # corpus first: the minimised failing records of the repaired defect (corpus/C08/integer_records.json)
    recs = []
    for path in sorted(glob.glob(os.path.join(VERIF, "corpus", "C08", "*.json"))):
        for r_ in json.load(open(path)).get("build_hank_records", []):
            recs.append((r_["dtype"], np.array(r_["Y"], dtype=r_["dtype"]), int(r_["br"])))
    for dt_, peak, N, off in (("int16", 2000, 6000, 0), ("int32", 2000, 12000, 0), ("int32", 30000, 6000, 0), ("int64", 30000, 8000, 0),
                              ("uint16", 2000, 6000, 2048), ("uint8", 20, 5000, 25), ("uint32", 30000, 6000, 32768)):
        y = rng.standard_normal((3, N))
        recs.append((dt_, (np.round(y * peak / np.abs(y).max()) + off).astype(dt_), 3))
    for method in ("cov_mm", "cov_R", "dat"):
        for dt_, y, br in recs:
            yr = y[:2] if y.shape[0] > 2 else y
            case = dict(kind="build_hank-integer-record", method=method, dtype=dt_, br=br, shape=list(y.shape), peak=int(np.abs(y).max()),
                        Y=y.tolist() if y.shape[1] <= 16 else "standard_normal(seed 12345) scaled to the peak and rounded")
            ctx.count(case)
            Hf = ssi.build_hank(y.astype(float), yr.astype(float), br, method)[0]
            what = None
            for g in ((1, 2, 3) if y.dtype.kind == "u" else (1, 2, -3)):
                yi, yri = y * y.dtype.type(g), yr * yr.dtype.type(g)
                if not np.array_equal(yi.astype(float), y.astype(float) * g):
                    continue  # outside the dtype's range
                Hi = ssi.build_hank(yi, yri, br, method)[0]
                want = Hf * (abs(g) if method == "dat" else g * g)
                cmpH = np.abs(Hi) if method == "dat" else Hi   # the QR factor is fixed up to the sign of its rows
                wantc = np.abs(want) if method == "dat" else want
                dev = float(np.max(np.abs(cmpH - wantc)) / np.max(np.abs(wantc)))
                if not dev <= 1e-9:
                    what = "gain %+d in %s arithmetic: Hankel matrix deviates by %.3g (relative) from %s x the matrix of the float image" % (
                        g, dt_, dev, "|g|" if method == "dat" else "g^2")
                    break
            if what:
                if method not in bad:
                    bad.append(method)
                ctx.fail("oracle", "ssi.build_hank(method=%r) on a record stored as %s counts (peak %d, %d samples): %s - integer np.dot accumulates and "
                         "wraps in the record's dtype" % (method, dt_, case["peak"], y.shape[1], what), case, key=KEY_INT % method)
                break
    return bad


def probe_cor(ctx):
    """Function-level form of the repaired defect (corpus): plscf.ac2mp_poly(A, C, dt/k, 'cor', nxseg) must give k*fn, the same
    xi and the same shapes as at dt.  Returns True when it does not AND the outputs are exactly those of the mis-scaled window
    term, so that class-level consequences can be attributed to the same key."""
    from pyoma2.functions import plscf

    A = np.array([[1.2, -0.81, 0.3, 0.1], [1.0, 0.0, 0.0, 0.0], [0.0, 0.0, 0.9, -0.64], [0.0, 0.0, 1.0, 0.0]])
    C = np.array([[1.0, 0.5, -0.25, 2.0], [0.0, 1.5, 1.0, -0.5], [0.75, -1.0, 0.5, 0.25]])
    dt, nx = 0.1, 100
    present = False
    for k in (4.0, 0.3):
        case = dict(kind="ac2mp_poly-cor-dt", A=A.tolist(), C=C.tolist(), dt=dt, k=k, nxseg=nx)
        ctx.count(case)
        f0, x0, p0, l0 = plscf.ac2mp_poly(A, C, dt, "cor", nx)
        f1, x1, p1, l1 = plscf.ac2mp_poly(A, C, dt / k, "cor", nx)
        ok = np.allclose(f1, k * f0, rtol=1e-12, atol=0) and np.allclose(x1, x0, rtol=0, atol=1e-12) and np.allclose(p1, p0, rtol=0, atol=1e-12)
        if ok:
            continue
        c = -np.log(0.01) / (nx - 1)
        if np.allclose(l1, k * (l0 + c) - c, rtol=1e-12, atol=1e-12):
            present = True
            ctx.fail("oracle", "plscf.ac2mp_poly(methodSy='cor'): dt -> dt/%g gives fn ratio %s (expected %g) and xi %s -> %s: the window term 1/tau (tau in samples) "
                     "is applied to poles in rad/s, lam' = k (lam + 1/tau) - 1/tau" % (k, (f1 / f0).tolist(), k, x0.tolist(), x1.tolist()), case, key=KEY_COR)
        else:
            ctx.fail("oracle", "plscf.ac2mp_poly(methodSy='cor'): dt -> dt/%g does not multiply fn by %g / keep xi and shapes" % (k, k), case, key="C08:ac2mp_poly:cor:dt")
    return present


# ------------------------------------------------------------------------------------------------ entry point
def run(ctx):
    ctx.extra["rule"] = ("one case = (class, setup kind, synthetic modal record(s) from a seed, parameters, list of transformations); each is run untransformed "
                         "and transformed through SingleSetup / MultiSetup_PreGER and the results related as the property says; non-trivial when the "
                         "untransformed run completes; distinct by hash of the specification")
    ctx.assumptions += [
        "independence of the result from WHICH contract-meeting SVD / eig decomposition LAPACK returns is proved for exact-rank data (C08_pipeline_svd_choice) "
        "and for noisy full-rank data truncated at an order that separates retained from discarded singular values (C08_pipeline_*_noisy, least-squares solve "
        "modelled by its contract); NOT derived: that two decompositions return the same singular values (a hypothesis), rounding; the metamorphic runs "
        "(tier A element-wise at 1e-12, tier B multiset matching at 1e-6) exercise the statement on the implementation",
        "oracle contracts used by the transport theorems: numpy.linalg.svd (H = U S V^T, U^T U = I, V^T V = I), pinv / inv as left inverses, "
        "numpy.linalg.solve, scipy.linalg.eig, numpy.log (left uninterpreted: the dt statement is about the division)",
        "the spectral estimators are bilinear forms in the data (C13's model; here only the generic bilinear-form lemmas C08_bil_* are proved)",
        "integer-stored records: scipy.signal.csd computes int16 input in single precision, so the spectral classes are exercised with int32 / int64 "
        "counts only (int16 for the SSI classes); gains x2, x5, x-3 in integer arithmetic are compared by multiset matching at 1e-6, x4 and the float "
        "image element-wise at 1e-12",
        "orthogonal mixing is exercised with MPC/MPD limits that cannot bite: these two hard criteria measure per-channel phase scatter and are, by their "
        "definition, invariant under gain, permutation and time unit but not under rotations of the channel space",
    ]
    # corpus first
    corpus = []
    for path in sorted(glob.glob(os.path.join(VERIF, "corpus", "C08", "*.json"))):
        c = json.load(open(path))
        for s in c["cases"] if "cases" in c else [c]:
            corpus.append(s)
    attrib = probe_cor(ctx)
    attrib_int = probe_int(ctx)
    model_side(ctx)
    positional_functions(ctx)
    cases = corpus + expand_mix(gen_cases(ctx, "A", ctx.n(6, 48)) + gen_cases(ctx, "B", ctx.n(6, 48))) + gen_int_cases(ctx, ctx.n(2, 6))
    for sp in cases:
        sp["attrib_cor"] = bool(attrib)
        sp["attrib_int"] = list(attrib_int)
    workers = int(os.environ.get("VERIF_C08_WORKERS", "8"))
    mpctx = multiprocessing.get_context("fork")
    with ProcessPoolExecutor(max_workers=workers, mp_context=mpctx) as ex:
        results = list(ex.map(run_case, cases, chunksize=1))
    devA, devB = 0.0, 0.0
    for r in results:
        ctx.count(r["spec"], nontrivial=r["nontrivial"])
        ctx.hist("class", r["alg"] + "/" + r["tier"])
        if r["info"].get("exc"):
            ctx.hist("untransformed run raised", r["alg"] + ":" + r["info"]["exc"])
        if r["info"].get("mpe_exc"):
            ctx.hist("untransformed mpe raised", r["alg"] + ":" + r["info"]["mpe_exc"])
        ctx.not_judged += r["not_judged"]
        ctx.sample(dict(r["spec"], checked=r["checked"], info=r["info"]))
        if r["tier"] == "A":
            devA = max(devA, r["maxdev"])
        else:
            devB = max(devB, r["maxdev"])
        for n in r["notes"]:
            ctx.note(n)
        for f in r["fails"]:
            ctx.fail(f["kind"], f["what"], f["case"], key=f["key"])
    ctx.extra["max_relative_deviation"] = dict(tierA=devA, tierB=devB)
    ctx.extra["comparisons"] = int(sum(r["checked"] for r in results))
