"""C01 - SSI recovers exact modal parameters from noise-free free-vibration data.

Model: coq/Model/M_realise.v, coq/Model/M_modal.v; theorems: coq/Properties/C01.v.

Four stages (DESIGN.md section 5, C01):
  (i)   ssi.SSI_fast / ssi.SSI on exact Hankel matrices of two families: 'product' H = O.Gamma of a true dyadic system (judged at the
        rank: model evaluated in Qc on the known O; oracle = poles/shapes of the true system, span of the rebuilt observability
        matrix) and 'svd' H = U diag(s) V^T with exactly known rational orthogonal factors (EVERY order judged, model evaluated in Qc
        on the exact first n columns of U).  The model returns its exact pair (A_n, C_n); implementation and model are compared ONLY
        through the basis-free shift operator W = Ohat[l:] pinv(Ohat[:-l]) of their own observability matrix, so re-balancing
        (U S instead of U sqrt S) or any other basis stays green.
  (ii)  ssi.ac2mp on matrices with exactly known Gaussian-rational eigen-pairs: shapes exactly (unity normalisation), fn^2/xi^2
        through the transcendental boundary (np.log applied by the harness).
  (iii) ssi.SSI_poles table assembly: NaN pattern and per-column multiset of (lambda, fn, xi, shape).
  (iv)  end to end: SingleSetup -> SSIcov('cov_mm') / SSIdat -> run -> mpe(order=2m) on noise-free free decays against the TRUE
        fn, xi, shapes (the property text), with a conditioning guard.
"""
import glob
import json
import os
import time
from fractions import Fraction

import numpy as np

from common import VERIF, clist, parse_c, parse_mat, parse_q, qc, qc_c, qc_mat
from pyoma2.functions import ssi

HEADER = "From PyOMA.Model Require Import M_realise M_modal."
TOL_STAGE = 1e-8   # basis-free operators of the realisation stage
TOL_ALG = 1e-9     # algebraic values (shapes, fn^2, xi^2)
TOL_E2E = 1e-6     # end to end, as in the property's "up to floating-point conditioning"
COND_STAGE = 1e4   # sigma_1 / sigma_n of the generated Hankel products
COND_E2E = 1e8     # sigma_1 / sigma_2m of the Hankel matrix built from the data: beyond this the case is not judged
# sampling rates of the end-to-end stream: round ones AND ones whose period 1/fs is not a short decimal
FS_LIST = [7.0, 8.0, 44.1, 50.0, 51.2, 100.0, 128.0, 256.0, 1000.0, 1200.0, 2048.0, 1 / 0.03]


def tol_e2e(cond):
    """End-to-end tolerance: the property's 1e-6 is the cap; below it the tolerance follows the conditioning of the Hankel matrix
    (observed error of the unchanged code <= 3e-15 * cond)."""
    return min(TOL_E2E, max(1e-9, 1e-12 * cond))


def tol_graded(ratio):
    """Realisation stage on graded conditioning: observed error of both unchanged routines <= 4 eps * ratio."""
    return min(1e-5, max(1e-10, 2e-13 * ratio))


def hash_str(t):
    import hashlib
    return hashlib.sha256(t.encode()).hexdigest()


def same_arrays(a, b):
    a, b = np.asarray(a), np.asarray(b)
    return a.shape == b.shape and a.dtype == b.dtype and bool(np.array_equal(a, b, equal_nan=True))


def guarded(ctx, name, call, case, key):
    """Run a library call whose array inputs may have been handed over read-only.  The unchanged code never writes into its inputs; a
    change that does (an in-place "sanitising" step, say) raises on a read-only array instead of returning the estimates: that input
    is a failing input."""
    try:
        return True, call()
    except ValueError as e:
        if "read-only" in str(e) or "readonly" in str(e):
            ctx.fail("oracle", "%s writes into an input array (raised %r on a read-only input) instead of returning the estimates" % (name, str(e)[:80]),
                     case, key=key + ":writes-to-input")
            return False, None
        raise


def ro(arr, flag):
    if flag:
        arr.setflags(write=False)
    return arr


def nj(ctx, reason):
    ctx.not_judged += 1
    ctx.hist("not_judged", reason)


# ------------------------------------------------------------------------------------------------ positional call forms
# Every public entry point driven by this check is, in a share of the cases, also called FULLY POSITIONALLY, with non-default values,
# in the parameter order of the PRISTINE signatures.  That order is hard-coded here and at the call sites (never introspected at run
# time: a changed tree must not redefine the expected order):
#   ssi.build_hank(Y, Yref, br, method, calc_unc, nb)
#   ssi.SSI(H, br, ordmax, step)
#   ssi.SSI_fast(H, br, ordmax, step, calc_unc, T, nb)
#   ssi.SSI_poles(Obs, AA, CC, ordmax, dt, step, calc_unc, Q1, Q2, Q3, Q4)
#   ssi.ac2mp(A, C, dt, calc_unc)
#   ssi.SSI_mpe(freq_ref, Fn_pol, Xi_pol, Phi_pol, order, Lab, rtol, Fn_cov, Xi_cov, Phi_cov)
#   SSIdat / SSIcov(run_params, name)        SSIdat / SSIcov .mpe(sel_freq, order, rtol)
#   SingleSetup(data, fs)                    SingleSetup.mpe(name, sel_freq, order, rtol)
# Required: (a) the same answer as the call with keywords (bit-equal: same function, same values), (b) the oracle of the property on it
# (applied to the positional result itself, or to the keyword result it is bit-equal to).

def _same_poles_any_order(a, b, tol=1e-9):
    """(fn, xi, phi, lam) of two calls describe the same poles: the property fixes neither the order of the poles of one model order nor the
    last bits (the branch with the extra outputs may use another eigen-solver route), so the rows are matched by continuous-time pole."""
    try:
        fa, xa, pa, la = [np.asarray(x) for x in a]
        fb, xb, pb, lb = [np.asarray(x) for x in b]
        if fa.shape != fb.shape or pa.shape != pb.shape or la.shape != lb.shape:
            return False
        used = set()
        for i in range(len(la)):
            if la[i] != la[i]:
                cands = [j for j in range(len(lb)) if j not in used and lb[j] != lb[j]]
            else:
                cands = [j for j in range(len(lb)) if j not in used and lb[j] == lb[j] and abs(lb[j] - la[i]) <= tol * max(1.0, abs(la[i]))]
            hit = None
            for j in cands:
                same_f = (fa[i] != fa[i] and fb[j] != fb[j]) or abs(fa[i] - fb[j]) <= tol * max(1.0, abs(fa[i]))
                same_x = (xa[i] != xa[i] and xb[j] != xb[j]) or abs(xa[i] - xb[j]) <= tol
                va, vb = pa[i] if pa.shape[0] == len(la) else pa[:, i], pb[j] if pb.shape[0] == len(lb) else pb[:, j]
                same_p = bool(np.all((np.abs(va - vb) <= 1e-7) | ((va != va) & (vb != vb))))
                if same_f and same_x and same_p:
                    hit = j
                    break
            if hit is None:
                return False
            used.add(hit)
        return True
    except Exception:
        return False


def same_nested(a, b):
    if a is None or b is None:
        return a is None and b is None
    if isinstance(a, (list, tuple)) or isinstance(b, (list, tuple)):
        return (isinstance(a, (list, tuple)) and isinstance(b, (list, tuple)) and len(a) == len(b)
                and all(same_nested(x, y) for x, y in zip(a, b)))
    return same_arrays(a, b)


def pos_call(ctx, entry, form, call, case):
    """Run the positional form of a call whose keyword form has just succeeded on the same values."""
    ctx.hist("positional-call", entry)
    try:
        return True, call()
    except Exception as e:  # noqa: BLE001 - whatever it raises, the documented positional call is lost
        ctx.fail("oracle", "%s raises %s (%s) although the same call with keywords succeeds: the positional arguments no longer reach "
                 "the documented parameters" % (form, type(e).__name__, str(e)[:100]), dict(case, positional=form), key="C01:%s:positional-call" % entry)
        return False, None


def pos_same(ctx, entry, form, kw_out, pos_out, case, what="answer"):
    if same_nested(kw_out, pos_out):
        return True
    ctx.fail("oracle", "%s gives a different %s from the same call with keywords (documented parameter order of %s: the positional values "
             "are bound to other parameters, or fall back to defaults)" % (form, what, entry), dict(case, positional=form),
             key="C01:%s:positional-call" % entry)
    return False


# ------------------------------------------------------------------------------------------------ generators
def unimodular(rng, n, shears):
    """Integer matrix P with integer inverse (product of elementary shears and one permutation)."""
    P = np.eye(n, dtype=np.int64)
    Pi = np.eye(n, dtype=np.int64)
    for _ in range(shears):
        i, j = rng.choice(n, size=2, replace=False) if n > 1 else (0, 0)
        if i == j:
            break
        s = int(rng.choice([-1, 1]))
        E = np.eye(n, dtype=np.int64)
        E[i, j] = s
        Ei = np.eye(n, dtype=np.int64)
        Ei[i, j] = -s
        P = P @ E
        Pi = Ei @ Pi
    perm = rng.permutation(n)
    P = P[:, perm]
    Pi = Pi[perm, :]
    assert np.array_equal(P @ Pi, np.eye(n, dtype=np.int64))
    return P, Pi


def exact_system(rng, n, l, den=8, rmin=0.35, rmax=0.97, allow_unstable=False):
    """A (n x n), C (l x n) with short dyadic entries and exactly known eigen-pairs.
    Returns A, C, pairs = [(lambda complex, psi complex vector)], all exactly representable."""
    for _ in range(200):
        blocks, used = [], set()
        k = 0
        ok = True
        while k < n:
            for _t in range(100):
                p = int(rng.integers(-den, den + 1))
                q = int(rng.integers(1, den + 1))
                if k == n - 1:
                    q = 0
                    if p == 0:
                        continue
                mod = np.hypot(p, q) / den
                hi = 1.25 if allow_unstable else rmax
                if rmin <= mod <= hi and (p, q) not in used:
                    used.add((p, q))
                    break
            else:
                ok = False
                break
            blocks.append((p, q))
            k += 2 if q else 1
        if not ok:
            continue
        Abd = np.zeros((n, n))
        vs, lams = [], []
        k = 0
        for (p, q) in blocks:
            if q:
                Abd[k:k + 2, k:k + 2] = np.array([[p, q], [-q, p]]) / den
                for sgn in (1, -1):
                    v = np.zeros(n, complex)
                    v[k] = 1
                    v[k + 1] = sgn * 1j
                    vs.append(v)
                    lams.append(complex(p, sgn * q) / den)
                k += 2
            else:
                Abd[k, k] = p / den
                v = np.zeros(n, complex)
                v[k] = 1
                vs.append(v)
                lams.append(complex(p, 0) / den)
                k += 1
        P, Pi = unimodular(rng, n, shears=n)
        A = Pi @ Abd @ P
        C = rng.integers(-24, 25, size=(l, n)) / 8.0  # wide enough that coincidental exact ties / zero shapes are rare
        pairs = [(lam, Pi.astype(float) @ v) for lam, v in zip(lams, vs)]
        return A, C, pairs
    raise RuntimeError("generator could not place the poles")


def obs_matrix(A, C, nb):
    blocks, M = [], C.copy()
    for _ in range(nb):
        blocks.append(M)
        M = M @ A
    return np.vstack(blocks)


def unity(v):
    k = int(np.argmax(np.abs(v)))
    return v / v[k]


def mac(a, b):
    return abs(np.vdot(a, b)) ** 2 / (np.vdot(a, a).real * np.vdot(b, b).real)


def cvec(v):
    return clist([qc_c(z) for z in v])


def parse_cvec(s):
    s = s.strip()
    if s == "nan":
        return None
    return np.array([parse_c(t) for t in s.split(" ")])


def margin_ok(s):
    best, second = (float(parse_q(t)) for t in s.split(" "))
    return best > 0 and (best - second) > 1e-6 * best


# ------------------------------------------------------------------------------------------------ stage (i)
def shift_of_pair(A, C, l, br):
    """Basis-free image of a realisation: shift operator of its own observability matrix (NumPy side)."""
    Oh = obs_matrix(A, C, br + 1)
    Op, Om = Oh[:-l, :], Oh[l:, :]
    if np.linalg.matrix_rank(Op) < Op.shape[1]:
        return None
    return Om @ np.linalg.pinv(Op)


def rational_orthogonal(rng, k):
    """k x k orthogonal matrix with small rational entries: product of two Householder reflections I - 2 v v^T / v^T v, integer v."""
    Q = [[Fraction(int(i == j)) for j in range(k)] for i in range(k)]
    for _ in range(2):
        while True:
            v = [int(x) for x in rng.integers(-2, 3, size=k)]
            if sum(abs(x) for x in v) >= min(k, 2):
                break
        vv = sum(x * x for x in v)
        Hh = [[Fraction(int(i == j)) - Fraction(2 * v[i] * v[j], vv) for j in range(k)] for i in range(k)]
        Q = [[sum(Q[i][t] * Hh[t][j] for t in range(k)) for j in range(k)] for i in range(k)]
    return Q


def stage_realise_case(ctx, case, exprs, meta):
    """family 'product': H = O.Gamma of a true system (judged at the rank, with the oracle);
    family 'svd': H = U diag(s) V^T with exactly known rational orthogonal factors (every order judged from the exact columns of U)."""
    l, r, br, n, ordmax, fam = case["l"], case["r"], case["br"], case["n"], case["ordmax"], case["family"]
    if fam == "product":
        A0 = np.array(case["A"])
        C0 = np.array(case["C"])
        Gam = np.array(case["Gamma"])
        lam_true = np.array([complex(z[0], z[1]) for z in case["lam"]])
        psi_true = [np.array([complex(z[0], z[1]) for z in v]) for v in case["psi"]]
        O = obs_matrix(A0, C0, br + 1)
        H = O @ Gam
        small = dict(family=fam, l=l, r=r, br=br, n=n, ordmax=ordmax, A=case["A"], C=case["C"], Gamma=case["Gamma"])
    else:
        Uq = [[Fraction(x) for x in row] for row in case["U"]]
        Uf = np.array([[float(x) for x in row] for row in Uq])
        Vf = np.array([[float(Fraction(x)) for x in row] for row in case["V"]])
        sg = np.array(case["sigma"])
        H = (Uf * sg) @ Vf.T
        small = dict(family=fam, l=l, r=r, br=br, n=n, ordmax=ordmax, U=case["U"], V=case["V"], sigma=case["sigma"])
    s = np.linalg.svd(H, compute_uv=False)
    ctx.hist("stage.%s(l,r,br,n)" % fam, (l, r, br, n))
    if s[0] / s[n - 1] > COND_STAGE:
        nj(ctx, "stage: Hankel conditioning")
        return
    ctx.count(dict(kind="realise", **case), nontrivial=(l != r and n >= 2))
    ctx.sample(dict(kind="realise", family=fam, l=l, r=r, br=br, n=n, ordmax=ordmax))
    step = int(case.get("step", 1))
    small["step"] = step
    routines = []
    H0 = H.copy()
    ro(H, case.get("readonly"))
    ctx.hist("stage.step", step)
    for name, call in (("SSI_fast", lambda: ssi.SSI_fast(H, br, ordmax, step=step)[1:3]), ("SSI", lambda: ssi.SSI(H, br, ordmax, step=step)[0:2])):
        try:
            ok, out = guarded(ctx, name, call, small, "C01:%s" % name)
            if not ok:
                continue
            AA, CC = out
            if not same_arrays(H, H0):
                ctx.fail("oracle", "%s modified the Hankel matrix it was given" % name, small, key="C01:%s:input-modified" % name)
                H = H0.copy()
        except np.linalg.LinAlgError:
            if ordmax > n and s[ordmax - 1] <= 1e-12 * s[0]:
                # orders above the exact rank: the triangular factor of O_p is exactly singular and np.linalg.inv raises for the whole call.
                # The property speaks about order = rank with ordmax within the rank; recorded, not judged.
                ctx.note("%s raises LinAlgError when ordmax exceeds the exact rank of H and a trailing singular value is exactly 0 "
                         "(e.g. an all-zero Hankel column): all orders are lost, including the valid ones; outside the property's domain" % name)
                nj(ctx, "stage: ordmax beyond exact rank raises")
                continue
            ctx.fail("oracle", "%s raised LinAlgError on a rank-%d Hankel matrix with ordmax=%d" % (name, n, ordmax), small, key="C01:%s:raises" % name)
            continue
        routines.append((name, AA, CC))
        if step > 1:
            # the same call fully positionally (pristine order H, br, ordmax, step): bit-equal lists, which the oracle below then judges
            form = "%s(H, %d, %d, %d) [H, br, ordmax, step]" % (name, br, ordmax, step)
            okp, outp = pos_call(ctx, name, form, (lambda: ssi.SSI_fast(H, br, ordmax, step)[1:3]) if name == "SSI_fast"
                                 else (lambda: ssi.SSI(H, br, ordmax, step)[0:2]), small)
            if okp:
                pos_same(ctx, name, form, (AA, CC), outp, small, what="list of realisations")
    # one (A, C) per requested order 0, step, 2 step, ... <= ordmax; entry k IS the realisation of model order k*step
    nent = ordmax // step + 1
    for name, AA, CC in routines:
        if len(AA) != nent or len(CC) != nent:
            ctx.fail("oracle", "%s(ordmax=%d, step=%d) returns %d/%d matrices, one per order 0, %d, .. <= %d expected (%d)" % (name, ordmax, step, len(AA), len(CC), step, ordmax, nent),
                     small, key="C01:%s:list-length" % name)
            return
        for k in range(nent):
            Ak, Ck = np.asarray(AA[k]), np.asarray(CC[k])
            if Ak.shape != (k * step, k * step) or Ck.shape != (l, k * step):
                ctx.fail("oracle", "%s(ordmax=%d, step=%d): entry %d must be the realisation of model order %d (A %dx%d, C %dx%d), got A%s C%s"
                         % (name, ordmax, step, k, k * step, k * step, k * step, l, k * step, Ak.shape, Ck.shape), dict(small, entry=k),
                         key="C01:%s:shape" % name)
                return
    grid = [nn for nn in range(step, min(n, ordmax) + 1, step)]
    # both routines agree with each other at every returned order (same least-squares problem on the same singular vectors)
    if len(routines) == 2:
        for nn in grid:
            if nn < n and not s[nn - 1] > 1.2 * s[nn]:
                continue
            Wf = shift_of_pair(np.asarray(routines[0][1][nn // step]), np.asarray(routines[0][2][nn // step]), l, br)
            Wl = shift_of_pair(np.asarray(routines[1][1][nn // step]), np.asarray(routines[1][2][nn // step]), l, br)
            if Wf is not None and Wl is not None and not np.allclose(Wf, Wl, rtol=0, atol=TOL_STAGE * max(1.0, np.abs(Wl).max())):
                ctx.fail("correspondence", "SSI_fast and SSI disagree at model order %d (step=%d): shift operators differ by %.3g" % (nn, step, np.abs(Wf - Wl).max()),
                         dict(small, order=nn), key="C01:SSI_fast-vs-SSI:order")
    for nn in (grid if fam == "svd" else [n] if n in grid else []):
        if fam == "svd":
            exprs.append("show_pair %d %s" % (l, qc_mat([row[:nn] for row in Uq])))
        else:
            exprs.append("show_pair %d %s" % (l, qc_mat(O)))
        per = []
        for name, AA, CC in routines:
            An, Cn = np.asarray(AA[nn // step]), np.asarray(CC[nn // step])
            per.append((name, shift_of_pair(An, Cn, l, br)))
            if fam == "product":
                # ---- oracle: the realisation step alone recovers the poles and shapes of the true system (property text)
                lam_hat, vec = np.linalg.eig(An)
                shp = Cn @ vec
                bad = None
                used = set()
                for lt, pt in zip(lam_true, psi_true):
                    j = int(np.argmin(np.abs(lam_hat - lt)))
                    if abs(lam_hat[j] - lt) > TOL_STAGE * 10 or j in used:
                        bad = "pole %s of the true system is missing (nearest identified %s)" % (lt, lam_hat[j])
                        break
                    used.add(j)
                    m_ = mac(shp[:, j], C0 @ pt)
                    if not m_ > 1 - TOL_STAGE:
                        bad = "shape of pole %s has MAC %.12f with the true shape" % (lt, m_)
                        break
                if bad:
                    ctx.fail("oracle", "%s on an exact rank-%d Hankel product, order %d (step=%d): %s" % (name, n, n, step, bad), dict(small, order=nn),
                             key="C01:%s:exact-recovery" % name)
                # span of the rebuilt observability matrix = span of O
                Oh = obs_matrix(An, Cn, br + 1)
                res = Oh - O @ np.linalg.lstsq(O, Oh, rcond=None)[0]
                if np.abs(res).max() > TOL_STAGE * max(1.0, np.abs(Oh).max()):
                    ctx.fail("oracle", "%s order %d: [C; CA; ...] of the returned pair leaves the column space of the true observability matrix"
                             % (name, n), dict(small, order=nn), key="C01:%s:span" % name)
        meta.append((dict(small, order=nn, source="known O" if fam == "product" else "known singular vectors"), per, (l, br)))


def stage_realise(ctx, cases):
    exprs, meta = [], []
    for case in cases:
        stage_realise_case(ctx, case, exprs, meta)
    res = ctx.coq_eval(HEADER, exprs, shard=2)
    for (case, per, (l, br)), sres in zip(meta, res):
        sa, sc = sres.split("|")
        if sa == "none":
            nj(ctx, "stage: model left inverse undefined")
            continue
        # the model's exact pair (A_n, C_n); both sides are compared ONLY through the basis-free shift operator of their own
        # observability matrix, W = Ohat[l:] pinv(Ohat[:-l]) (invariant under (A, C) -> (T^-1 A T, C T))
        Am = np.array([[float(x) for x in row] for row in parse_mat(sa)])
        Cm = np.array([[float(x) for x in row] for row in parse_mat(sc)])
        W = shift_of_pair(Am, Cm, l, br)
        if W is None:
            nj(ctx, "stage: rebuilt observability rank deficient")
            continue
        scale = max(1.0, np.abs(W).max())
        for name, What in per:
            if What is None:
                continue
            if What.shape != W.shape or not np.allclose(What, W, rtol=0, atol=TOL_STAGE * scale):
                ctx.fail("correspondence", "%s order %d (%s): shift operator of the returned (A_n, C_n) differs from the model by %.3g"
                         % (name, case["order"], case["source"], np.abs(What - W).max() if What.shape == W.shape else float("inf")),
                         case, key="C01:%s:shift-operator" % name)


def gen_stage_case(rng, n, l, r, br, extra):
    for _ in range(50):
        A, C, pairs = exact_system(rng, n, l, den=(4 if br >= 4 else 8))  # short dyadics: entries of O stay cheap in Qc
        O = obs_matrix(A, C, br + 1)
        if np.linalg.cond(O[:-l, :]) < 60:
            break
    Gam = rng.integers(-8, 9, size=(n, (br + 1) * r)) / 4.0
    ordmax = min(n + min(extra, 2), (br + 1) * r, br * l)
    return dict(family="product", l=l, r=r, br=br, n=n, ordmax=ordmax, A=A.tolist(), C=C.tolist(), Gamma=Gam.tolist(),
                lam=[[z.real, z.imag] for z, _ in pairs], psi=[[[w.real, w.imag] for w in v] for _, v in pairs])


def gen_svd_case(rng, n, l, r, br, extra):
    rows, cols = (br + 1) * l, (br + 1) * r
    for _ in range(50):
        U = rational_orthogonal(rng, rows)
        Uf = np.array([[float(x) for x in row[:n]] for row in U])
        if all(np.linalg.cond(Uf[:-l, :k]) < 40 for k in range(1, n + 1)):
            break
    V = rational_orthogonal(rng, cols)
    sigma = [float(2.0 ** (2 - k) * (1.25 if rng.integers(0, 2) else 1.0)) for k in range(n)]
    ordmax = min(n + extra, cols, br * l)
    return dict(family="svd", l=l, r=r, br=br, n=n, ordmax=ordmax, U=[["%d/%d" % (x.numerator, x.denominator) for x in row[:n]] for row in U],
                V=[["%d/%d" % (x.numerator, x.denominator) for x in row[:n]] for row in V], sigma=sigma)


# ------------------------------------------------------------------------------------------------ stages (ii) and (iii)
def model_modes_exprs(A, C, pairs, dt):
    """Coq expressions for every known eigen-pair: exact shape + algebraic fn/xi part from the harness's own log."""
    ex = []
    for lam, psi in pairs:
        lam_c = np.log(complex(lam)) / dt  # the transcendental kernel, applied by the harness
        ex.append("show_mode %s %s %s %s" % (qc_mat(A), qc_mat(C), qc_c(lam), cvec(psi)))
        ex.append("show_fx %s" % qc_c(lam_c))
    return ex


def model_modes_parse(res, pairs, dt):
    out = []
    for k, (lam, psi) in enumerate(pairs):
        cert, shape, marg = res[2 * k].split("|")
        w2, xi2, re = res[2 * k + 1].split(" ")
        out.append(dict(lam=complex(lam), lam_c=np.log(complex(lam)) / dt, cert=(cert == "T"), shape=parse_cvec(shape),
                        decisive=margin_ok(marg), w2=float(parse_q(w2)), xi2=float(parse_q(xi2)), re=float(parse_q(re))))
    return out


def compare_modes(ctx, site, case, modes, fn, xi, phi, lam_c, dt, exact_zero=False):
    """modes: model values per known eigen-pair; fn, xi, phi (rows), lam_c: implementation values in LAPACK's order."""
    n = len(modes)
    fn, xi, lam_c = np.asarray(fn), np.asarray(xi), np.asarray(lam_c)
    if len(fn) != n or len(xi) != n or len(lam_c) != n or np.asarray(phi).shape[0] != n:
        ctx.fail("oracle", "%s: %d poles returned for a %d x %d state matrix" % (site, len(fn), n, n), case, key="C01:%s:count" % site)
        return
    lam_d_impl = np.exp(lam_c * dt)
    used = set()
    for md in modes:
        if not md["cert"]:
            ctx.fail("correspondence", "%s: generator eigen-pair is not exact (harness defect)" % site, case, key="C01:%s:cert" % site)
            return
        j = int(np.argmin(np.abs(lam_d_impl - md["lam"])))
        if abs(lam_d_impl[j] - md["lam"]) > 1e-8 or j in used:
            ctx.fail("oracle", "%s: eigenvalue %s of A has no pole exp(lam_c dt) in the output (dt = %g)" % (site, md["lam"], dt), case,
                     key="C01:%s:pole-missing" % site)
            continue
        used.add(j)
        # oracle (property text): continuous pole = log(lam_d)/dt, fn = |.|/2pi, xi = -Re/|.|
        lc = md["lam_c"]
        if abs(lc) < 1e-9:  # discrete pole exactly 1: continuous pole 0, xi = 0/0; rounding of the eigen-solver decides, not judged
            nj(ctx, "modal: discrete pole exactly 1")
            continue
        fn_t, xi_t = abs(lc) / (2 * np.pi), -lc.real / abs(lc)
        if not (abs(fn[j] - fn_t) <= TOL_ALG * max(1.0, fn_t) and abs(xi[j] - xi_t) <= TOL_ALG):
            ctx.fail("oracle", "%s: pole %s, dt=%g: fn=%.12g xi=%.12g, expected fn=%.12g xi=%.12g" % (site, md["lam"], dt, fn[j], xi[j], fn_t, xi_t),
                     case, key="C01:%s:fn-xi" % site)
        if not abs(lam_c[j] - lc) <= TOL_ALG * max(1.0, abs(lc)):
            ctx.fail("oracle", "%s: continuous-time pole %s, expected log(lam_d)/dt = %s" % (site, lam_c[j], lc), case, key="C01:%s:lam_c" % site)
        # model through the transcendental boundary
        if not (abs((2 * np.pi * fn[j]) ** 2 - md["w2"]) <= TOL_ALG * max(1.0, md["w2"]) and abs(xi[j] ** 2 - md["xi2"]) <= TOL_ALG
                and (xi[j] == 0 or md["re"] == 0 or (xi[j] > 0) == (md["re"] < 0))):
            ctx.fail("correspondence", "%s: (2 pi fn)^2, xi^2 or sign differ from the model for pole %s" % (site, md["lam"]), case,
                     key="C01:%s:model-fn-xi" % site)
        row = np.asarray(phi)[j]
        if md["shape"] is None:
            if not exact_zero:  # C psi = 0 only in exact arithmetic (unobservable pole): rounding decides, not judged
                nj(ctx, "modal: unobservable pole (exact zero shape)")
                continue
            if not np.all(np.isnan(row)):
                ctx.fail("correspondence", "%s: an all-zero shape must normalise to NaN (0/0)" % site, case, key="C01:%s:nan-shape" % site)
            continue
        if not md["decisive"]:
            nj(ctx, "modal: argmax tie or near tie")
            continue
        if row.shape != md["shape"].shape or not np.allclose(row, md["shape"], rtol=0, atol=TOL_ALG * 10):
            ctx.fail("correspondence", "%s: normalised shape of pole %s differs from the model" % (site, md["lam"]), case, key="C01:%s:model-shape" % site)
            # the same against the property text: component of largest modulus exactly 1, MAC 1 with C psi
        truth = md["shape"]
        k = int(np.argmax(np.abs(truth)))
        if not (np.all(np.isfinite(row)) and abs(row[k] - 1) <= 1e-12 and np.max(np.abs(row)) <= 1 + 1e-12 and mac(row, truth) > 1 - 1e-10):
            ctx.fail("oracle", "%s: shape of pole %s is not the unity-normalised C psi (largest component must be exactly 1, MAC 1)" % (site, md["lam"]),
                     case, key="C01:%s:shape" % site)


def gen_ac2mp_case(rng, kind):
    n = int(rng.integers(1, 7))
    l = int(rng.integers(1, 6))
    if l == n:
        l += 1
    dt = float(rng.choice([0.5, 0.01, 0.125, 2.0, 0.004]))
    A, C, pairs = exact_system(rng, n, l, allow_unstable=(kind == "unstable"))
    if kind == "zero-row":
        C[int(rng.integers(0, l)), :] = 0
    if kind == "zero-shape":
        C[:, :] = 0
    if kind == "tie":  # two components of exactly equal modulus: first index must win
        C[l - 1, :] = -C[0, :]
    return dict(kind=kind, n=n, l=l, dt=dt, A=A.tolist(), C=C.tolist(), lam=[[z.real, z.imag] for z, _ in pairs],
                psi=[[[w.real, w.imag] for w in v] for _, v in pairs])


def case_pairs(case):
    return [(complex(z[0], z[1]), np.array([complex(w[0], w[1]) for w in v])) for z, v in zip(case["lam"], case["psi"])]


def stage_ac2mp(ctx, cases):
    exprs, spans = [], []
    for case in cases:
        A, C, dt = np.array(case["A"]), np.array(case["C"]), case["dt"]
        pairs = case_pairs(case)
        ex = model_modes_exprs(A, C, pairs, dt)
        spans.append((len(exprs), len(ex)))
        exprs += ex
    res = ctx.coq_eval(HEADER, exprs, shard=40)
    for ci, (case, (a, k)) in enumerate(zip(cases, spans)):
        A, C, dt = np.array(case["A"]), np.array(case["C"]), case["dt"]
        pairs = case_pairs(case)
        modes = model_modes_parse(res[a:a + k], pairs, dt)
        ctx.count(dict(kind_="ac2mp", **case), nontrivial=(case["n"] >= 2))
        ctx.hist("ac2mp.kind", case["kind"])
        ctx.hist("ac2mp.shape(n,l)", (case["n"], case["l"]))
        A0, C0 = A.copy(), C.copy()
        ro(A, case.get("readonly")), ro(C, case.get("readonly"))
        ok, out = guarded(ctx, "ac2mp", lambda: ssi.ac2mp(A, C, dt), case, "C01:ac2mp")
        if not ok:
            continue
        fn, xi, phi, lam_c, *_ = out
        if not (same_arrays(A, A0) and same_arrays(C, C0)):
            ctx.fail("oracle", "ac2mp modified the matrices it was given", case, key="C01:ac2mp:input-modified")
            continue
        if ci % 3 == 0:
            # fully positional, pristine order (A, C, dt, calc_unc) with the non-default calc_unc=True: same seven outputs as with the keyword;
            # fn, xi, shapes and poles bit-equal to the plain call judged below; the extra outputs are there and are the eigenvalues of A
            form = "ac2mp(A, C, %g, True) [A, C, dt, calc_unc]" % dt
            kwo = ssi.ac2mp(A, C, dt, calc_unc=True)
            okp, pso = pos_call(ctx, "ac2mp", form, lambda: ssi.ac2mp(A, C, dt, True), case)
            if okp and pos_same(ctx, "ac2mp", form, tuple(kwo), tuple(pso), case):
                if not (_same_poles_any_order(pso[:4], (fn, xi, phi, lam_c)) and pso[4] is not None and pso[5] is not None and pso[6] is not None
                        and np.asarray(pso[4]).shape == (len(pairs),) and all(np.min(np.abs(np.asarray(pso[4]) - complex(z))) <= 1e-8 for z, _ in pairs)):
                    ctx.fail("oracle", "%s: fn, xi, shapes, poles must be those of ac2mp(A, C, dt) and the discrete eigenvalues / eigenvectors must be returned"
                             % form, dict(case, positional=form), key="C01:ac2mp:positional-call")
        if case["kind"] == "tie":
            # exact tie by construction (|C[0]psi| = |C[l-1]psi|): np.argmax takes the first; the model's margin is 0, so decide here
            # (inputs are short dyadics, so the squared moduli below are exact in floating point); any OTHER exact tie is decided by
            # rounding in the implementation and stays not judged
            for md, (_, psi) in zip(modes, pairs):
                v = C @ psi
                m2 = v.real ** 2 + v.imag ** 2
                if md["shape"] is not None and np.flatnonzero(m2 == m2.max()).tolist() == [0, case["l"] - 1]:
                    md["decisive"] = True
        compare_modes(ctx, "ac2mp", case, modes, fn, xi, phi, lam_c, dt, exact_zero=(case["kind"] == "zero-shape"))


def gen_poles_case(rng, ordmax, l):
    dt = float(rng.choice([0.5, 0.01, 0.125]))
    orders = []
    for ii in range(1, ordmax + 1):
        A, C, pairs = exact_system(rng, ii, l)
        orders.append(dict(A=A.tolist(), C=C.tolist(), lam=[[z.real, z.imag] for z, _ in pairs],
                           psi=[[[w.real, w.imag] for w in v] for _, v in pairs]))
    return dict(ordmax=ordmax, l=l, dt=dt, orders=orders)


def stage_poles(ctx, cases):
    exprs, index = [], []
    for ci, case in enumerate(cases):
        exprs.append("show_nanpat %d %s" % (case["ordmax"], clist(["%d%%nat" % k for k in range(case["ordmax"] + 1)])))
        index.append((ci, "pat", None))
        for ii, od in enumerate(case["orders"], start=1):
            ex = model_modes_exprs(np.array(od["A"]), np.array(od["C"]), case_pairs(od), case["dt"])
            index.append((ci, "ord", (ii, len(exprs), len(ex))))
            exprs += ex
    res = ctx.coq_eval(HEADER, exprs, shard=60)
    pos = 0
    by_case = {}
    for (ci, what, info) in index:
        if what == "pat":
            by_case.setdefault(ci, {})["pat"] = res[pos]
            pos += 1
        else:
            ii, a, k = info
            by_case[ci].setdefault("ord", {})[ii] = res[a:a + k]
            pos = a + k
    for ci, case in enumerate(cases):
        ordmax, l, dt = case["ordmax"], case["l"], case["dt"]
        AA = [np.zeros((0, 0))] + [np.array(od["A"]) for od in case["orders"]]
        CC = [np.zeros((l, 0))] + [np.array(od["C"]) for od in case["orders"]]
        ctx.count(dict(kind_="poles", **case), nontrivial=(ordmax >= 2))
        ctx.hist("poles.shape(ordmax,l)", (ordmax, l))
        small = dict(kind="SSI_poles", ordmax=ordmax, l=l, dt=dt, orders=case["orders"])
        AA0, CC0 = [x.copy() for x in AA], [x.copy() for x in CC]
        for x in AA + CC:
            ro(x, case.get("readonly"))
        ok, out = guarded(ctx, "SSI_poles", lambda: ssi.SSI_poles(None, AA, CC, ordmax, dt), small, "C01:SSI_poles")
        if not ok:
            continue
        Fn, Xi, Phi, Lam, *_ = out
        if not (len(AA) == len(AA0) and len(CC) == len(CC0) and all(same_arrays(x, y) for x, y in zip(AA + CC, AA0 + CC0))):
            ctx.fail("oracle", "SSI_poles modified the lists of matrices it was given", small, key="C01:SSI_poles:input-modified")
            continue
        if ci % 2 == 0:
            # both call forms of the table assembly (the call above is positional in its five required parameters): all keywords against
            # positional up to calc_unc in the pristine order; bit-equal to each other and to the tables judged below.  (step > 1 cannot
            # be used here: on the unchanged tree SSI_poles indexes columns by the order itself; the full eleven-parameter positional
            # call with calc_unc=True is made in the end-to-end stage.)
            form = "SSI_poles(None, AA, CC, %d, %g, 1, False) [Obs, AA, CC, ordmax, dt, step, calc_unc]" % (ordmax, dt)
            kwo = ssi.SSI_poles(Obs=None, AA=AA, CC=CC, ordmax=ordmax, dt=dt, step=1, calc_unc=False)
            okp, pso = pos_call(ctx, "SSI_poles", form, lambda: ssi.SSI_poles(None, AA, CC, ordmax, dt, 1, False), small)
            if okp and pos_same(ctx, "SSI_poles", form, tuple(kwo), tuple(pso), small, what="set of pole tables"):
                pos_same(ctx, "SSI_poles", form, tuple(out), tuple(pso), small, what="set of pole tables (than SSI_poles(None, AA, CC, ordmax, dt))")
        if Fn.shape != (ordmax, ordmax + 1) or Xi.shape != Fn.shape or Lam.shape != Fn.shape or Phi.shape != (ordmax, ordmax + 1, l):
            ctx.fail("oracle", "SSI_poles: table shapes %s %s %s %s for ordmax=%d, %d channels" % (Fn.shape, Xi.shape, Phi.shape, Lam.shape, ordmax, l),
                     small, key="C01:SSI_poles:shape")
            continue
        pat = ";".join("".join("T" if np.isnan(Fn[rw, cl]) else "F" for cl in range(ordmax + 1)) for rw in range(ordmax))
        # shapes may be NaN inside a filled cell only for an unobservable pole (0/0, see compare_modes); outside they must all be NaN
        same = all(np.array_equal(np.isnan(Fn), np.isnan(T)) for T in (Xi, Lam)) and bool(np.all(np.isnan(Phi[np.isnan(Fn)])))
        if pat != by_case[ci]["pat"] or not same:
            # property text: order ii holds its ii poles in column ii; nothing else
            ctx.fail("oracle", "SSI_poles: column ii must hold the ii poles of order ii in rows 0..ii-1 and NaN elsewhere; got pattern %s" % pat, small,
                     key="C01:SSI_poles:nan-pattern")
            continue
        for ii, od in enumerate(case["orders"], start=1):
            modes = model_modes_parse(by_case[ci]["ord"][ii], case_pairs(od), dt)
            compare_modes(ctx, "SSI_poles", dict(small, order=ii), modes, Fn[:ii, ii], Xi[:ii, ii], Phi[:ii, ii, :], Lam[:ii, ii], dt)


# ------------------------------------------------------------------------------------------------ stage (iv)
def modal_system(rng, m, l, fs, cplx):
    for _ in range(1000):
        fn = np.sort(rng.uniform(0.01, 0.45, size=m)) * fs
        if m == 1 or np.min(np.diff(fn)) > 0.02 * fs:
            break
    xi = rng.uniform(0.002, 0.08, size=m)
    phi = rng.normal(size=(l, m)) + (1j * rng.normal(size=(l, m)) if cplx else 0)
    amp = rng.uniform(0.5, 2, size=m) * np.exp(1j * rng.uniform(0, 2 * np.pi, size=m))
    return fn, xi, phi, amp


def free_decay(fn, xi, phi, amp, fs, N):
    """Noise-free free vibration: y(t) = sum_j 2 Re(a_j phi_j exp(lam_j t))."""
    w = 2 * np.pi * np.asarray(fn)
    lam = -np.asarray(xi) * w + 1j * w * np.sqrt(1 - np.asarray(xi) ** 2)
    t = np.arange(N) / fs
    Y = np.zeros((N, phi.shape[0]))
    for j in range(len(lam)):
        Y += 2 * np.real(np.outer(np.exp(lam[j] * t) * amp[j], phi[:, j]))
    return Y, lam


def realisation_worst(An, Cn, lam, fs, fn, xi, phi):
    """Largest error (relative fn, absolute xi, 1-MAC) of the poles and shapes of a realisation (A_n, C_n) against the true system."""
    w, v = np.linalg.eig(An)
    shp = Cn @ v
    worst, what = 0.0, ""
    for j in range(len(fn)):
        i = int(np.argmin(np.abs(w - np.exp(lam[j] / fs))))
        lc = np.log(w[i]) * fs
        f, x = abs(lc) / (2 * np.pi), -lc.real / abs(lc)
        e = max(abs(f - fn[j]) / fn[j], abs(x - xi[j]), 1 - mac(shp[:, i], phi[:, j]))
        if not e <= worst:
            worst, what = e, "mode %d: identified fn=%.9g xi=%.6g, true fn=%.9g xi=%.6g, 1-MAC %.3g" % (j, f, x, fn[j], xi[j], 1 - mac(shp[:, i], phi[:, j]))
    return worst, what


def e2e_positional_unc_chain(ctx, cs, Y, lam, fn, xi, phi, fs, br, ref, ordmax, nb, cond, kw_hank, kw_fast, kw_poles):
    """The function-level chain with uncertainties, every call fully positional in the pristine parameter order and with non-default
    values (calc_unc=True, nb != 100, T and Q1..Q4 given; step=2 for SSI_fast): bit-equal to the keyword chain, true poles in it."""
    m = len(fn)
    tol = tol_e2e(cond)
    f1 = "build_hank(Y, Yref, %d, 'cov_mm', True, %d) [Y, Yref, br, method, calc_unc, nb]" % (br, nb)
    ok, hp = pos_call(ctx, "build_hank", f1, lambda: ssi.build_hank(Y.T, Y.T[ref, :], br, "cov_mm", True, nb), cs)
    if not (ok and pos_same(ctx, "build_hank", f1, tuple(kw_hank), tuple(hp), cs, what="Hankel matrix / covariance factor")):
        return
    f2 = "SSI_fast(H, %d, %d, 1, True, T, %d) [H, br, ordmax, step, calc_unc, T, nb]" % (br, ordmax, nb)
    ok, op = pos_call(ctx, "SSI_fast", f2, lambda: ssi.SSI_fast(hp[0], br, ordmax, 1, True, hp[1], nb), cs)
    if not (ok and pos_same(ctx, "SSI_fast", f2, tuple(kw_fast), tuple(op), cs, what="set of realisations / sensitivity factors")):
        return
    f3 = "SSI_poles(Obs, AA, CC, %d, %.9g, 1, True, Q1, Q2, Q3, Q4) [Obs, AA, CC, ordmax, dt, step, calc_unc, Q1, Q2, Q3, Q4]" % (ordmax, 1.0 / fs)
    ok, pp = pos_call(ctx, "SSI_poles", f3, lambda: ssi.SSI_poles(op[0], op[1], op[2], ordmax, 1.0 / fs, 1, True, op[3], op[4], op[5], op[6]), cs)
    if ok and pos_same(ctx, "SSI_poles", f3, tuple(kw_poles), tuple(pp), cs, what="set of pole / variance tables"):
        # oracle on the positional result: column 2m holds, for every true mode, exactly two poles with its fn and xi; finite variances
        Fc, Xc, Vc = np.asarray(pp[0])[:, 2 * m], np.asarray(pp[1])[:, 2 * m], np.asarray(pp[4])[:, 2 * m]
        for j in range(m):
            idx = [i for i in range(len(Fc)) if np.isfinite(Fc[i]) and abs(Fc[i] - fn[j]) <= tol * fn[j]]
            if not (len(idx) == 2 and all(abs(Xc[i] - xi[j]) <= tol and np.isfinite(Vc[i]) and Vc[i] < 0.2 for i in idx)):
                ctx.fail("oracle", "%s: order %d of the table does not hold the conjugate pair of mode %d (fn=%.9g, xi=%.6g) with a finite variance below "
                         "the default limit" % (f3, 2 * m, j, fn[j], xi[j]), dict(cs, positional=f3), key="C01:SSI_poles:positional-call")
                break
    # SSI_fast once more with the non-default step=2 (entry k = order 2k; entry m is the order-2m realisation of the true system)
    f4 = "SSI_fast(H, %d, %d, 2, True, T, %d) [H, br, ordmax, step, calc_unc, T, nb]" % (br, ordmax, nb)
    try:
        kw4 = ssi.SSI_fast(kw_hank[0], br, ordmax, step=2, calc_unc=True, T=kw_hank[1], nb=nb)
    except np.linalg.LinAlgError:
        nj(ctx, "e2e-unc: LinAlgError in the sensitivity of a rounding-level singular value")
        return
    ok, p4 = pos_call(ctx, "SSI_fast", f4, lambda: ssi.SSI_fast(kw_hank[0], br, ordmax, 2, True, kw_hank[1], nb), cs)
    if ok and pos_same(ctx, "SSI_fast", f4, tuple(kw4), tuple(p4), cs, what="set of realisations / sensitivity factors"):
        AA, CC = p4[1], p4[2]
        if not (len(AA) == ordmax // 2 + 1 and len(CC) == len(AA) and np.asarray(AA[m]).shape == (2 * m, 2 * m) and all(q_ is not None for q_ in p4[3:7])):
            ctx.fail("oracle", "%s: one realisation per order 0, 2, .. <= %d and the four sensitivity factors expected" % (f4, ordmax),
                     dict(cs, positional=f4), key="C01:SSI_fast:positional-call")
            return
        worst, what = realisation_worst(np.asarray(AA[m]), np.asarray(CC[m]), lam, fs, fn, xi, phi)
        if not worst <= tol:
            ctx.fail("oracle", "%s on the Hankel matrix of a noise-free decay with %d modes: entry %d (order %d): %s" % (f4, m, m, 2 * m, what),
                     dict(cs, positional=f4), key="C01:SSI_fast:positional-call")


def e2e_positional_extraction(ctx, cs, cls, ss, alg, data, Y, fs, kw, method, fn, xi, phi, col, tol, gap):
    """Extraction and set-up entry points fully positionally, non-default values: SingleSetup.mpe(name, sel_freq, order, rtol),
    <algorithm>.mpe(sel_freq, order, rtol), ssi.SSI_mpe(freq_ref, Fn_pol, Xi_pol, Phi_pol, order, Lab, rtol, Fn_cov, Xi_cov, Phi_cov),
    SingleSetup(data, fs), <algorithm>(run_params, name).  Requests lie 7.5 % off the true frequencies where the spacing of the modes
    allows (beyond the default rtol of 5 %, inside the rtol=0.1 passed): a fall-back to the default rtol loses those modes, an exchange
    of order and rtol cannot run."""
    from pyoma2.setup import SingleSetup

    m, l = len(fn), phi.shape[0]
    res = alg.result
    cname = cls.__name__
    prtol = 0.1
    pj = np.minimum(0.075, 0.4 * gap / fn)
    vals = [float(f * (1 + (1 if (j + m) % 2 else -1) * p_)) for j, (f, p_) in enumerate(zip(fn, pj))]
    ctx.hist("positional-call.mpe request beyond default rtol", bool(np.any(pj > 0.055)))

    def snap():
        return (np.array(res.Fn, copy=True), np.array(res.Xi, copy=True), np.array(res.Phi, copy=True), res.order_out)

    def judge(entry, form, Fn, Xi, Phi):
        Fn, Xi, Phi = np.asarray(Fn), np.asarray(Xi), np.asarray(Phi)
        if Fn.shape != (m,) or Xi.shape != (m,) or Phi.shape != (l, m):
            ctx.fail("oracle", "%s: %s returned Fn%s Xi%s Phi%s for %d requested modes inside rtol" % (method, form, Fn.shape, Xi.shape, Phi.shape, m),
                     dict(cs, positional=form), key="C01:%s:positional-call" % entry)
            return False
        efv = np.abs(Fn - fn) / fn
        exv = np.abs(Xi - xi)
        emv = np.array([1 - max(mac(Phi[:, j], phi[:, j]), mac(Phi[:, j], np.conj(phi[:, j]))) for j in range(m)])
        if not (efv.max() <= tol and exv.max() <= tol and emv.max() <= tol):
            j = int(np.argmax(np.maximum(np.maximum(efv, exv), emv)))
            ctx.fail("oracle", "%s: %s: request %.9g: expected the identified pole fn=%.9g (xi=%.6g), got fn=%.9g xi=%.6g, 1-MAC %.3g"
                     % (method, form, vals[j], fn[j], xi[j], Fn[j], Xi[j], emv[j]), dict(cs, positional=form), key="C01:%s:positional-call" % entry)
            return False
        return True

    ss.mpe("a", sel_freq=list(vals), order=col, rtol=prtol)
    kwo = snap()
    shown = [round(v, 6) for v in vals]
    # ---- setup level: mpe(name, sel_freq, order, rtol)
    form = "SingleSetup.mpe('a', %s, %d, %g) [name, sel_freq, order, rtol]" % (shown, col, prtol)
    ok, _ = pos_call(ctx, "SingleSetup.mpe", form, lambda: ss.mpe("a", list(vals), col, prtol), cs)
    if ok:
        pso = snap()
        if pos_same(ctx, "SingleSetup.mpe", form, kwo, pso, cs, what="Fn / Xi / Phi / order_out"):
            judge("SingleSetup.mpe", form, *pso[:3])
    # ---- algorithm level: mpe(sel_freq, order, rtol)
    form = "%s.mpe(%s, %d, %g) [sel_freq, order, rtol]" % (cname, shown, col, prtol)
    ok, _ = pos_call(ctx, "%s.mpe" % cname, form, lambda: alg.mpe(list(vals), col, prtol), cs)
    if ok:
        pso = snap()
        if pos_same(ctx, "%s.mpe" % cname, form, kwo, pso, cs, what="Fn / Xi / Phi / order_out"):
            judge("%s.mpe" % cname, form, *pso[:3])
        if not (alg.run_params.order_in == col and alg.run_params.rtol == prtol and list(alg.run_params.sel_freq) == vals):
            ctx.fail("oracle", "%s: the run parameters record sel_freq=%s order_in=%s rtol=%s" % (form, alg.run_params.sel_freq, alg.run_params.order_in,
                     alg.run_params.rtol), dict(cs, positional=form), key="C01:%s.mpe:positional-call" % cname)
    # ---- function level: SSI_mpe, all ten parameters; variance tables: those of the run, or stand-ins derived from the pole tables
    Fp, Xp, Pp, Lab = res.Fn_poles, res.Xi_poles, res.Phi_poles, res.Lab
    if res.Fn_poles_cov is not None:
        c1, c2, c3 = res.Fn_poles_cov, res.Xi_poles_cov, res.Phi_poles_cov
    else:
        c1, c2, c3 = np.abs(Fp) * 0.001, np.abs(Xp) * 0.01, np.abs(Pp) * 0.1
    form = "SSI_mpe(%s, Fn_pol, Xi_pol, Phi_pol, %d, Lab, %g, Fn_cov, Xi_cov, Phi_cov) [freq_ref, Fn_pol, Xi_pol, Phi_pol, order, Lab, rtol, Fn_cov, Xi_cov, Phi_cov]" % (shown, col, prtol)
    kwf = ssi.SSI_mpe(freq_ref=list(vals), Fn_pol=Fp, Xi_pol=Xp, Phi_pol=Pp, order=col, Lab=Lab, rtol=prtol, Fn_cov=c1, Xi_cov=c2, Phi_cov=c3)
    ok, psf = pos_call(ctx, "SSI_mpe", form, lambda: ssi.SSI_mpe(list(vals), Fp, Xp, Pp, col, Lab, prtol, c1, c2, c3), cs)
    if ok and pos_same(ctx, "SSI_mpe", form, tuple(kwf), tuple(psf), cs) and judge("SSI_mpe", form, *psf[:3]):
        rows = [int(np.nanargmin(np.abs(np.asarray(Fp)[:, col] - v))) for v in vals]
        want = (np.asarray(c1)[rows, col], np.asarray(c2)[rows, col], np.asarray(c3)[rows, col, :].T)
        if not (psf[3] == col and all(x is not None and np.array_equal(np.asarray(x), w_, equal_nan=True) for x, w_ in zip(psf[4:7], want))):
            ctx.fail("oracle", "%s: order_out must be %d and the variances those of the selected poles (Fn_cov, Xi_cov, Phi_cov entries of rows %s, column %d)"
                     % (form, col, rows, col), dict(cs, positional=form), key="C01:SSI_mpe:positional-call")
    # order='find_min' makes Lab count (answer compared between the two call forms only: the order it settles on need not be 2m)
    form = "SSI_mpe(fn, Fn_pol, Xi_pol, Phi_pol, 'find_min', Lab, 0.02, Fn_cov, Xi_cov, Phi_cov) [freq_ref, Fn_pol, Xi_pol, Phi_pol, order, Lab, rtol, Fn_cov, Xi_cov, Phi_cov]"
    sel = [float(f) for f in fn]
    kwf = ssi.SSI_mpe(freq_ref=list(sel), Fn_pol=Fp, Xi_pol=Xp, Phi_pol=Pp, order="find_min", Lab=Lab, rtol=0.02, Fn_cov=c1, Xi_cov=c2, Phi_cov=c3)
    ctx.hist("positional-call.SSI_mpe find_min settles on an order", kwf[3] is not None)
    ok, psf = pos_call(ctx, "SSI_mpe", form, lambda: ssi.SSI_mpe(list(sel), Fp, Xp, Pp, "find_min", Lab, 0.02, c1, c2, c3), cs)
    if ok:
        pos_same(ctx, "SSI_mpe", form, tuple(kwf), tuple(psf), cs)
    # ---- SingleSetup(data, fs) and <algorithm>(run_params, name), in one case of eight: same tables as the keyword-built objects
    if (cs["N"] + cs["br"]) % 8 == 0:
        form = "SingleSetup(data, %.9g) [data, fs]; %s(run_params, 'p') [run_params, name]" % (fs, cname)
        rp = cls.RunParamCls(**(dict(kw, method=method) if cname == "SSIcov" else kw))

        def build_and_run():
            sp = SingleSetup(data, fs)
            ap = cls(rp, "p")
            sp.add_algorithms(ap)
            sp.run_by_name("p")
            return sp, ap
        ok, out = pos_call(ctx, cname, form, build_and_run, cs)
        if ok:
            sp, ap = out
            if not (sp.fs == ss.fs and sp.dt == ss.dt and same_arrays(sp.data, ss.data) and same_arrays(data, Y)):
                ctx.fail("oracle", "%s: the setup holds other data / sampling rate than SingleSetup(data, fs=fs)" % form, dict(cs, positional=form),
                         key="C01:SingleSetup:positional-call")
            r2 = ap.result
            if ap.name != "p" or r2 is None:
                ctx.fail("oracle", "%s: the algorithm is registered as %r" % (form, ap.name), dict(cs, positional=form), key="C01:%s:positional-call" % cname)
            else:
                pos_same(ctx, cname, form, (res.Fn_poles, res.Xi_poles, res.Phi_poles, res.Lambds, res.H, res.Lab),
                         (r2.Fn_poles, r2.Xi_poles, r2.Phi_poles, r2.Lambds, r2.H, r2.Lab), cs, what="set of pole tables")


def e2e_case(ctx, case):
    from pyoma2.algorithms import SSIcov, SSIdat
    from pyoma2.setup import SingleSetup

    fn, xi = np.array(case["fn"]), np.array(case["xi"])
    phi = np.array([[complex(z[0], z[1]) for z in row] for row in case["phi"]])
    amp = np.array([complex(z[0], z[1]) for z in case["amp"]])
    fs, N, br, ref, ordmax, hc = case["fs"], case["N"], case["br"], case["ref"], case["ordmax"], case["hc"]
    m, l = len(fn), phi.shape[0]
    Y, lam = free_decay(fn, xi, phi, amp, fs, N)
    spacing = float(np.min(np.diff(fn) / fn[:-1])) if m > 1 else 1.0
    ctx.hist("e2e.(m,l,nref)", (m, l, len(ref)))
    ctx.hist("e2e.complex_shapes", case["cplx"])
    ctx.hist("e2e.fs", "%.6g" % fs)
    ctx.hist("e2e.closest_mode_spacing", "<5% (inside the mpe default rtol)" if spacing < 0.05 else ">=5%")
    variants = [(SSIcov, "cov_mm", None), (SSIdat, "dat", None)]
    if case.get("unc"):
        # covariance-driven run WITH the uncertainty computation switched on (a few data blocks): computing uncertainties must not lose
        # true poles - the covariance tables themselves are C17's business
        variants.append((SSIcov, "cov_mm", case["unc"]))
    for cls, method, unc in variants:
        cs = dict(case, method=method, calc_unc=bool(unc))
        data = ro(Y.copy(), case.get("readonly"))
        ss = SingleSetup(data, fs=fs)
        forms = case.get("forms") or {}
        if forms.get("fs_int") and float(fs).is_integer():
            ss = SingleSetup(data, fs=int(fs))  # sampling rate given as an int
        kw = dict(br=(float(br) if forms.get("br_float") else br), ordmax=(float(ordmax) if forms.get("br_float") else ordmax), ref_ind=ref)
        if hc is not None:
            hcv = dict(hc)
            if forms.get("int_values"):  # limits given as ints where they are integer valued
                hcv = {k_: (int(v_) if isinstance(v_, float) and float(v_).is_integer() else v_) for k_, v_ in hcv.items()}
            if forms.get("key_order"):  # keys in a non-documented order
                keys = sorted(hcv, key=lambda k_: (hash_str(k_ + str(forms["key_order"]))))
                hcv = {k_: hcv[k_] for k_ in keys}
            kw["hc"] = hcv
        if forms.get("sc"):
            kw["sc"] = dict(err_phi=0.03, err_xi=0.05, err_fn=0.01)  # the defaults, keys reversed
        key = "C01:e2e-%s" % method
        if unc:
            key += "-unc"
            kw.update(calc_unc=True, nb=unc["nb"])
            if "hc" in kw:
                kw["hc"] = dict(kw["hc"], cov_max=0.2)  # the documented default limit on the frequency variance stays active
        alg = cls(name="a", method=method, **kw) if cls is SSIcov else cls(name="a", **kw)
        ss.add_algorithms(alg)
        try:
            ok, _ = guarded(ctx, "%s.run (SingleSetup.run_by_name)" % cls.__name__, lambda: ss.run_by_name("a"), cs, key)
            if not ok:
                continue
        except np.linalg.LinAlgError:
            if unc and ordmax > 2 * m:
                # unchanged tree: the sensitivity of a singular vector whose singular value is at rounding level (orders above 2m on
                # noise-free data) divides by sigma^2 ~ 1e-34 and np.linalg.inv hits an exactly singular matrix; recorded, not judged
                ctx.note("SSIcov(calc_unc=True) on noise-free data with ordmax > 2m: SSI_fast raises LinAlgError in the singular-vector sensitivity "
                         "(inverse of I + .. - H^T H / sigma_i^2 for a rounding-level sigma_i) in about 10 % of the cases; outside the property (C17)")
                nj(ctx, "e2e-unc: LinAlgError in the sensitivity of a rounding-level singular value")
                continue
            raise
        res = alg.result
        # ---- general clause: the inputs are bit-unchanged by the run
        if not (same_arrays(data, Y) and same_arrays(ss.data, Y) and same_arrays(alg.data, Y)):
            ctx.fail("oracle", "%s: run() modified the measured data it was given" % method, cs, key=key + ":input-modified")
            continue
        s = np.linalg.svd(res.H, compute_uv=False)
        cond = s[0] / s[2 * m - 1]
        if not cond < COND_E2E:
            nj(ctx, "e2e: Hankel conditioning")
            continue
        if unc:
            if not cond < 1e5:
                # the first-order variance of a TRUE pole on noise-free data is rounding amplified by the conditioning (observed
                # <= 1e-26 cond^4 on the unchanged code); beyond 1e5 it can reach the default limit by conditioning alone
                nj(ctx, "e2e-unc: Hankel conditioning (variance of a true pole grows like cond^4)")
                continue
            ctx.hist("e2e.unc(ordmax-2m)", ordmax - 2 * m)
            # raw frequency variances at order 2m, before any hard criterion (direct calls, same parameters): on noise-free data they are
            # ~1e-25; NaN or absurd values are reported under their own key
            Hh, Tt = ssi.build_hank(Y.T, Y.T[ref, :], br, "cov_mm", calc_unc=True, nb=unc["nb"])
            o_ = ssi.SSI_fast(Hh, br, ordmax, calc_unc=True, T=Tt, nb=unc["nb"])
            p_ = ssi.SSI_poles(o_[0], o_[1], o_[2], ordmax, 1.0 / fs, calc_unc=True, Q1=o_[3], Q2=o_[4], Q3=o_[5], Q4=o_[6])
            fcov = np.asarray(p_[4])[: 2 * m, 2 * m]
            fpol = np.asarray(p_[0])[: 2 * m, 2 * m]
            # (how small they are is C17's matter - e.g. it depends on the balancing of Obs; here: finite and below the documented default
            #  limit cov_max = 0.2, otherwise the default hard criterion removes a TRUE pole)
            if not (np.all(np.isfinite(fcov)) and np.all(fcov < 0.2)):
                ctx.fail("oracle", "SSI_poles(calc_unc=True), ordmax=%d: frequency variances of the %d true poles (fn %s) at order %d on noise-free data are %s "
                         "(NaN or at/above the default limit cov_max=0.2; ~1e-25 on the unchanged code): the default hard criterion then removes true poles"
                         % (ordmax, 2 * m, np.round(fpol, 4), 2 * m, fcov), cs, key=key + ":variance")
            else:
                e2e_positional_unc_chain(ctx, cs, Y, lam, fn, xi, phi, fs, br, ref, ordmax, unc["nb"], cond, (Hh, Tt), o_, p_)
        tol = tol_e2e(cond)
        ctx.count(dict(kind_="e2e", **cs), nontrivial=True)
        ctx.sample(dict(kind="e2e", method=method, m=m, l=l, ref=ref, br=br, N=N, fs=fs, fn=case["fn"], xi=case["xi"]))
        # ---- pole table at order 2m: exactly m conjugate pairs, each carrying the true fn, xi and shape
        col = 2 * m
        Fc, Xc, Pc, Lc = res.Fn_poles[:, col], res.Xi_poles[:, col], res.Phi_poles[:, col, :], res.Lambds[:, col]
        live = ~np.isnan(Fc)
        if live.sum() != 2 * m:
            ctx.fail("oracle", "%s: order %d holds %d poles, the system has %d conjugate pairs" % (method, col, int(live.sum()), m), cs, key=key + ":pairs")
            continue
        bad = None
        for j in range(m):
            idx = [i for i in np.where(live)[0] if abs(Fc[i] - fn[j]) <= tol * fn[j]]
            if len(idx) != 2:
                near = Fc[live][np.argsort(np.abs(Fc[live] - fn[j]))[:2]]
                bad = "mode %d (fn=%.12g, fs=%.9g): %d poles within %.1e relative at order %d (nearest %s, relative error %.3g; cond %.2g)" % (
                    j, fn[j], fs, len(idx), tol, col, near, abs(near[0] - fn[j]) / fn[j], cond)
                break
            if not all(abs(Xc[i] - xi[j]) <= tol for i in idx):
                bad = "mode %d: damping %s, true %.9g" % (j, Xc[idx], xi[j])
                break
            ims = sorted(np.sign(Lc[i].imag) for i in idx)
            if ims != [-1.0, 1.0] or not all(abs(Lc[i] - (lam[j] if Lc[i].imag > 0 else np.conj(lam[j]))) <= tol * abs(lam[j]) for i in idx):
                bad = "mode %d: continuous poles %s are not the conjugate pair %s" % (j, Lc[idx], lam[j])
                break
            for i in idx:
                want = phi[:, j] if Lc[i].imag > 0 else np.conj(phi[:, j])
                mc = mac(Pc[i], want)
                k = int(np.argmax(np.abs(want)))
                if not mc > 1 - tol:
                    bad = "mode %d: shape at the pole with Im %+.3g has MAC %.9f with the true (conjugated for the Im<0 partner) shape" % (j, Lc[i].imag, mc)
                    break
                if not (abs(Pc[i][k] - 1) <= 1e-9 and np.allclose(Pc[i], unity(want), rtol=0, atol=tol * 10)):
                    bad = ("mode %d: shape is not unity normalised (component %d of largest modulus is %s, must be exactly 1)" % (j, k, Pc[i][k]))
                    break
            if bad:
                break
        if bad:
            ctx.fail("oracle", "%s, %d modes, %d channels, refs %s, br=%d: %s" % (method, m, l, ref, br, bad), cs, key=key + ":table")
            continue
        # ---- extraction at that order returns, for EVERY requested mode, its own frequency, damping and shape:
        #      with the default rtol (5 %, as a user would call it: closely spaced modes lie inside it) and with a tight one
        sel = [float(f) for f in fn]
        extracted = {}
        for label, kwargs in (("default rtol", {}), ("rtol=1e-3", dict(rtol=1e-3))):
            if label == "rtol=1e-3" and spacing < 2.5e-3:
                continue
            ss.mpe("a", sel_freq=list(sel), order=col, **kwargs)
            Fn, Xi, Phi = np.asarray(res.Fn), np.asarray(res.Xi), np.asarray(res.Phi)
            extracted[label] = (Fn.copy(), Xi.copy(), Phi.copy())
            if Fn.shape != (m,) or Xi.shape != (m,) or Phi.shape != (l, m):
                ctx.fail("oracle", "%s: mpe(order=%d, %s) returned Fn%s Xi%s Phi%s for %d requested modes" % (method, col, label, Fn.shape, Xi.shape, Phi.shape, m),
                         cs, key=key + ":mpe-shape")
                break
            efv = np.abs(Fn - fn) / fn
            exv = np.abs(Xi - xi)
            emv = np.array([1 - max(mac(Phi[:, j], phi[:, j]), mac(Phi[:, j], np.conj(phi[:, j]))) for j in range(m)])
            if not (efv.max() <= tol and exv.max() <= tol and emv.max() <= tol):
                j = int(np.argmax(np.maximum(np.maximum(efv, exv), emv)))
                ctx.fail("oracle", "%s: mpe(sel_freq=%s, order=%d, %s): requested mode %d (fn=%.9g, xi=%.6g) came back as fn=%.9g xi=%.6g, 1-MAC %.3g "
                         "(closest spacing of the system %.3g, fs=%.9g, cond %.2g)" % (method, [round(f, 6) for f in sel], col, label, j, fn[j], xi[j], Fn[j], Xi[j],
                                                                                     emv[j], spacing, fs, cond), cs, key=key + ":mpe")
                break
            if sel != [float(f) for f in fn]:
                ctx.fail("oracle", "%s: mpe modified the list of requested frequencies" % method, cs, key=key + ":mpe-input-modified")
                break
        else:
            # ---- requests that are only APPROXIMATELY right (read off a stabilisation diagram, inside rtol): the returned Fn must be the
            #      frequency of the identified pole, i.e. the TRUE one, not the requested value; Xi and shape those of that mode
            gap = np.array([min([abs(fn[j] - fn[k_]) for k_ in range(m) if k_ != j] or [np.inf]) for j in range(m)])
            failed = False
            for rq in case.get("req") or []:
                rt = rq.get("rtol")
                rte = 0.05 if rt is None else rt
                if "values" in rq:
                    vals = list(rq["values"])
                elif rq.get("kind") == "int":
                    vals = [int(round(f)) for f in fn]
                    if not all(v >= 1 and abs(v - f) <= 0.8 * rte * v and abs(v - f) <= 0.4 * g for v, f, g in zip(vals, fn, gap)):
                        continue  # no integer-valued request inside rtol and nearer to its own mode than to the others
                else:
                    pj = np.minimum(np.array(rq["u"]) * rte, 0.4 * gap / fn)
                    vals = [float(f * (1 + sg * p_)) for f, sg, p_ in zip(fn, rq["sgn"], pj)]
                form = rq.get("form", "list")
                arg = {"list": list, "tuple": tuple, "ndarray": np.array}[form](vals)
                arg0 = np.array(vals)
                kwargs = {} if rt is None else dict(rtol=rt)
                try:
                    ss.mpe("a", sel_freq=arg, order=col, **kwargs)
                except Exception as e:  # a container form the API does not accept is not a property matter
                    if form != "list":
                        ctx.note("mpe(sel_freq=<%s>) raises %s: form not accepted by the API, skipped" % (form, type(e).__name__))
                        continue
                    raise
                Fn, Xi, Phi = np.asarray(res.Fn), np.asarray(res.Xi), np.asarray(res.Phi)
                ctx.hist("e2e.approximate_request", "%s/%s/%s" % (rq.get("kind", "values" if "values" in rq else "perturbed"), form, "default rtol" if rt is None else "rtol=%g" % rt))
                desc = "mpe(sel_freq=%s as %s, order=%d, %s)" % ([round(float(v), 6) for v in vals], form, col, "default rtol" if rt is None else "rtol=%g" % rt)
                if Fn.shape != (m,) or Xi.shape != (m,) or Phi.shape != (l, m):
                    ctx.fail("oracle", "%s: %s returned Fn%s Xi%s Phi%s for %d requested modes inside rtol" % (method, desc, Fn.shape, Xi.shape, Phi.shape, m),
                             cs, key=key + ":mpe-approx-shape")
                    failed = True
                    break
                efv = np.abs(Fn - fn) / fn
                exv = np.abs(Xi - xi)
                emv = np.array([1 - max(mac(Phi[:, j], phi[:, j]), mac(Phi[:, j], np.conj(phi[:, j]))) for j in range(m)])
                if not (efv.max() <= tol and exv.max() <= tol and emv.max() <= tol):
                    j = int(np.argmax(np.maximum(np.maximum(efv, exv), emv)))
                    ctx.fail("oracle", "%s: %s: request %.9g: expected the identified pole fn=%.9g Hz (xi=%.6g), got fn=%.9g xi=%.6g, 1-MAC %.3g; the result must be "
                             "the pole's frequency at 1e-6 relative, not the requested value" % (method, desc, float(vals[j]), fn[j], xi[j], Fn[j], Xi[j], emv[j]),
                             cs, key=key + ":mpe-approx")
                    failed = True
                    break
                if not same_arrays(np.array(list(arg)), arg0):
                    ctx.fail("oracle", "%s: mpe modified the requested frequencies" % method, cs, key=key + ":mpe-input-modified")
                    failed = True
                    break
            if failed:
                continue
            # ---- the extraction / set-up entry points called fully positionally
            e2e_positional_extraction(ctx, cs, cls, ss, alg, data, Y, fs, kw, method, fn, xi, phi, col, tol, gap)
            # ---- general clause: a second run of the same algorithm object gives identical results, and so does a second extraction
            first = [np.array(x, copy=True) for x in (res.Fn_poles, res.Xi_poles, res.Phi_poles, res.Lambds, res.H)]
            firstAC = [np.array(x, copy=True) for x in list(res.A) + list(res.C)]
            ss.run_by_name("a")
            res2 = alg.result
            again = [res2.Fn_poles, res2.Xi_poles, res2.Phi_poles, res2.Lambds, res2.H]
            if not (all(same_arrays(x, y) for x, y in zip(first, again)) and len(firstAC) == len(res2.A) + len(res2.C)
                    and all(same_arrays(x, y) for x, y in zip(firstAC, list(res2.A) + list(res2.C))) and same_arrays(ss.data, Y)):
                ctx.fail("oracle", "%s: running the same algorithm object a second time on the same data gives different results" % method, cs,
                         key=key + ":rerun-differs")
                continue
            ss.mpe("a", sel_freq=list(sel), order=col)
            F2, X2, P2 = extracted["default rtol"]
            if not (same_arrays(res2.Fn, F2) and same_arrays(res2.Xi, X2) and same_arrays(res2.Phi, P2)):
                ctx.fail("oracle", "%s: extracting again after a second run gives different modal parameters" % method, cs, key=key + ":rerun-mpe-differs")


def gen_e2e_case(rng, mmax, k):
    m = int(rng.integers(1, mmax + 1))
    l = int(rng.integers(2, 9))
    fs = float(FS_LIST[int(rng.integers(0, len(FS_LIST)))])
    cplx = bool(k % 2)
    fn, xi, phi, amp = modal_system(rng, m, l, fs, cplx)
    if k % 3 == 1 and m >= 2:
        # closely spaced pair: spacing 1-4 %, i.e. inside the default rtol of mpe; the other modes stay >= 8 % away from both
        for _ in range(1000):
            f0 = rng.uniform(0.03, 0.38) * fs
            pair = [f0, f0 * (1 + rng.uniform(0.01, 0.04))]
            rest = list(rng.uniform(0.02, 0.45, size=m - 2) * fs)
            allf = np.sort(np.array(pair + rest))
            d = np.diff(allf) / allf[:-1]
            if allf[-1] < 0.45 * fs and np.sum(d < 0.08) == 1:
                fn = allf
                break
    nref = int(rng.integers(1, l + 1))
    ref = sorted(rng.choice(l, size=nref, replace=False).tolist())
    if k % 5 == 3:
        ref = ref[::-1]
    extra = int(rng.integers(0, 3))
    unc = None
    if k % 4 == 1 or k % 8 == 4:  # uncertainty variant (3 in 8 cases): ordmax = 2m, 2m+1, 2m+2 or larger; real and complex shapes
        extra = [0, 1, 2, 4, 6][int(rng.integers(0, 5))]
        unc = dict(nb=int(rng.integers(4, 13)))
    ordmax = 2 * m + extra
    br = max(-(-ordmax // nref) - 1, -(-2 * m // l)) + int(rng.integers(1, 4))
    N = int(rng.integers(40 + 2 * br + 2 * (br + 1) * (nref + l) + (200 if unc else 0), 1500))
    # hard criteria: default ones for real shapes in every other case (true damping <= 8 % < xi_max, MPC 1, MPD 0), else loosened so that
    # complex shapes and the requested order are not filtered (the property is about the poles, not about the filters)
    hc = None if (not cplx and k % 4 == 0) else dict(conj=bool(k % 3), xi_max=0.5, mpc_lim=0.0, mpd_lim=10.0, cov_max=10.0)
    # approximate requests (two thirds of the cases): true frequency times 1 +- (0.2..0.8) rtol, default rtol and a looser one, in the
    # container forms a user may pass; plus integer-valued requests where the rounded frequencies are inside rtol
    req = []
    if k % 3 != 2:
        forms_ = ["list", "tuple", "ndarray"]
        for rt in (None, 0.1):
            req.append(dict(rtol=rt, u=rng.uniform(0.2, 0.8, size=m).tolist(), sgn=[int(x) for x in rng.choice([-1, 1], size=m)],
                            form=forms_[int(rng.integers(0, 3))]))
        req.append(dict(kind="int", rtol=(None if k % 2 else 0.1), form=forms_[int(rng.integers(0, 3))]))
    # run parameters in the forms a user may give them: hc/sc keys in another order, ints where floats are documented and vice versa
    forms = dict(key_order=int(rng.integers(0, 1000)) if k % 2 else 0, int_values=bool(k % 4 >= 2), sc=bool(k % 3 == 0), br_float=bool(k % 7 == 5),
                 fs_int=bool(k % 2 == 0))
    return dict(fn=[float(f) for f in fn], xi=xi.tolist(), phi=[[[z.real, z.imag] for z in row] for row in phi], amp=[[z.real, z.imag] for z in amp],
                fs=fs, N=N, br=br, ref=ref, ordmax=ordmax, hc=hc, cplx=cplx, req=req, forms=forms, unc=unc, readonly=bool(k % 3 == 0))


# ------------------------------------------------------------------------------------------------ stage (i''): step on data Hankels
def step_data_case(ctx, case):
    """Both realisation routines called directly with the public keyword step on the moment-matrix Hankel of a noise-free free decay:
    entry k of the returned lists is the realisation of model order k*step; at order 2m (when on the step grid) it holds the m true
    pole pairs and shapes; the two routines agree at every returned order."""
    fn, xi = np.array(case["fn"]), np.array(case["xi"])
    phi = np.array([[complex(z[0], z[1]) for z in row] for row in case["phi"]])
    amp = np.array([complex(z[0], z[1]) for z in case["amp"]])
    fs, N, br, ref, ordmax, step = case["fs"], case["N"], case["br"], case["ref"], case["ordmax"], case["step"]
    m, l = len(fn), phi.shape[0]
    Y, lam = free_decay(fn, xi, phi, amp, fs, N)
    YT, Yr = ro(np.ascontiguousarray(Y.T), case.get("readonly")), ro(np.ascontiguousarray(Y.T[ref, :]), case.get("readonly"))
    ok, out = guarded(ctx, "build_hank", lambda: ssi.build_hank(YT, Yr, br, "cov_mm"), case, "C01:build_hank")
    if not ok:
        return
    H = out[0]
    s = np.linalg.svd(H, compute_uv=False)
    cond = s[0] / s[2 * m - 1]
    if not cond < COND_E2E:
        nj(ctx, "step: Hankel conditioning")
        return
    tol = tol_e2e(cond)
    ctx.count(dict(kind_="step-data", **case), nontrivial=(step > 1))
    ctx.hist("step-data.(step, ordmax mod step, 2m on grid)", (step, ordmax % step, (2 * m) % step == 0 and 2 * m <= ordmax))
    H0 = H.copy()
    ro(H, case.get("readonly"))
    nent = ordmax // step + 1
    got = {}
    for name, call in (("SSI_fast", lambda: ssi.SSI_fast(H, br, ordmax, step=step)[1:3]), ("SSI", lambda: ssi.SSI(H, br, ordmax, step=step)[0:2])):
        cs = dict(case, routine=name)
        ok, out = guarded(ctx, name, call, cs, "C01:%s" % name)
        if not ok:
            continue
        AA, CC = out
        if not same_arrays(H, H0):
            ctx.fail("oracle", "%s modified the Hankel matrix it was given" % name, cs, key="C01:%s:input-modified" % name)
            return
        if len(AA) != nent or len(CC) != nent:
            ctx.fail("oracle", "%s(ordmax=%d, step=%d) returns %d/%d matrices, one per order 0, %d, .. <= %d expected (%d)" % (name, ordmax, step, len(AA), len(CC), step, ordmax, nent),
                     cs, key="C01:%s:list-length" % name)
            continue
        bad = [k for k in range(nent) if np.asarray(AA[k]).shape != (k * step, k * step) or np.asarray(CC[k]).shape != (l, k * step)]
        if bad:
            k = bad[0]
            ctx.fail("oracle", "%s(ordmax=%d, step=%d) on a data Hankel: entry %d must be the realisation of model order %d (A %dx%d), got A%s C%s"
                     % (name, ordmax, step, k, k * step, k * step, k * step, np.asarray(AA[k]).shape, np.asarray(CC[k]).shape), dict(cs, entry=k),
                     key="C01:%s:shape" % name)
            continue
        got[name] = (AA, CC)
        if step > 1:
            # the same call fully positionally (pristine order H, br, ordmax, step): bit-equal lists, judged by the oracle just below
            form = "%s(H, %d, %d, %d) [H, br, ordmax, step]" % (name, br, ordmax, step)
            okp, outp = pos_call(ctx, name, form, (lambda: ssi.SSI_fast(H, br, ordmax, step)[1:3]) if name == "SSI_fast"
                                 else (lambda: ssi.SSI(H, br, ordmax, step)[0:2]), cs)
            if okp:
                pos_same(ctx, name, form, (AA, CC), outp, cs, what="list of realisations")
        if (2 * m) % step == 0 and 2 * m <= ordmax:
            An, Cn = np.asarray(AA[2 * m // step]), np.asarray(CC[2 * m // step])
            w, v = np.linalg.eig(An)
            shp = Cn @ v
            worst, what = 0.0, ""
            for j in range(m):
                i = int(np.argmin(np.abs(w - np.exp(lam[j] / fs))))
                lc = np.log(w[i]) * fs
                f, x = abs(lc) / (2 * np.pi), -lc.real / abs(lc)
                e = max(abs(f - fn[j]) / fn[j], abs(x - xi[j]), 1 - mac(shp[:, i], phi[:, j]))
                if e > worst:
                    worst, what = e, "mode %d: identified fn=%.9g xi=%.6g, true fn=%.9g xi=%.6g, 1-MAC %.3g" % (j, f, x, fn[j], xi[j], 1 - mac(shp[:, i], phi[:, j]))
            if not worst <= tol:
                ctx.fail("oracle", "%s(ordmax=%d, step=%d) on the Hankel matrix of a noise-free decay with %d modes: the entry of order %d: %s" % (name, ordmax, step, m, 2 * m, what),
                         cs, key="C01:%s:step-exact-recovery" % name)
    if len(got) == 2:
        for k in range(1, nent):
            nn = k * step
            if nn > 2 * m or (nn < 2 * m and not s[nn - 1] > 1.2 * s[nn]):
                continue
            Wf = shift_of_pair(np.asarray(got["SSI_fast"][0][k]), np.asarray(got["SSI_fast"][1][k]), l, br)
            Wl = shift_of_pair(np.asarray(got["SSI"][0][k]), np.asarray(got["SSI"][1][k]), l, br)
            if Wf is not None and Wl is not None and not np.allclose(Wf, Wl, rtol=0, atol=max(TOL_STAGE, 10 * tol) * max(1.0, np.abs(Wl).max())):
                ctx.fail("correspondence", "SSI_fast and SSI disagree at model order %d (step=%d) on a data Hankel: shift operators differ by %.3g" % (nn, step, np.abs(Wf - Wl).max()),
                         dict(case, order=nn), key="C01:SSI_fast-vs-SSI:order")


def gen_step_data_case(rng, k):
    m = int(rng.integers(1, 4))
    l = int(rng.integers(2, 6))
    fs = float(FS_LIST[int(rng.integers(0, len(FS_LIST)))])
    fn, xi, phi, amp = modal_system(rng, m, l, fs, bool(k % 2))
    nref = int(rng.integers(1, l + 1))
    ref = sorted(rng.choice(l, size=nref, replace=False).tolist())
    step = [1, 2, 3][k % 3]
    ordmax = 2 * m + int(rng.integers(0, 4))  # a multiple of step or not
    br = max(-(-ordmax // nref) - 1, -(-2 * m // l)) + int(rng.integers(1, 4))
    N = int(rng.integers(60 + 2 * br + 2 * (br + 1) * (nref + l), 900))
    return dict(fn=[float(f) for f in fn], xi=xi.tolist(), phi=[[[z.real, z.imag] for z in row] for row in phi], amp=[[z.real, z.imag] for z in amp],
                fs=fs, N=N, br=br, ref=ref, ordmax=ordmax, step=step, readonly=bool(k % 2 == 0))


# ------------------------------------------------------------------------------------------------ stage (i'): graded conditioning
def graded_H(case):
    """Exact-rank product H = O.Gamma of a modal system whose mode [weak] is only weakly controllable (rows of G scaled by eps)."""
    fn, xi, fs, br = np.array(case["fn"]), np.array(case["xi"]), case["fs"], case["br"]
    C, G = np.array(case["C"]), np.array(case["G"])
    m = len(fn)
    w = 2 * np.pi * fn
    lam = -xi * w + 1j * w * np.sqrt(1 - xi ** 2)
    ld = np.exp(lam / fs)
    A = np.zeros((2 * m, 2 * m))
    for j in range(m):
        A[2 * j:2 * j + 2, 2 * j:2 * j + 2] = [[ld[j].real, ld[j].imag], [-ld[j].imag, ld[j].real]]
    g = G.copy()
    g[2 * case["weak"]:2 * case["weak"] + 2, :] *= case["eps"]
    O = obs_matrix(A, C, br + 1)
    Gam = np.hstack([np.linalg.matrix_power(A, k) @ g for k in range(br + 1)])
    return O @ Gam, A, C, ld


def gen_graded_case(rng, ratio):
    m = int(rng.integers(2, 4))  # at least one other mode must set sigma_1
    l = int(rng.integers(2, 5))
    r = int(rng.integers(1, 4))
    br = int(rng.integers(max(2, -(-2 * m // min(l, r))), 10))
    fs = float(FS_LIST[int(rng.integers(0, len(FS_LIST)))])
    for _ in range(1000):
        fn = np.sort(rng.uniform(0.03, 0.42, size=m)) * fs
        if m == 1 or np.min(np.diff(fn)) > 0.04 * fs:
            break
    case = dict(fn=fn.tolist(), xi=rng.uniform(0.005, 0.05, size=m).tolist(), fs=fs, br=br, l=l, r=r, C=rng.normal(size=(l, 2 * m)).tolist(),
                G=rng.normal(size=(2 * m, r)).tolist(), weak=int(rng.integers(0, m)), eps=1.0)
    lo, hi = 1e-13, 1.0
    for _ in range(50):  # bisection on the controllability of the weak mode to reach the singular-value ratio aimed at
        case["eps"] = float(np.sqrt(lo * hi))
        sv = np.linalg.svd(graded_H(case)[0], compute_uv=False)
        if sv[0] / sv[2 * m - 1] > ratio:
            lo = case["eps"]
        else:
            hi = case["eps"]
    case["eps"] = float(hi)
    return case


def graded_case(ctx, case):
    """Both realisation routines on an exact rank-2m product with a prescribed singular-value ratio: poles, fn, xi, shapes of the TRUE
    system at order 2m, tolerance proportional to the conditioning of H (a routine that squares the conditioning fails here)."""
    H, A0, C0, ld = graded_H(case)
    fn, xi, fs, br, l = np.array(case["fn"]), np.array(case["xi"]), case["fs"], case["br"], case["l"]
    m = len(fn)
    n = 2 * m
    sv = np.linalg.svd(H, compute_uv=False)
    ratio = sv[0] / sv[n - 1]
    if not ratio < 3e8:
        nj(ctx, "graded: ratio beyond 3e8")
        return
    tol = tol_graded(ratio)
    ctx.count(dict(kind_="graded", **case), nontrivial=True)
    ctx.hist("graded.log10(ratio)", int(np.floor(np.log10(ratio))))
    H0 = H.copy()
    ro(H, case.get("readonly"))
    for name, call in (("SSI_fast", lambda: ssi.SSI_fast(H, br, n)[1:3]), ("SSI", lambda: ssi.SSI(H, br, n)[0:2])):
        key = "C01:%s" % name
        ok, out = guarded(ctx, name, call, dict(case, routine=name), key)
        if not ok:
            continue
        AA, CC = out
        if not same_arrays(H, H0):
            ctx.fail("oracle", "%s modified the Hankel matrix it was given" % name, dict(case, routine=name), key=key + ":input-modified")
            H = ro(H0.copy(), case.get("readonly"))
            continue
        AA2, CC2 = call()
        if not (len(AA) == len(AA2) and all(same_arrays(x, y) for x, y in zip(list(AA) + list(CC), list(AA2) + list(CC2)))):
            ctx.fail("oracle", "%s: a second call on the same input gives different matrices" % name, dict(case, routine=name), key=key + ":recall-differs")
            continue
        An, Cn = np.asarray(AA[n]), np.asarray(CC[n])
        if An.shape != (n, n) or Cn.shape != (l, n):
            ctx.fail("oracle", "%s order %d: A%s C%s" % (name, n, An.shape, Cn.shape), dict(case, routine=name), key=key + ":shape")
            continue
        w, v = np.linalg.eig(An)
        shp = Cn @ v
        worst, what = 0.0, ""
        for j in range(m):
            i = int(np.argmin(np.abs(w - ld[j])))
            lc = np.log(w[i]) * fs
            f, x = abs(lc) / (2 * np.pi), -lc.real / abs(lc)
            psi = np.zeros(n, complex)
            psi[2 * j], psi[2 * j + 1] = 1, 1j
            e = max(abs(f - fn[j]) / fn[j], abs(x - xi[j]), 1 - mac(shp[:, i], C0 @ psi))
            if e > worst:
                worst, what = e, "mode %d: identified fn=%.9g xi=%.6g, true fn=%.9g xi=%.6g, 1-MAC %.3g" % (j, f, x, fn[j], xi[j], 1 - mac(shp[:, i], C0 @ psi))
        if not worst <= tol:
            ctx.fail("oracle", "%s on an exact rank-%d product %dx%d with singular-value ratio %.3g: %s (error %.3g, allowed %.3g = 2e-13 x ratio)"
                     % (name, n, H.shape[0], H.shape[1], ratio, what, worst, tol), dict(case, routine=name), key=key + ":graded-conditioning")


# ------------------------------------------------------------------------------------------------ driver
def run(ctx):
    rng = ctx.np_rng
    ctx.extra["rule"] = ("realise: exact dyadic systems (A in a unimodular basis, known Gaussian-rational eigen-pairs) -> H = O.Gamma, every order, both "
                         "routines, non-trivial when l != r and n >= 2; ac2mp/SSI_poles: same systems incl. real/unstable poles, zero rows, exact ties, "
                         "all-zero shapes (~20 % edge stream); e2e: random modal systems (m modes, 2..8 channels, reference subsets, real/complex shapes) "
                         "as noise-free free decays through SingleSetup; distinct by hash of the full case")
    ctx.assumptions += [
        "oracle contracts (Section hypotheses of C01_svd_basis / C01_qr_nested / C01_realisation_similar_*): numpy.linalg.svd returns U S V^T = H with "
        "orthonormal U, V and sigma_k = 0 beyond the rank; numpy.linalg.qr returns Q^T Q = I and upper-triangular R; numpy.linalg.inv / pinv return a "
        "(left) inverse; scipy.linalg.eig returns eigen-pairs with every eigenvalue of A; np.log is the principal complex logarithm (clog_spec)",
        "singular vectors handed to the model are the generator's exact rational ones; np.log values handed to the model are computed by the harness with NumPy; nothing handed to the model is a value returned by pyoma2",
        "multiplicity (exactly m pairs at order 2m) and the nearest-pole extraction are checked by the oracle on the implementation only (C01_full_statement)",
    ]
    # ---- corpus first
    stage_c, ac_c, pol_c, e2e_c, gr_c, sd_c = [], [], [], [], [], []
    for path in sorted(glob.glob(os.path.join(VERIF, "corpus", "C01", "*.json"))):
        d = json.load(open(path))
        {"realise": stage_c, "ac2mp": ac_c, "poles": pol_c, "e2e": e2e_c, "graded": gr_c, "step-data": sd_c}[d["stage"]].append(d["case"])
    # ---- (i) realisation stage
    shapes = [(2, 2, 1, 3), (2, 3, 1, 2), (4, 3, 2, 2), (4, 2, 1, 4), (3, 2, 3, 2), (6, 3, 2, 3), (4, 4, 1, 2), (6, 2, 1, 6)]
    if not ctx.quick():
        shapes += [(n, l, r, br) for n in (2, 4, 5, 6, 8) for l in (2, 3, 5) for r in (1, 2, 4) for br in (2, 3, 4, 6)
                   if br * l >= n and (br + 1) * r >= n and l != r and (br + 1) * l <= 24]
    for rep in range(ctx.n(2, 3)):
        for (n, l, r, br) in shapes:
            if br * l < n or (br + 1) * r < n:
                continue
            stage_c.append(dict(gen_stage_case(rng, n, l, r, br, extra=rep), readonly=bool(rep % 2)))
            stage_c.append(dict(gen_svd_case(rng, n, l, r, br, extra=rep), readonly=bool(rep % 2 == 0)))
    # the public keyword step of both routines (function level only: through the setup classes step > 1 is not usable on the unchanged tree):
    # ordmax a multiple of step and not, the rank on the step grid and not
    step_shapes = [(4, 3, 2, 2), (6, 3, 2, 3), (2, 2, 3, 1), (4, 2, 1, 4), (6, 2, 3, 4), (3, 2, 3, 2)]
    if not ctx.quick():
        step_shapes += [(6, 4, 2, 3), (8, 3, 4, 3), (5, 3, 2, 3), (4, 5, 1, 4), (6, 2, 1, 6), (8, 5, 2, 3)]
    for rep in range(ctx.n(1, 3)):
        for i, (n, l, r, br) in enumerate(step_shapes):
            for step in (2, 3):
                extra = (i + rep + step) % 3
                stage_c.append(dict(gen_stage_case(rng, n, l, r, br, extra=extra), step=step, readonly=bool((i + step) % 2)))
                stage_c.append(dict(gen_svd_case(rng, n, l, r, br, extra=extra), step=step, readonly=bool((i + step + 1) % 2)))
    t0 = time.time()
    stage_realise(ctx, stage_c)
    walls = {"realise": round(time.time() - t0, 1)}
    t0 = time.time()
    # ---- (i'') step on data Hankels, both routines, function level
    sd_c += [gen_step_data_case(rng, k) for k in range(ctx.n(36, 360))]
    for case in sd_c:
        step_data_case(ctx, case)
    walls["step-data"] = round(time.time() - t0, 1)
    t0 = time.time()
    # ---- (i') realisation stage, graded conditioning (singular-value ratios 1e2 .. 1e8), both routines, oracle
    ng = ctx.n(48, 600)
    for k in range(ng):
        gr_c.append(dict(gen_graded_case(rng, 10 ** (2 + 6 * (k + rng.uniform(0, 1)) / ng)), readonly=bool(k % 2)))
    for case in gr_c:
        graded_case(ctx, case)
    walls["graded"] = round(time.time() - t0, 1)
    t0 = time.time()
    # ---- (ii) ac2mp
    kinds = ["plain"] * 8 + ["zero-row", "unstable", "tie", "zero-shape"]
    for k in range(ctx.n(96, 1200)):
        ac_c.append(dict(gen_ac2mp_case(rng, kinds[k % len(kinds)]), readonly=bool(k % 3 == 1)))
    stage_ac2mp(ctx, ac_c)
    walls["ac2mp"] = round(time.time() - t0, 1)
    t0 = time.time()
    # ---- (iii) SSI_poles
    for k in range(ctx.n(12, 120)):
        pol_c.append(dict(gen_poles_case(rng, int(rng.integers(1, ctx.n(6, 9))), int(rng.integers(1, 5))), readonly=bool(k % 2)))
    stage_poles(ctx, pol_c)
    walls["poles"] = round(time.time() - t0, 1)
    t0 = time.time()
    # ---- (iv) end to end (the oracle of record)
    for k in range(ctx.n(240, 2500)):
        e2e_c.append(gen_e2e_case(rng, ctx.n(3, 6), k))
    for case in e2e_c:
        e2e_case(ctx, case)
    walls["e2e"] = round(time.time() - t0, 1)
    ctx.extra["stage_wall_s"] = walls
