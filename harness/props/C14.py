"""C14 - preprocessing histories (decimate / detrend / filter / rollback / add_algorithms) on SingleSetup and
MultiSetup_PreGER.  Model: coq/Model/M_prep.v (terms) and coq/Model/M_prep_mem.v (buffers: who holds / reads / allocates /
writes which array); theorems: coq/Properties/C14.v.

Correspondence: for every history the model state (exact rationals fs, dt, Ndat(s), T(s); the data as symbolic TERMS) is
computed in Coq; the implementation's attributes are compared with it, and its arrays with the harness's evaluation of
the model's term by the SciPy calls the term names.
Oracle: the property text in Python (an incremental reference: pristine copies of the user's arrays pushed through
scipy.signal.decimate / detrend / butter+sosfiltfilt call by call, fs0 / product of q, 1/fs, rows, rows/fs)."""
import glob
import itertools
import json
import os
import re
from fractions import Fraction

import numpy as np
from scipy import signal

from common import VERIF, CoqError, clist, parse_q, qc
from pyoma2.algorithms import FDD, FDD_MS
from pyoma2.setup import MultiSetup_PreGER, SingleSetup

HEADER0 = "From PyOMA.Model Require Import M_prep."
RTOL = 1e-12      # sampling attributes (floats vs exact rationals)
ATOL_ARR = 1e-9   # arrays: |a-b| <= ATOL_ARR * max|expected| (the same SciPy calls; fs may differ by one ulp)

# ------------------------------------------------------------------------------------------------ operations
# ("dec", q, kw) | ("det", kw) | ("filt", Wn, order, btype) | ("rb",) | ("add",) = add_algorithms(a fresh instance)
# | ("readd",) = add_algorithms(the instance added last, same object and name; a fresh one when none was added yet)
ALPHA = {
    "A": [("dec", 2, {}), ("dec", 3, {"ftype": "fir"}), ("det", {"type": "linear"}), ("det", {"type": "c"}),
          ("filt", 1.5, 4, "lowpass"), ("filt", [0.5, 2.0], 2, "bandpass"), ("rb",), ("add",),
          ("dec", 2, {"n": 4, "zero_phase": False}), ("readd",)],
    "B": [("dec", 5, {}), ("dec", 4, {"ftype": "fir", "n": 31}), ("det", {}), ("det", {"type": "l", "bp": [40, 90]}),
          ("filt", 2.0, 3, "high"), ("filt", [1.0, 2.5], 2, "stop"), ("rb",), ("add",),
          ("dec", 2, {"ftype": "iir", "n": 6, "zero_phase": True}), ("readd",)],
    "C": [("dec", 3, {"ftype": "dlti-iir-cheby1-4", "zero_phase": False}), ("dec", 2, {"ftype": "fir", "zero_phase": False}), ("det", {"type": "constant", "bp": 0}),
          ("det", {"bp": [100]}), ("filt", 1.0, 2, "low"), ("filt", [0.25, 1.75], 3, "band"), ("rb",), ("add",),
          ("dec", 4, {"n": 5}), ("readd",)],
}
# calls SciPy itself refuses (unknown ftype / type / btype value, Wn above Nyquist; on the short records of the "R"
# configurations also the IIR decimation / filtering of a record that repeated decimation made too short for the padding)
REFUSED = [("det", {"type": "quadratic"}), ("dec", 2, {"ftype": "cheby"}), ("filt", 1.5, 4, "notch"), ("filt", 5000.0, 2, "lowpass")]
ALPHA["R"] = [("dec", 3, {}), ("dec", 2, {})] + REFUSED + [("filt", 1.0, 2, "lowpass"), ("add",), ("readd",), ("rb",)]
# malformed stream: undocumented keyword names (TypeError expected), one per method that takes **kwargs
BAD_OPS = [("dec", 2, {"foo": 1}), ("det", {"typ": "linear"}), ("dec", 3, {"ftype": "fir", "order": 8}), ("det", {"type": "linear", "breakpoints": [10]})]

# parameter order of the public preprocessing entry points as read from the pristine /repo/src (setup/single.py, setup/multi.py,
# setup/base.py, functions/gen.py) - hard-coded: a changed tree must not redefine the expected order
POSITIONAL_ORDER = {
    "decimate_data": ("q",),                          # SingleSetup / MultiSetup_PreGER .decimate_data(q, **kwargs)
    "detrend_data": (),                               # .detrend_data(**kwargs): keywords only
    "filter_data": ("Wn", "order", "btype"),          # .filter_data(Wn, order=8, btype="lowpass")
    "_decimate_data": ("data", "fs", "q"),            # BaseSetup._decimate_data(data, fs, q, **kwargs) -> (newdata, fs, dt, Ndat, T)
    "_detrend_data": ("data",),                       # BaseSetup._detrend_data(data, **kwargs)
    "_filter_data": ("data", "fs", "Wn", "order", "btype"),       # BaseSetup._filter_data(data, fs, Wn, order=8, btype="lowpass")
    "gen.filter_data": ("data", "fs", "Wn", "order", "btype"),    # functions.gen.filter_data(data, fs, Wn, order=4, btype="lowpass")
}
METHOD = {"dec": "decimate_data", "det": "detrend_data", "filt": "filter_data", "rb": "rollback", "add": "add_algorithms", "readd": "add_algorithms"}


def undocumented(op):
    return op[0] in ("dec", "det") and any(k not in (("n", "ftype", "zero_phase") if op[0] == "dec" else ("type", "bp", "overwrite_data")) for k in op[-1])


# ------------------------------------------------------------------------------------------------ keyword VALUE space
# A keyword value that is an object (scipy.signal.decimate documents ftype : {'iir','fir'} or a dlti instance) is NAMED by a
# string in the nominal call - for the model it is just another symbolic parameter value - and built when a call is made.
def make_dlti(tag, q):
    if tag == "dlti-iir-cheby1-4":
        return signal.dlti(*signal.cheby1(4, 0.05, 0.8 / q))
    if tag == "dlti-fir-21":
        return signal.dlti(signal.firwin(21, 1.0 / q, window="hamming"), 1.0)
    raise KeyError(tag)


def real_kw(kw, q=None):
    out = dict(kw)
    if isinstance(out.get("ftype"), str) and out["ftype"].startswith("dlti-"):
        out["ftype"] = make_dlti(out["ftype"], q)
    return out


def _accepted(f):
    try:
        f()
        return True
    except Exception:
        return False


def value_space():
    """One call per documented value (aliases included) of every keyword of the three SciPy routines, read from the installed
    SciPy where it exposes the domain (butter's btype table) and probed on it otherwise (detrend's type spellings)."""
    ops = []
    types = [t for t in ("linear", "l", "constant", "c") if _accepted(lambda: signal.detrend(np.arange(8.0), type=t))]
    ops += [("det", {"type": t}) for t in types] + [("det", {"type": t, "bp": [100, 300]}) for t in types]
    ops += [("det", {"type": "l", "bp": 300}), ("det", {"type": "c", "bp": 0}), ("det", {"bp": 150}),
            ("det", {"type": "c", "overwrite_data": False}), ("det", {"overwrite_data": False})]
    qs = itertools.cycle([2, 3, 4, 5])
    for ft in ("iir", "fir", "dlti-iir-cheby1-4", "dlti-fir-21"):
        for zp in (True, False):
            ops.append(("dec", next(qs), {"ftype": ft, "zero_phase": zp}))
    ops += [("dec", 3, {"ftype": "iir", "n": 3}), ("dec", 2, {"ftype": "fir", "n": 20}), ("dec", 3, {"ftype": "fir", "n": 15}), ("dec", 2, {"ftype": "fir", "n": 9, "zero_phase": True}), ("dec", 4, {"n": None, "ftype": "iir"}), ("dec", 5, {"n": 2})]
    try:
        from scipy.signal import _filter_design as fd
        table = dict(fd.band_dict)
    except Exception:
        table = {k: v for v, ks in (("lowpass", ("lowpass", "low", "l", "lp")), ("highpass", ("highpass", "high", "h", "hp")),
                                    ("bandpass", ("bandpass", "band", "pass", "bp")), ("bandstop", ("bandstop", "stop", "bands", "bs"))) for k in ks}
    orders = itertools.cycle([1, 2, 3, 4, 5, 6])
    for alias in sorted(table):
        ops.append(("filt", [1.0, 4.0] if table[alias] in ("bandpass", "bandstop") else 2.0, next(orders), alias))
    ops += [("filt", 2.0, o, "lowpass") for o in (1, 5, 7, 8)]
    return ops


def op_key(op):
    return json.dumps(op, sort_keys=True)


def strip_ow(kw):
    """overwrite_data decides WHERE scipy.signal.detrend puts its result, not its value (the harness's pristine arrays are read-only)."""
    return {k: v for k, v in kw.items() if k != "overwrite_data"}


# ------------------------------------------------------------------------------------------------ argument forms
# The NOMINAL call (what the model and the oracle see) is independent of how the caller spells its arguments.  Each call
# has one argument whose Python form is varied: Wn of filter_data, q of decimate_data, bp of detrend_data.  Every form
# must give the same result, and no argument object may be modified by the call.
F_ALPHA = [("filt", 2.0, 3, "lowpass"), ("filt", 3.0, 2, "highpass"), ("filt", [1.0, 4.0], 2, "bandpass"), ("filt", [2.0, 6.0], 2, "bandstop"),
           ("filt", [0.5, 2.5], 3, "bandpass")]


def forms_of(op):
    """Names of the forms applicable to the call's variable argument; the first is the default (used by old corpus cases)."""
    if op[0] == "filt":
        wn = op[1]
        if isinstance(wn, (list, tuple)):
            integral = all(float(w) == int(w) for w in wn)
            return ["tuple", "list", "f64arr"] + (["intlist", "intarr"] if integral else [])
        return ["float", "npfloat", "arr0"] + (["int", "npint", "intarr0"] if float(wn) == int(wn) else [])
    if op[0] == "dec":
        return ["int", "int64", "int32"]
    if op[0] == "det" and isinstance(op[1].get("bp"), (list, tuple)):
        return ["list", "tuple", "intarr"]
    return [None]


def build_arg(op, form):
    v = op[1] if op[0] in ("filt", "dec") else op[1]["bp"]
    return {
        "tuple": lambda: tuple(v), "list": lambda: list(v), "f64arr": lambda: np.array(v, dtype=np.float64),
        "intlist": lambda: [int(w) for w in v], "intarr": lambda: np.array([int(w) for w in v]),
        "float": lambda: float(v), "npfloat": lambda: np.float64(v), "arr0": lambda: np.array(float(v)),
        "int": lambda: int(v), "npint": lambda: np.int64(int(v)), "intarr0": lambda: np.array(int(v)),
        "int64": lambda: np.int64(v), "int32": lambda: np.int32(v),
    }[form]()


def pick_form(rng, op):
    fs_ = forms_of(op)
    if "f64arr" in fs_ and rng.random() < 0.35:      # the forms that can alias the caller's own array get more weight
        return "f64arr"
    if "arr0" in fs_ and rng.random() < 0.2:
        return "arr0"
    return rng.choice(fs_)


def snapshot(x):
    if isinstance(x, np.ndarray):
        return ("nd", x.dtype.str, x.shape, x.tobytes())
    if isinstance(x, (list, tuple)):
        return (type(x).__name__, tuple((type(e).__name__, e) for e in x))
    return None


class Params:
    """The argument objects handed to the calls of one history (or of two successive setups): ONE object per (call, form),
    re-used whenever the same call recurs - across the datasets of a PreGER object, across repeated calls, across setups.
    A bit-exact snapshot is kept beside each object: no call may modify what the caller passed."""

    def __init__(self):
        self.objs = {}

    def get(self, op, form):
        key = (op_key(op), form)
        if key not in self.objs:
            obj = build_arg(op, form)
            self.objs[key] = (obj, snapshot(obj))
        return self.objs[key][0]

    def modified(self):
        return ["%s as %s: now %r" % (k[0], k[1], o) for k, (o, snap) in self.objs.items() if snap is not None and snapshot(o) != snap]


def coq_kwval(v):
    if v is None:
        return "VNone"
    if isinstance(v, bool):
        return "(VBool %s)" % ("true" if v else "false")
    if isinstance(v, int):
        return "(VInt (%d)%%Z)" % v
    if isinstance(v, str):
        return '(VStr "%s")' % v
    return "(VInts %s%%Z)" % clist(["(%d)" % int(x) for x in v])


def coq_kw(kw):
    return clist(['("%s", %s)' % (k, coq_kwval(v)) for k, v in kw.items()])


def coq_op(op):
    if op[0] == "dec":
        return "(Decimate %d%%positive %s)" % (op[1], coq_kw(op[2]))
    if op[0] == "det":
        return "(Detrend %s)" % coq_kw(op[1])
    if op[0] == "filt":
        wn = op[1]
        w = "(W2 %s %s)" % (qc(wn[0]), qc(wn[1])) if isinstance(wn, (list, tuple)) else "(W1 %s)" % qc(wn)
        return '(Filter %s %d%%nat "%s")' % (w, op[2], op[3])
    if op[0] == "scipyraises":
        return "ScipyRaises"
    return "Rollback" if op[0] == "rb" else "(AddAlg %d%%nat)" % op[1]


def model_ops(cfg, ops):
    """The model's view of a history.  Every add_algorithms names the algorithm INSTANCE it passes (fresh instance = the
    call's position; re-added instance = the name of the one added last).  SciPy is not modelled: a documented call that
    SciPy itself refuses on the present data (the harness's own SciPy evaluation raises) is handed over as ScipyRaises; a
    call that raises is a no-op, the history continues from the unchanged state."""
    out, last, since = [], None, []
    for i, op in enumerate(ops, 1):
        if op[0] in ("add", "readd"):
            last = i if (op[0] == "add" or last is None) else last
            out.append(("add", last))
            since = since + [op]
        elif op[0] == "rb":
            out.append(op)
            since = []
        elif undocumented(op):
            out.append(op)           # the model itself answers TypeError
        elif isinstance(reference(cfg, since + [op])[0], Exception):
            out.append(("scipyraises",))
        else:
            out.append(op)
            since = since + [op]
    return out


class Letters:
    """Short Coq names for the operations (kept in the header of the generated case files)."""

    def __init__(self):
        self.names = {}
        self.defs = []

    def name(self, op):
        k = op_key(op)
        if k not in self.names:
            self.names[k] = "L%d" % len(self.names)
            self.defs.append("Definition %s := %s." % (self.names[k], coq_op(op)))
        return self.names[k]

    def header(self):
        return HEADER0 + "\nImport ListNotations.\nOpen Scope string_scope.\n" + "\n".join(self.defs)


# ------------------------------------------------------------------------------------------------ configurations
DEFAULT_SPEC = ["float64", "C", False]
DTYPES = ["float64", "float32", "int16", "int32", "int64", "uint16"]


def make_data(seed, shapes, dspec=None):
    """The user's arrays: noise + offset + linear trend + two sinusoids (so that every operation changes them).
    dspec[i] = [dtype, memory order, read-only]: other than the default, the record is INTEGER-VALUED A/D counts (x100,
    offset 20000, so that detrending produces non-integers and unsigned types hold it) stored in that dtype / order."""
    rng = np.random.default_rng(seed)
    out = []
    for i, (n, c) in enumerate(shapes):
        t = np.arange(n)[:, None] / float(n)
        x = rng.standard_normal((n, c))
        x += rng.uniform(-3, 3, size=(1, c)) + rng.uniform(-4, 4, size=(1, c)) * t
        x += np.sin(2 * np.pi * rng.uniform(2, 6, size=(1, c)) * t) + 0.5 * np.cos(2 * np.pi * rng.uniform(20, 60, size=(1, c)) * t)
        spec = dspec[i] if dspec else DEFAULT_SPEC
        if list(spec) != DEFAULT_SPEC:
            x = np.array(np.round(x * 100.0 + 20000.0), dtype=spec[0], order=spec[1])
        out.append(np.ascontiguousarray(x) if spec[1] == "C" else np.asfortranarray(x))
    return out


class Cfg:
    def __init__(self, single, fs0, shapes, refs, data_seed, alpha, fs_kind="float", dspec=None):
        self.single = bool(single)
        self.fs0 = float(fs0)
        self.fs_kind = fs_kind       # how fs is handed to the constructor: "float", "int" (Python int) or "int64" (numpy)
        assert fs_kind == "float" or self.fs0 == int(self.fs0)
        self.shapes = [tuple(int(v) for v in s) for s in shapes]
        self.refs = [[int(v) for v in r] for r in refs]
        self.data_seed = int(data_seed)
        self.alpha = alpha
        self.dspec = [list(d) for d in dspec] if dspec else [list(DEFAULT_SPEC) for _ in self.shapes]
        self.pristine = make_data(self.data_seed, self.shapes, self.dspec)
        for a in self.pristine:
            a.setflags(write=False)
        self.cls = "SingleSetup" if self.single else "MultiSetup_PreGER"
        self.term_memo = {}
        self.ref_memo = {}

    def desc(self):
        d = dict(cls=self.cls, fs0=self.fs0, fs_kind=self.fs_kind, shapes=[list(s) for s in self.shapes], refs=self.refs, data_seed=self.data_seed)
        if any(x != DEFAULT_SPEC for x in self.dspec):
            d["dspec"] = self.dspec
        return d

    def fs_arg(self):
        return {"float": float, "int": int, "int64": np.int64}[self.fs_kind](self.fs0)

    def coq_args(self):
        refs = clist([clist(["%d" % v for v in r]) for r in self.refs]) + "%nat"
        shapes = clist(["(%d,%d)" % s for s in self.shapes]) + "%nat"
        return "%s %s %s %s" % ("true" if self.single else "false", qc(self.fs0), refs, shapes)


# ------------------------------------------------------------------------------------------------ model output
TOK = re.compile(r"\(|\)|[^\s()]+")


def parse_kw(s):
    assert s[0] == "{" and s[-1] == "}", s
    out = []
    for item in (s[1:-1].split(",") if len(s) > 2 else []):
        k, v = item.split("=", 1)
        if v == "N":
            val = None
        elif v[0] == "i":
            val = int(v[1:])
        elif v[0] == "b":
            val = v[1:] == "T"
        elif v[0] == "s":
            val = v[1:]
        else:
            val = tuple(int(x) for x in v[1:].split(":")) if len(v) > 1 else ()
        out.append((k, val))
    return tuple(out)


def parse_term(toks, i):
    assert toks[i] == "(", toks[i:]
    h = toks[i + 1]
    if h == "I":
        assert toks[i + 5] == ")"
        return ("I", int(toks[i + 2]), int(toks[i + 3]), int(toks[i + 4])), i + 6
    if h == "D":
        sub, j = parse_term(toks, i + 4)
        assert toks[j] == ")"
        return ("D", int(toks[i + 2]), parse_kw(toks[i + 3]), sub), j + 1
    if h == "T":
        sub, j = parse_term(toks, i + 3)
        assert toks[j] == ")"
        return ("T", parse_kw(toks[i + 2]), sub), j + 1
    assert h == "F", h
    wn = tuple(parse_q(x) for x in toks[i + 3].split(","))
    sub, j = parse_term(toks, i + 6)
    assert toks[j] == ")"
    return ("F", parse_q(toks[i + 2]), wn, int(toks[i + 4]), toks[i + 5], sub), j + 1


def reinit(leaf, t):
    return leaf if t[0] == "I" else t[:-1] + (reinit(leaf, t[-1]),)


def parse_view(s, cur_i):
    """cur_i: the dataset's current term (what the abbreviation "=" stands for)."""
    toks = TOK.findall(s)
    k = 1 if toks[0] == "W" else 3
    if toks[k] == "=":
        assert len(toks) == k + 1 and cur_i is not None, s
        t = cur_i
    else:
        t, j = parse_term(toks, k)
        assert j == len(toks)
    if toks[0] == "W":
        return ("W", t)
    assert toks[0] == "S" and toks[1][0] == "r" and toks[2][0] == "m", s
    ids = lambda x: [int(v) for v in x[1:].split(",")] if len(x) > 1 else []
    return ("S", t, ids(toks[1]), ids(toks[2]))


def parse_state(s):
    err = None
    if s.startswith("E:"):
        if "!" not in s:
            return {"err": s[2:]}            # the constructor raised
        err, s = s[2:].split("!", 1)          # this call raised; the (unchanged) state follows
    f = s.split("|")
    assert len(f) == 8, s
    terms = []
    for x in (f[4].split(";") if f[4] else []):
        toks = TOK.findall(x)
        if toks[0].startswith("^"):     # the first dataset's term with the Init leaf replaced
            assert terms and len(toks) == 3, x
            terms.append(reinit(("I", int(toks[0][1:]), int(toks[1]), int(toks[2])), terms[0]))
            continue
        t, j = parse_term(toks, 0)
        assert j == len(toks)
        terms.append(t)
    views = lambda txt: [parse_view(v, terms[i] if i < len(terms) else None) for i, v in enumerate(txt.split(";") if txt else [])]
    last = None
    if f[7] != "-":
        a, b = f[7].split("@", 1)
        nm, a = a.split(":", 1)
        last = (parse_q(a), views(b), int(nm))
    st = dict(fs=parse_q(f[0]), dt=parse_q(f[1]), Ndats=[int(x) for x in f[2].split()], Ts=[parse_q(x) for x in f[3].split()],
              cur=terms, data=views(f[5]), nbound=int(f[6]), last=last)
    if err is not None:
        st["err"] = err
    return st


def kw_dict(kw):
    return {k: (list(v) if isinstance(v, tuple) else v) for k, v in kw}


def eval_term(cfg, t):
    """The harness's own evaluation of a model term by the SciPy calls it names.  Returns an array or an Exception."""
    memo = cfg.term_memo
    if t in memo:
        return memo[t]
    if t[0] == "I":
        r = cfg.pristine[t[1]]
        if r.shape != (t[2], t[3]):
            r = AssertionError("Init shape")
    else:
        x = eval_term(cfg, t[-1])
        if isinstance(x, Exception):
            r = x
        else:
            try:
                if t[0] == "D":
                    r = signal.decimate(x, t[1], axis=0, **real_kw(kw_dict(t[2]), t[1]))
                elif t[0] == "T":
                    r = signal.detrend(x, axis=0, **strip_ow(kw_dict(t[1])))
                else:
                    wn = [float(w) for w in t[2]]
                    sos = signal.butter(t[3], wn if len(wn) > 1 else wn[0], btype=t[4], output="sos", fs=float(t[1]))
                    r = signal.sosfiltfilt(sos, x, axis=0)
            except Exception as e:  # SciPy refuses (record too short, Wn above Nyquist ...)
                r = e
    memo[t] = r
    return r


# ------------------------------------------------------------------------------------------------ the property text
def reference(cfg, since):
    """Oracle: (arrays | Exception, exact fs) after the calls `since` (those issued after the last rollback), obtained by
    pushing pristine copies of the user's arrays through SciPy call by call."""
    key = tuple(op_key(o) for o in since)
    memo = cfg.ref_memo
    if key in memo:
        return memo[key]
    if not since:
        r = ([a for a in cfg.pristine], Fraction(cfg.fs0))
    else:
        arrs, fsx = reference(cfg, since[:-1])
        op = since[-1]
        if isinstance(arrs, Exception) or op[0] in ("rb", "add", "readd"):
            r = (arrs, fsx)
        else:
            try:
                if op[0] == "dec":
                    r = ([signal.decimate(a, op[1], axis=0, **real_kw(op[2], op[1])) for a in arrs], fsx / op[1])
                elif op[0] == "det":
                    r = ([signal.detrend(a, axis=0, **strip_ow(op[1])) for a in arrs], fsx)
                else:
                    sos = signal.butter(op[2], op[1], btype=op[3], output="sos", fs=float(fsx))
                    r = ([signal.sosfiltfilt(sos, a, axis=0) for a in arrs], fsx)
            except Exception as e:
                r = (e, fsx)
    memo[key] = r
    return r


SINGLE_PRECISION_LINEAGE = [False]   # set by the memory-layer block while it drives a configuration holding a float32 record


def close(a, b):
    a = np.asarray(a)
    b = np.asarray(b)
    if a.shape != b.shape:
        return False
    if a.size == 0 or np.array_equal(a, b):
        return True
    if b.dtype == np.float32:       # SciPy keeps single precision for decimate / detrend of a float32 record
        return bool(np.all(np.abs(a.astype(float) - b.astype(float)) <= 1e-5 * max(1e-300, float(np.abs(b).max()))))
    if SINGLE_PRECISION_LINEAGE[0]:  # float64 results computed FROM a float32 record (in place / on a copy in another memory order)
        return bool(np.all(np.abs(a - b) <= 1e-4 * max(1e-300, float(np.abs(b).max()))))
    return bool(np.all(np.abs(a - b) <= ATOL_ARR * max(1e-300, float(np.abs(b).max()))))


def same(u, p):
    """bit-equal, same dtype, same shape"""
    return isinstance(u, np.ndarray) and u.dtype == p.dtype and u.shape == p.shape and np.array_equal(u, p)


def relclose(x, fr):
    try:
        x = float(x)
    except Exception:
        return False
    y = float(fr)
    return abs(x - y) <= RTOL * max(abs(y), 1e-300)


class Recorder:
    def __init__(self, ctx):
        self.ctx = ctx
        self.counts = {}

    def fail(self, kind, what, case, key):
        n = self.counts.get((kind, key), 0)
        self.counts[(kind, key)] = n + 1
        if n < 2:
            self.ctx.fail(kind, what, case, key=key)


class Impl:
    """The object under test plus what the harness keeps beside it."""

    def __init__(self, cfg):
        self.cfg = cfg
        self.user = [np.array(a, copy=True, order="K") for a in cfg.pristine]   # the arrays handed to the constructor
        for a, spec in zip(self.user, cfg.dspec):
            a.setflags(write=not spec[2])
        self.user_refs = [list(r) for r in cfg.refs]
        self.user_list = list(self.user)
        self.algs = []   # [algorithm, since-at-(re)bind-time, site], one entry per instance
        self.last_alg = None
        if cfg.single:
            self.obj = SingleSetup(self.user[0], fs=cfg.fs_arg())
        else:
            self.obj = MultiSetup_PreGER(fs=cfg.fs_arg(), ref_ind=self.user_refs, datasets=self.user_list)

    def call(self, op, idx, form=None, params=None):
        o = self.obj
        form = form or forms_of(op)[0]
        params = params if params is not None else Params()
        # call form: the same call is made fully positionally (in the parameter order of the PRISTINE signatures, hard-coded in
        # POSITIONAL_ORDER) or with keywords, alternating with the position of the call and the configuration
        positional = (idx + self.cfg.data_seed) % 2 == 0
        if op[0] == "dec":
            assert POSITIONAL_ORDER["decimate_data"] == ("q",)
            if positional:
                o.decimate_data(params.get(op, form), **real_kw(op[2], op[1]))
            else:
                o.decimate_data(q=params.get(op, form), **real_kw(op[2], op[1]))
        elif op[0] == "det":
            o.detrend_data(**(dict(op[1], bp=params.get(op, form)) if form is not None else op[1]))
        elif op[0] == "filt":
            assert POSITIONAL_ORDER["filter_data"] == ("Wn", "order", "btype")
            if positional:
                o.filter_data(params.get(op, form), op[2], op[3])
            else:
                o.filter_data(Wn=params.get(op, form), order=op[2], btype=op[3])
        elif op[0] == "rb":
            o.rollback()
        else:
            if op[0] == "readd" and self.last_alg is not None:
                alg = self.last_alg            # the SAME object under the SAME name
            else:
                alg = (FDD if self.cfg.single else FDD_MS)(name="alg%d" % idx)
            o.add_algorithms(alg)
            self.last_alg = alg
            return alg
        return None

    def datasets(self):
        return [self.obj.data] if self.cfg.single else list(self.obj.datasets)

    def counts(self):
        return [self.obj.Ndat] if self.cfg.single else list(self.obj.Ndats)

    def durations(self):
        return [self.obj.T] if self.cfg.single else list(self.obj.Ts)


def split_ok(view, arr, refs, movs):
    """view = {"ref": ..., "mov": ...} must be the reference / roving rows of arr."""
    try:
        return close(view["ref"], arr[:, refs].T) and close(view["mov"], arr[:, movs].T)
    except Exception:
        return False


def handed_ok(cfg, handed, arrs):
    """Property text: what an algorithm receives = the current data (SingleSetup) / its per-dataset ref-mov split (PreGER)."""
    if cfg.single:
        return close(handed, arrs[0])
    if not isinstance(handed, (list, tuple)) or len(handed) != len(arrs):
        return False
    for v, a, r, (n, c) in zip(handed, arrs, cfg.refs, cfg.shapes):
        movs = [k for k in range(c) if k not in r]
        if not split_ok(v, a, r, movs):
            return False
    return True


def view_ok(cfg, mview, handed_i):
    """Correspondence: one model view against the implementation's object."""
    arr = eval_term(cfg, mview[1])
    if isinstance(arr, Exception):
        return None
    if mview[0] == "W":
        return close(handed_i, arr)
    return split_ok(handed_i, arr, mview[2], mview[3])


def check_state(ctx, rec, cfg, im, ops, i, since, q_last, mstates, case, reported, full=True, raised=False):
    """After call number i (0 = construction): the property text and (full) the model state against the object.
    full=False: sampling attributes and the user's arrays only (every call of every history); an attribute already
    reported wrong earlier in this history is not reported again (the call that broke it is the one named).
    raised=True: call number i raised; `since` is then the history WITHOUT it, i.e. every observable must be what it was
    before the call.  mstates=None: no model state for this call (only the last call of an enumerated word has one)."""
    cls = cfg.cls
    site = "%s.%s" % (cls, METHOD[ops[i - 1][0]] if i else "__init__")
    o = im.obj
    arrs, fsx = reference(cfg, since)

    def fail(what, text, key=None):
        if what not in reported:
            reported.add(what)
            if raised:
                text = "%s RAISED, so every observable must be what it was before the call, but: %s" % (site, text)
            rec.fail("oracle", text, case, key or "C14:%s:%s%s" % (site, what, "-after-raise" if raised else ""))

    # ---------- oracle: property text
    try:
        if full:
            got = im.datasets()
            if len(got) != len(arrs) or not all(close(g, a) for g, a in zip(got, arrs)):
                fail("data", "after %s the current %s differ from the same SciPy calls applied in sequence to the initial data" % (site, "data" if cfg.single else "datasets"))
            elif any(np.asarray(g).dtype != a.dtype for g, a in zip(got, arrs)):
                fail("dtype", "after %s the current data have dtype %s, the same SciPy calls on the initial data give %s" % (site, [str(np.asarray(g).dtype) for g in got], [str(a.dtype) for a in arrs]))
            elif not cfg.single and not handed_ok(cfg, o.data, arrs):
                fail("split", "after %s .data is not the reference/roving split of the processed datasets" % site)
        if not relclose(o.fs, fsx):
            fail("fs", "%s: fs = %r, property says fs0 / product of decimation factors = %s" % (site, o.fs, float(fsx)))
        if not relclose(o.dt, 1 / fsx):
            fail("dt", "%s: dt = %r, property says 1/fs = %s" % (site, o.dt, float(1 / fsx)))
        rows = [a.shape[0] for a in arrs]
        if [int(n) for n in im.counts()] != rows:
            fail("Ndat", "%s: sample counts %r, array lengths %r" % (site, im.counts(), rows))
        Tgot = im.durations()
        Twant = [Fraction(n) / fsx for n in rows]
        if len(Tgot) != len(Twant) or not all(relclose(a, b) for a, b in zip(Tgot, Twant)):
            if cfg.single and q_last and len(Tgot) == 1 and relclose(Tgot[0], Twant[0] / q_last):
                # exactly the recorded defect: SingleSetup.decimate_data stores Ndat*dt/q
                fail("T", "SingleSetup.decimate_data: T = %r for %d samples at dt = %s (Ndat*dt = %s): stored Ndat*dt/q" % (Tgot[0], rows[0], float(1 / fsx), float(Twant[0])),
                     "C14:SingleSetup.decimate_data:T")
            else:
                fail("T", "%s: durations %r, property says samples x dt = %r" % (site, Tgot, [float(t) for t in Twant]),
                     "C14:%s:%s" % (site, "T-other" if cfg.single else "Ts"))
    except Exception as e:
        fail("attributes", "%s: attributes unreadable (%s: %s)" % (site, type(e).__name__, e))
    # nothing the user passed in, and no stored initial copy, is ever modified
    if not all(same(u, p) and u.flags.f_contiguous == p.flags.f_contiguous for u, p in zip(im.user, cfg.pristine)) or len(im.user_list) != len(cfg.pristine) \
            or any(a is not b for a, b in zip(im.user_list, im.user)) or im.user_refs != cfg.refs:
        fail("user-array-modified", "%s modified the arrays / lists the user passed in" % site)
    ini = getattr(o, "_initial_data", None) if cfg.single else getattr(o, "_initial_datasets", None)
    if ini is not None:
        ini = [ini] if cfg.single else list(ini)
        if len(ini) != len(cfg.pristine) or not all(same(u, p) for u, p in zip(ini, cfg.pristine)):
            fail("initial-copy-modified", "%s modified the stored initial copy" % site)
        if getattr(o, "_initial_fs", cfg.fs0) != cfg.fs0 or (not cfg.single and getattr(o, "_initial_ref_ind", cfg.refs) != cfg.refs):
            fail("initial-copy-modified", "%s modified the stored initial fs / reference layout" % site)
    if not full or mstates is None:
        return
    # ---------- correspondence: model state
    ms = mstates[0]
    if ("err" in ms) != raised or "fs" not in ms:
        rec.fail("correspondence", "%s %s, model says %s" % (site, "raised" if raised else "succeeded", ms.get("err", "no exception")), case, "C14:%s:corr-raise" % cls)
        return
    try:
        bad = []
        if not relclose(o.fs, ms["fs"]):
            bad.append("fs")
        if not relclose(o.dt, ms["dt"]):
            bad.append("dt")
        if [int(n) for n in im.counts()] != ms["Ndats"]:
            bad.append("Ndat")
        Tg = im.durations()
        if not any(len(Tg) == len(m["Ts"]) and all(relclose(a, b) for a, b in zip(Tg, m["Ts"])) for m in mstates if "Ts" in m):
            bad.append("T")
        got = im.datasets()
        if len(got) != len(ms["cur"]):
            bad.append("datasets(len)")
        else:
            for g, t, n in zip(got, ms["cur"], ms["Ndats"]):
                e = eval_term(cfg, t)
                if isinstance(e, Exception):
                    continue
                if e.shape[0] != n:
                    rec.fail("correspondence", "SciPy shape contract: term has %d rows, model length %d" % (e.shape[0], n), case, "C14:corr-shape-contract")
                if not close(g, e):
                    bad.append("datasets")
                    break
        hd = [o.data] if cfg.single else list(o.data)
        if len(hd) != len(ms["data"]) or not all(view_ok(cfg, v, h) is not False for v, h in zip(ms["data"], hd)):
            bad.append("data")
        if bad:
            rec.fail("correspondence", "after %s the implementation differs from the model in %s" % (site, ",".join(bad)), case, "C14:%s:corr-%s" % (cls, bad[0]))
    except Exception as e:
        rec.fail("correspondence", "%s: comparison with the model failed (%s: %s)" % (site, type(e).__name__, e), case, "C14:%s:corr-crash" % cls)


def check_alg(ctx, rec, cfg, alg, since, mlast, site, case, when, name=None):
    """After add_algorithms(alg): alg.data / fs / dt are those of the setup at that moment, whether or not alg had been added
    before (checked when bound or re-bound, and again at the end of the history)."""
    arrs, fsx = reference(cfg, since)
    sfx = {"at binding": "", "at re-binding of an instance added before": "-readd"}.get(when, "-later")
    try:
        if not handed_ok(cfg, alg.data, arrs):
            rec.fail("oracle", "%s: the data of an algorithm added after the calls differ from the same SciPy calls applied to the initial data (%s)" % (site, when),
                     case, "C14:%s:alg-data%s" % (site, sfx))
        if not relclose(alg.fs, fsx) or not relclose(alg.dt, 1 / fsx):
            rec.fail("oracle", "%s: algorithm fs/dt = %r/%r, data are sampled at %s (%s)" % (site, alg.fs, alg.dt, float(fsx), when), case,
                     "C14:%s:alg-fs%s" % (site, "-readd" if sfx == "-readd" else ""))
    except Exception as e:
        rec.fail("oracle", "%s: algorithm data unreadable (%s: %s)" % (site, type(e).__name__, e), case, "C14:%s:alg-attributes" % site)
    if mlast is not None:
        try:
            hd = [alg.data] if cfg.single else list(alg.data)
            ok = (name is None or mlast[2] == name) and relclose(alg.fs, mlast[0]) and len(hd) == len(mlast[1]) and all(view_ok(cfg, v, h) is not False for v, h in zip(mlast[1], hd))
        except Exception:
            ok = False
        if not ok:
            rec.fail("correspondence", "%s: bound data/fs differ from the model's binding" % site, case, "C14:%s:corr-binding" % cfg.cls)


def run_history(ctx, rec, cfg, ops, model, all_steps, forms=None, params=None, setup_no=1, repeat=1):
    """model: list (one per model variant) of lists of parsed states: [after construction, after op 1, ...] when all_steps,
    else [final state].  forms: the Python form of each call's variable argument (None = default forms); params: the
    argument objects (shared between the setups of a repeat_setups > 1 case).  Returns True when the history was judged to its end."""
    forms = list(forms) if forms else [forms_of(o)[0] for o in ops]
    params = params if params is not None else Params()
    case = dict(cfg.desc(), ops=[list(o) for o in ops], forms=forms, repeat_setups=repeat)
    if setup_no > 1:
        case["failing_setup"] = setup_no
    try:
        im = Impl(cfg)
    except Exception as e:
        st = model[0][0]
        if "err" not in st:
            rec.fail("oracle", "%s(...) raised %s: %s on a valid layout" % (cfg.cls, type(e).__name__, e), case, "C14:%s.__init__:raises" % cfg.cls)
        return False
    if "err" in model[0][0] and (all_steps or not ops):
        rec.fail("correspondence", "%s(...) accepted a layout the model rejects (%s)" % (cfg.cls, model[0][0]["err"]), case, "C14:%s:corr-init" % cfg.cls)
        return False
    since, q_last, reported = [], None, set()
    names = [o[1] if o[0] == "add" else None for o in model_ops(cfg, ops)]
    if all_steps or not ops:
        check_state(ctx, rec, cfg, im, ops, 0, since, q_last, [m[0] for m in model], dict(case, step=0), reported)
    for i, op in enumerate(ops, 1):
        site = "%s.%s" % (cfg.cls, METHOD[op[0]])
        nsince = [] if op[0] == "rb" else since + [op]
        want, _ = reference(cfg, nsince)
        if all_steps:
            mst = [m[min(i, len(m) - 1)] for m in model]
        else:
            mst = [m[0] for m in model] if i == len(ops) else None
        undoc = undocumented(op)
        try:
            alg = im.call(op, i, forms[i - 1], params)
            raised = None
        except Exception as e:
            raised = e
        step_case = dict(case, step=i)
        changed = params.modified()
        if changed and "argument-modified" not in reported:
            reported.add("argument-modified")
            rec.fail("oracle", "%s modified an argument object the caller passed (%s)" % (site, "; ".join(changed)[:300]), step_case, "C14:%s:argument-modified" % site)
        if raised is not None:
            if not undoc and not isinstance(want, Exception):
                rec.fail("oracle", "%s(%s) raised %s: %s; every documented keyword must be accepted" % (site, json.dumps(op[1:]), type(raised).__name__, str(raised)[:200]),
                         step_case, "C14:%s:raises-%s" % (site, type(raised).__name__))
                return False
            # an undocumented keyword, or a call SciPy itself refuses on these data (record too short for the padding, unknown
            # ftype/type/btype, Wn above Nyquist): EVERY observable must be what it was before the call; the history goes on
            ctx.hist("raised", ("undocumented-keyword:" if undoc else "scipy-refuses:") + type(raised).__name__)
            check_state(ctx, rec, cfg, im, ops, i, since, q_last, mst, step_case, reported, full=True, raised=True)
            for a_, s_at, site_a in im.algs:
                check_alg(ctx, rec, cfg, a_, s_at, None, site_a, step_case, "after a later call that raised")
            continue
        if isinstance(want, Exception) and not undoc:
            rec.fail("oracle", "%s succeeded where the same SciPy call on the same data raises %s" % (site, type(want).__name__), step_case, "C14:%s:no-raise" % site)
            return False
        if undoc:
            if mst is not None and "err" in mst[0]:
                rec.fail("correspondence", "%s accepted an undocumented keyword, model says %s" % (site, mst[0]["err"]), step_case, "C14:%s:corr-raise" % cfg.cls)
            return False
        since = nsince
        if op[0] == "rb":
            q_last = None
        elif op[0] == "dec":
            q_last = op[1]
        rebound = False
        if op[0] in ("add", "readd"):
            old = [e for e in im.algs if e[0] is alg]
            rebound = bool(old)
            if old:
                old[0][1] = list(since)      # the same instance added again: it must now hold the present data
            else:
                im.algs.append([alg, list(since), site])
        # sampling attributes and the user's arrays after every call; arrays and the model state after the last call (or every call)
        check_state(ctx, rec, cfg, im, ops, i, since, q_last, mst, step_case, reported, full=mst is not None)
        if op[0] in ("add", "readd") and (mst is not None or rebound):
            check_alg(ctx, rec, cfg, alg, since, mst[0].get("last") if (mst is not None and "err" not in mst[0]) else None, site, step_case,
                      "at re-binding of an instance added before" if rebound else "at binding", names[i - 1])
    # algorithms bound on the way still hold what they were given
    for alg, s_at, site in im.algs:
        check_alg(ctx, rec, cfg, alg, s_at, None, site, dict(case, step=len(ops)), "at the end of the history")
    return True


# ------------------------------------------------------------------------------------------------ memory layer
# Model: coq/Model/M_prep_mem.v (buffers with identities), evaluated with ow = false (the present code: overwrite_data never reaches SciPy).  For every history the model says, after every call, which buffer
# the user's arrays, the stored initial copy, the current data, the handed-over data and every algorithm instance live in,
# what every buffer holds, whether its dtype is floating, and which buffers the call wrote.  The implementation's objects are
# observed with np.shares_memory (alias pattern), bit-exact snapshots before / after every call (written pattern), the SciPy
# evaluation of the model's content terms (contents) and dtype.char (floating flag).
HEADER_MEM = HEADER0 + "\nFrom PyOMA.Model Require Import M_prep_mem."
OW_KEY = "C14:detrend_data:overwrite_data-writes-user-array"
M_ALPHA = [("dec", 2, {}), ("det", {}), ("det", {"overwrite_data": True}), ("det", {"type": "constant", "overwrite_data": True}),
           ("filt", 2.0, 2, "lowpass"), ("rb",), ("add",)]
M_EXTRA = [("dec", 3, {"ftype": "fir"}), ("det", {"type": "l", "overwrite_data": True, "bp": [50]}), ("det", {"type": "c"}), ("readd",),
           ("det", {"overwrite_data": False}), ("det", {"type": "linear", "overwrite_data": 1}), ("dec", 2, {"zero_phase": False})]


def overwrites(op):
    return op[0] == "det" and bool(op[1].get("overwrite_data"))


def is_floating(a):
    return np.asarray(a).dtype.char in "dfDF"


def parse_mem_state(s):
    f = s.split("|")
    assert len(f) == 8, s
    ids = lambda x: [int(v) for v in x.split()]
    bound = []
    for item in (f[4].split(";") if f[4] else []):
        nm, l = item.split(":", 1)
        bound.append((int(nm), ids(l)))
    heap = {}
    for item in (f[7].split(";") if f[7] else []):
        i, b = item.split("=", 1)
        heap[int(i)] = (b[0] == "f", parse_view(b[1:], None))
    return dict(user=ids(f[0]), init=ids(f[1]), cur=ids(f[2]), data=ids(f[3]), bound=bound, writes=ids(f[5]), nlog=int(f[6]), heap=heap)


def mem_model_slots(cfg, ms, alg_names):
    """[(slot name, (buffer id, part))]: user arrays, stored copy, current data, handed-over data, then what every algorithm
    instance holds (its latest binding), in a fixed order; a PreGER data buffer is the pair of arrays ref / mov."""
    parts = [None] if cfg.single else ["ref", "mov"]
    out = [("user%d" % k, (i, None)) for k, i in enumerate(ms["user"])]
    out += [("init%d" % k, (i, None)) for k, i in enumerate(ms["init"])]
    out += [("cur%d" % k, (i, None)) for k, i in enumerate(ms["cur"])]
    out += [("data%d%s" % (k, p or ""), (i, p)) for k, i in enumerate(ms["data"]) for p in parts]
    latest = {}
    for nm, l in ms["bound"]:
        latest[nm] = l
    for nm in alg_names:
        out += [("alg%d.%d%s" % (nm, k, p or ""), (i, p)) for k, i in enumerate(latest.get(nm, [])) for p in parts]
    return out


def mem_impl_slots(cfg, im, algs):
    o = im.obj
    out = [("user%d" % k, a) for k, a in enumerate(im.user)]
    ini = [o._initial_data] if cfg.single else list(o._initial_datasets)
    out += [("init%d" % k, a) for k, a in enumerate(ini)]
    out += [("cur%d" % k, a) for k, a in enumerate(im.datasets())]

    def handed(name, d):
        if cfg.single:
            return [("%s0" % name, d)]
        return [("%s%d%s" % (name, k, p), v[p]) for k, v in enumerate(d) for p in ("ref", "mov")]
    out += handed("data", o.data)
    for nm, alg in algs:
        out += handed("alg%d." % nm, alg.data)
    return out


def alias_labels(keys, share):
    lab = []
    for i in range(len(keys)):
        lab.append(next(j for j in range(i + 1) if j == i or share(keys[j], keys[i])))
    return lab


def real_share(a, b):
    return a is b or (a.size > 0 and b.size > 0 and bool(np.shares_memory(a, b)))


def mem_content_ok(cfg, content, part, arr):
    e = eval_term(cfg, content[1])
    if isinstance(e, Exception):
        return None
    if content[0] == "W":
        return part is None and close(arr, e)
    if part is None:
        return False
    cols = content[2] if part == "ref" else content[3]
    return close(arr, e[:, cols].T)


def run_mem_history(ctx, rec, cfg, ops, trace):
    """trace: the model's memory states [after construction, after call 1, ...] (a call that raises leaves the state)."""
    case = dict(cfg.desc(), ops=[list(o) for o in ops], mem=True)
    cls = cfg.cls
    try:
        im = Impl(cfg)
    except Exception as e:
        rec.fail("oracle", "%s(...) raised %s: %s on a valid layout" % (cls, type(e).__name__, e), case, "C14:%s.__init__:raises" % cls)
        return
    mops = model_ops(cfg, ops)
    algs, at_bind, since, ow_seen, reported = [], {}, [], False, set()

    def corr(what, text, step):
        if what not in reported:
            reported.add(what)
            rec.fail("correspondence", text, dict(case, step=step), "C14:%s:mem-%s" % (cls, what))

    def orc(what, text, step, key=None):
        if what not in reported:
            reported.add(what)
            rec.fail("oracle", text, dict(case, step=step), key or "C14:%s" % what)

    def observe(step, site, prev):
        """prev: (slots before the call, their bytes, the model's slots before the call) or None after construction."""
        ms = trace[min(step, len(trace) - 1)]
        names = [nm for nm, _ in algs]
        mslots = mem_model_slots(cfg, ms, names)
        try:
            islots = mem_impl_slots(cfg, im, algs)
        except Exception as e:
            corr("crash", "%s: memory observation failed (%s: %s)" % (site, type(e).__name__, e), step)
            return None
        if [n for n, _ in mslots] != [n for n, _ in islots]:
            corr("slots", "%s: the objects hold %s, the model %s" % (site, [n for n, _ in islots], [n for n, _ in mslots]), step)
            return None
        arrs = [np.asarray(a) for _, a in islots]
        # ---- alias pattern
        la = alias_labels(arrs, real_share)
        lm = alias_labels([k for _, k in mslots], lambda a, b: a == b)
        if la != lm:
            pairs = lambda lab: sorted("%s~%s" % (mslots[j][0], mslots[i][0]) for i, j in enumerate(lab) if j != i)
            corr("alias", "after %s arrays share memory as %s, the model says %s" % (site, pairs(la), pairs(lm)), step)
        # ---- contents and floating flags
        for (name, (bid, part)), a in zip(mslots, arrs):
            fl, content = ms["heap"][bid]
            ok = mem_content_ok(cfg, content, part, a)
            if ok is False:
                corr("content", "after %s %s does not hold what the model's buffer %d holds" % (site, name, bid), step)
            if part is None and not name.startswith(("data", "alg")) and is_floating(a) != fl:
                corr("dtype", "after %s %s has dtype %s, model floating flag %s" % (site, name, a.dtype, fl), step)
        # ---- written pattern
        if prev is not None:
            pslots, pbytes, pm = prev
            failed_call = ms["nlog"] == pm["nlog"]
            writes = set() if failed_call else set(ms["writes"])
            for (name, a), b, (_, (bid, _p)) in zip(pslots, pbytes, pm["slots"]):
                if a.tobytes() != b and bid not in writes:
                    corr("write", "%s changed the content of %s (buffer %d), the model's write set is %s" % (site, name, bid, sorted(writes)), step)
        # ---- the property text
        want, _ = reference(cfg, since)
        got = im.datasets()
        if not isinstance(want, Exception) and (len(got) != len(want) or not all(close(g, w) for g, w in zip(got, want))):
            orc("%s:data" % site, "after %s the current data differ from the same SciPy calls applied in sequence to the initial data" % site, step)
        ini = [im.obj._initial_data] if cfg.single else list(im.obj._initial_datasets)
        if len(ini) != len(cfg.pristine) or not all(same(u, p) for u, p in zip(ini, cfg.pristine)):
            orc("%s:initial-copy-modified" % site, "%s modified the stored initial copy" % site, step)
        if any(real_share(np.asarray(u), np.asarray(v)) for u in ini for v in list(im.user) + [np.asarray(x) for x in im.datasets()]):
            orc("%s:initial-copy-aliased" % site, "after %s the stored initial copy shares memory with the user's arrays or the current data" % site, step)
        # no call ever modifies the user's arrays; an algorithm keeps what it was handed - unconditionally (a modification that
        # follows a detrend_data(overwrite_data=True) is the defect repaired by repo commit f6a83e1: its own key)
        if not all(same(u, p) for u, p in zip(im.user, cfg.pristine)):
            if ow_seen:
                orc("ow-user", "%s.detrend_data(overwrite_data=True) detrended the array the USER passed to the constructor in place; property: no call ever modifies the arrays the user passed in" % cls,
                    step, OW_KEY)
            else:
                orc("%s:user-array-modified" % site, "%s modified the arrays the user passed in" % site, step)
        for nm, alg in algs:
            s_at, ow_after = at_bind[nm]
            w_at, _ = reference(cfg, s_at)
            if isinstance(w_at, Exception) or handed_ok(cfg, alg.data, w_at):
                continue
            if ow_after:
                orc("ow-alg", "%s: the data an algorithm was handed were changed by a later detrend_data(overwrite_data=True)" % cls, step, OW_KEY)
            else:
                orc("%s:alg-data-later" % site, "after %s an algorithm added earlier no longer holds the data it was handed" % site, step)
        return (islots, [a.tobytes() for a in arrs], dict(nlog=ms["nlog"], slots=mslots))

    prev = observe(0, "%s.__init__" % cls, None)
    for i, (op, mop) in enumerate(zip(ops, mops), 1):
        site = "%s.%s" % (cls, METHOD[op[0]])
        # what the call will write is judged against the slots as they are BEFORE the call
        try:
            alg = im.call(op, i)
            raised = None
        except Exception as e:
            raised = e
        if (raised is not None) != (mop[0] == "scipyraises"):
            corr("raise", "%s %s, SciPy on the same data %s" % (site, "raised %s" % type(raised).__name__ if raised else "succeeded", "raises" if mop[0] == "scipyraises" else "does not"), i)
            return
        if raised is None:
            since = [] if op[0] == "rb" else since + [op]
            if overwrites(op):
                ow_seen = True
                for nm in at_bind:
                    at_bind[nm][1] = True
            if op[0] in ("add", "readd"):
                nm = mop[1]
                if nm not in [n for n, _ in algs]:
                    algs.append((nm, alg))
                at_bind[nm] = [list(since), False]
        prev = observe(i, site, prev)
        if prev is None:
            return


class MemEval:
    """The memory model's traces of mem_jobs = [(cfg, ops)], evaluated by Coq in a background thread (the subprocesses run
    while the main block drives the implementation; nothing else calls ctx.coq_eval meanwhile)."""

    def __init__(self, ctx, mem_jobs):
        import threading
        import time
        self.ctx, self.jobs, self.t0, self.err, self.res = ctx, mem_jobs, time.time(), None, None
        letters = Letters()
        groups = {}
        for j, (cfg, ops) in enumerate(mem_jobs):
            groups.setdefault(id(cfg), []).append(j)
        self.exprs, self.where = [], []
        for idxs in groups.values():
            cfg = mem_jobs[idxs[0]][0]
            fls = clist(["true" if np.dtype(sp[0]).char in "dfDF" else "false" for sp in cfg.dspec])
            parts, part, nst = [], [], 0       # at most ~16 printed states per expression (Coq's printer overflows on very long strings)
            for j in idxs:
                n = len(mem_jobs[j][1]) + 1
                if part and nst + n > 16:
                    parts.append(part)
                    part, nst = [], 0
                part.append(j)
                nst += n
            if part:
                parts.append(part)
            for part in parts:
                hs = clist([clist([letters.name(o) for o in model_ops(cfg, mem_jobs[j][1])]) for j in part])
                self.exprs.append("showMemTraces false false %s %s %s" % (cfg.coq_args(), fls, hs))   # ow = false: the present code
                self.where.append(part)
        self.header = letters.header().replace(HEADER0, HEADER_MEM, 1)
        self.thread = threading.Thread(target=self._run)
        self.thread.start()

    def _run(self):
        import time
        try:
            self.res = self.ctx.coq_eval(self.header, self.exprs, shard=max(8, (len(self.exprs) + 11) // 12))
        except BaseException as e:   # re-raised in the main thread
            self.err = e
        self.eval_s = round(time.time() - self.t0, 1)

    def traces(self):
        self.thread.join()
        if self.err is not None:
            raise self.err
        out = [None] * len(self.jobs)
        for part, s in zip(self.where, self.res):
            hs = s.split("#")
            if len(hs) != len(part):
                raise AssertionError("memory model printed %d histories for %d" % (len(hs), len(part)))
            for j, h in zip(part, hs):
                out[j] = h
        return out


def mem_block(ctx, rec, mem_jobs, ev):
    """mem_jobs: [(cfg, ops)]; ev: their MemEval."""
    if not mem_jobs:
        return
    import time
    traces = ev.traces()
    t0 = time.time()
    ctx.extra["mem_model_eval_s"] = ev.eval_s
    for (cfg, ops), h in zip(mem_jobs, traces):
        case = dict(cfg.desc(), ops=[list(o) for o in ops], mem=True)
        if h.startswith("E:"):
            rec.fail("correspondence", "memory model rejects the layout (%s)" % h, case, "C14:%s:mem-init" % cfg.cls)
        else:
            SINGLE_PRECISION_LINEAGE[0] = any(sp[0] == "float32" for sp in cfg.dspec)
            try:
                run_mem_history(ctx, rec, cfg, ops, [parse_mem_state(x) for x in h.split("~")])
            finally:
                SINGLE_PRECISION_LINEAGE[0] = False
        ctx.count(case, nontrivial=any(o[0] in ("dec", "det", "filt") for o in ops))
        ctx.hist("source", "memory layer")
        ctx.hist("memory layer: class/dtypes", "%s/%s" % (cfg.cls, ",".join(sp[0] + sp[1] for sp in cfg.dspec)))
        ctx.hist("memory layer: in-place calls in history", sum(1 for o in ops if overwrites(o)))
        ctx.hist("memory layer: length", len(ops))
    ctx.extra["mem_histories"] = len(mem_jobs)
    ctx.extra["mem_impl_s"] = round(time.time() - t0, 1)


def mem_jobs_generated(ctx):
    rng = ctx.rng
    cfgs = [
        (Cfg(True, 100.0, [(400, 3)], [], 201, None, "float"), ctx.n(3, 4)),
        (Cfg(False, 100.0, [(400, 3), (420, 2)], [[0, 1], [1]], 202, None, "float", [["float64", "C", False], ["int16", "C", False]]), ctx.n(3, 4)),
        (Cfg(True, 100, [(400, 3)], [], 203, None, "int", [["int16", "C", False]]), ctx.n(2, 3)),
        (Cfg(False, 120, [(400, 2), (400, 3)], [[1], [2, 0]], 204, None, "int64", [["float32", "F", False], ["float64", "F", False]]), ctx.n(2, 3)),
        (Cfg(True, 100.0, [(400, 2)], [], 205, None, "float", [["float32", "F", False]]), ctx.n(2, 2)),
    ]
    jobs = []
    for cfg, L in cfgs:
        for n in range(0, L + 1):
            # the longest words over six letters (detrend(type="constant", overwrite_data=True) only in the shorter ones)
            for w in itertools.product(M_ALPHA if (n < 3 or not ctx.quick()) else [o for o in M_ALPHA if o != M_ALPHA[3]], repeat=n):
                jobs.append((cfg, list(w)))
    allm = M_ALPHA + M_EXTRA
    for k in range(ctx.n(40, 600)):
        cfg = cfgs[k % len(cfgs)][0]
        jobs.append((cfg, [rng.choice(allm) for _ in range(5)]))
    return jobs


# ------------------------------------------------------------------------------------------------ call forms
def call_form_block(ctx, rec):
    """Every public preprocessing entry point called fully POSITIONALLY (pristine parameter order, POSITIONAL_ORDER) and with
    keywords, non-default values for every parameter: the two calls must give the same object state, and it must be the
    property's (the same SciPy calls on the initial data)."""
    from pyoma2.functions import gen
    from pyoma2.setup.base import BaseSetup
    cfgs = [Cfg(True, 100.0, [(400, 3)], [], 401, None, "float"),
            Cfg(False, 120, [(400, 3), (420, 2)], [[2, 0], [1]], 402, None, "int64")]
    calls = [("filt", 2.0, 3, "highpass"), ("filt", [1.0, 4.0], 2, "bandstop"), ("filt", 3.0, 5, "lowpass"), ("dec", 3, {}), ("dec", 2, {"ftype": "fir", "n": 12})]

    def state(im):
        o = im.obj
        return ([np.array(a) for a in im.datasets()], float(o.fs), float(o.dt), [int(n) for n in im.counts()])

    for cfg in cfgs:
        for op in calls:
            case = dict(cfg.desc(), ops=[list(op)], call_forms=["positional", "keyword"])
            site = "%s.%s" % (cfg.cls, METHOD[op[0]])
            got = {}
            for form in ("positional", "keyword"):
                im = Impl(cfg)
                try:
                    if op[0] == "filt":
                        if form == "positional":
                            im.obj.filter_data(op[1], op[2], op[3])
                        else:
                            im.obj.filter_data(btype=op[3], order=op[2], Wn=op[1])
                    else:
                        if form == "positional":
                            im.obj.decimate_data(op[1], **op[2])
                        else:
                            im.obj.decimate_data(**dict(op[2], q=op[1]))
                    got[form] = state(im)
                except Exception as e:
                    rec.fail("oracle", "%s called %sly raised %s: %s" % (site, form, type(e).__name__, str(e)[:200]), case, "C14:%s:call-form-raises" % site)
            ctx.count(case, nontrivial=True)
            ctx.hist("call form block", site)
            if len(got) < 2:
                continue
            want, fsx = reference(cfg, [op])
            for form, (arrs, fs_, dt_, nd) in got.items():
                if len(arrs) != len(want) or not all(close(a, w) for a, w in zip(arrs, want)) or not relclose(fs_, fsx) or not relclose(dt_, 1 / fsx) \
                        or nd != [w.shape[0] for w in want]:
                    rec.fail("oracle", "%s%s called %sly does not give the same SciPy call on the initial data (data / fs / dt / sample counts)" % (site, json.dumps(op[1:]), form),
                             dict(case, failing_form=form), "C14:%s:call-form-%s" % (site, form))
            a, b = got["positional"], got["keyword"]
            if not (all(np.array_equal(x, y) for x, y in zip(a[0], b[0])) and a[1:] == b[1:]):
                rec.fail("oracle", "%s%s: the positional and the keyword call give different results" % (site, json.dumps(op[1:])), case, "C14:%s:call-form-differs" % site)
    # the static helpers and functions.gen.filter_data
    cfg = cfgs[0]
    x = cfg.pristine[0]
    case = dict(cfg.desc(), ops=[], call_forms=["positional", "keyword"], helpers=True)
    try:
        sos = signal.butter(3, 2.0, btype="highpass", output="sos", fs=100.0)
        wantf = signal.sosfiltfilt(sos, x, axis=0)
        for name, pos, kwd in (("BaseSetup._filter_data", lambda: BaseSetup._filter_data(x, 100.0, 2.0, 3, "highpass"),
                                lambda: BaseSetup._filter_data(btype="highpass", order=3, Wn=2.0, fs=100.0, data=x)),
                               ("gen.filter_data", lambda: gen.filter_data(x, 100.0, 2.0, 3, "highpass"),
                                lambda: gen.filter_data(btype="highpass", order=3, Wn=2.0, fs=100.0, data=x))):
            for form, f in (("positional", pos), ("keyword", kwd)):
                if not close(f(), wantf):
                    rec.fail("oracle", "%s called %sly is not sosfiltfilt(butter(order, Wn, btype, fs), data)" % (name, form), dict(case, helper=name), "C14:%s:call-form-%s" % (name, form))
        wantd = signal.decimate(x, 3, axis=0)
        for form, f in (("positional", lambda: BaseSetup._decimate_data(x, 100.0, 3, axis=0)), ("keyword", lambda: BaseSetup._decimate_data(q=3, fs=100.0, data=x, axis=0))):
            r = f()
            if not (len(r) == 5 and close(r[0], wantd) and relclose(r[1], Fraction(100, 3)) and relclose(r[2], Fraction(3, 100)) and int(r[3]) == wantd.shape[0]):
                rec.fail("oracle", "BaseSetup._decimate_data called %sly does not return (decimated data, fs/q, q/fs, rows, ...)" % form, dict(case, helper="_decimate_data"),
                         "C14:BaseSetup._decimate_data:call-form-%s" % form)
        wantt = signal.detrend(x, axis=0, type="constant")
        for form, f in (("positional", lambda: BaseSetup._detrend_data(x, type="constant")), ("keyword", lambda: BaseSetup._detrend_data(type="constant", data=x))):
            if not close(f(), wantt):
                rec.fail("oracle", "BaseSetup._detrend_data called %sly is not scipy.signal.detrend(data, axis=0, type=...)" % form, dict(case, helper="_detrend_data"),
                         "C14:BaseSetup._detrend_data:call-form-%s" % form)
    except Exception as e:
        rec.fail("oracle", "a static preprocessing helper raised on a documented call form (%s: %s)" % (type(e).__name__, str(e)[:200]), case, "C14:helpers:call-form-raises")
    ctx.count(case, nontrivial=True)
    ctx.hist("call form block", "static helpers")


# ------------------------------------------------------------------------------------------------ driver
def model_eval(ctx, letters, jobs, chunk):
    """jobs: list of (cfg, ops, all_steps).  Returns for each job the list over model variants of parsed state lists."""
    groups = {}
    for j, job in enumerate(jobs):
        groups.setdefault((id(job[0]), job[2]), []).append(j)
    exprs, where = [], []
    for (_, all_steps), idxs in groups.items():
        cfg = jobs[idxs[0]][0]
        variants = ["true", "false"] if cfg.single else ["false"]   # present-code duration formula first for SingleSetup
        for k in range(0, len(idxs), chunk):
            part = idxs[k:k + chunk]
            hs = clist([clist([letters.name(o) for o in model_ops(cfg, jobs[j][1])]) for j in part])
            for v, pc in enumerate(variants):   # the second variant differs in the durations only (C14_present_same_but_T): print those
                fn = ("showTraces" if all_steps else "showFinals") if v == 0 else ("showTsTraces" if all_steps else "showTsFinals")
                exprs.append("%s %s %s %s" % (fn, pc, cfg.coq_args(), hs))
                where.append((part, v))
    try:
        res = ctx.coq_eval(letters.header(), exprs, shard=4)
    except CoqError as e:   # a coqc killed by the machine (out of memory under contention): evaluate once more, then give up
        ctx.note("model evaluation repeated once after: %s" % str(e)[:160])
        res = ctx.coq_eval(letters.header(), exprs, shard=4)
    out = [[] for _ in jobs]
    for (part, pc), s in zip(where, res):
        hs = s.split("#")
        if len(hs) != len(part):
            raise AssertionError("model printed %d histories for %d" % (len(hs), len(part)))
        for j, h in zip(part, hs):
            if pc == 0:
                out[j].append([parse_state(x) for x in h.split("~")])
            else:
                out[j].append([{"err": x[2:]} if x.startswith("E:") else {"Ts": [parse_q(t) for t in x.split()]} for x in h.split("~")])
    return out


def random_cfg(rng, seed, alpha):
    single = rng.random() < 0.35
    nset = 1 if single else rng.randint(1, 3)
    shapes, refs = [], []
    for _ in range(nset):
        c = rng.randint(2, 5)
        shapes.append((rng.choice([760, 777, 800, 810, 840, 864, 900]), c))
        r = rng.sample(range(c), rng.randint(1, c - 1))   # any subset, any order, at least one roving channel
        refs.append(r)
    fs0, kind = rng.choice([(1024.0, "float"), (1000.0, "float"), (1250.0, "float"), (2048.0, "float"), (800.5, "float"), (100.0, "float"),
                            (100, "int"), (128, "int"), (120, "int64"), (100, "int64")])
    dspec = [list(DEFAULT_SPEC) if rng.random() < 0.5 else [rng.choice(DTYPES), rng.choice("CF"), rng.random() < 0.5] for _ in shapes]
    return Cfg(single, fs0, shapes, [] if single else refs, seed, alpha, kind, dspec)


def run(ctx):
    rec = Recorder(ctx)
    letters = Letters()
    ctx.extra["rule"] = ("histories = every word of length 1..L (L=3 quick, 4 thorough) over 10-letter alphabets of calls (add_algorithms both with a fresh instance and with the instance added last), on fixed and random "
                         "SingleSetup / MultiSetup_PreGER configurations (1-3 datasets, 2-5 channels, any reference layout), plus sampled words of "
                         "length 5 checked after every call, plus a malformed stream (undocumented keywords, invalid reference layouts) and calls SciPy refuses (short records, unknown ftype/type/btype, Wn above Nyquist: the call must change nothing and the history continues); fs is handed over as float, Python int or numpy int64; a history is "
                         "non-trivial when it contains at least one data-changing call; distinct by hash of (configuration, history, argument forms); "
                         "every call's variable argument (Wn, q, bp) is handed over in a form drawn per call (float/int/numpy scalar/0-d array/tuple/list/int ndarray/float64 ndarray), "
                         "the same object re-used when the call recurs, plus a block of every filter call x every form x {single call, repeated call, after decimation, across rollback} "
                         "on SingleSetup and PreGER with 2 and 3 datasets, also on two successive setups sharing the argument objects; no argument object may be modified; "
                         "every documented keyword VALUE (detrend type linear/l/constant/c, bp int/list/array, overwrite_data=False; decimate ftype iir/fir/IIR dlti/FIR dlti, n, zero_phase; every btype spelling of the installed butter, orders 1-8) "
                         "alone and after a decimation on the same three layouts; records held as float64/float32/int16/int32/int64/uint16, C or Fortran order, writable or read-only (per dataset); "
                         "MEMORY LAYER: every word of length <= 3 (thorough 4) over {decimate, detrend, detrend(overwrite_data=True), detrend(type=constant, overwrite_data=True), filter, rollback, add_algorithms} on SingleSetup float64 and PreGER float64+int16, "
                         "length <= 2 (3) on SingleSetup int16, SingleSetup float32 Fortran, PreGER float32+float64 Fortran, plus sampled words of length 5 with bp / type / truthy-int variants: after construction and after EVERY call the alias pattern "
                         "(np.shares_memory among user arrays, stored copy, current data, handed-over data, every algorithm's data), the content of every such array (SciPy evaluation of the model buffer's term), the floating flag and the set of arrays whose bytes changed are compared with M_prep_mem.v; "
                         "CALL FORMS: decimate_data / filter_data are called positionally (pristine parameter order, hard-coded) or by keyword alternately in every history, plus a block calling each of them and the static helpers in both forms with non-default values")
    ctx.assumptions += [
        "SciPy is not modelled: data are symbolic terms; assumed shape contract rows(decimate(x,q)) = ceil(rows(x)/q), detrend/sosfiltfilt keep the shape (checked on every evaluated term)",
        "the harness evaluates model terms and the oracle's reference with scipy.signal.decimate/detrend/butter/sosfiltfilt of the installed SciPy (axis=0), arrays compared at 1e-9*scale, attributes at 1e-12",
        "which documented calls SciPy refuses (ScipyRaises in the model) is decided by the harness's own SciPy evaluation of the same call on the same data",
        "keyword axis is not exercised; detrend_data(overwrite_data=True) is exercised by the memory-layer block (writable records): the model (M_prep_mem.v, ow = false = the code since repo commit f6a83e1) "
        "says no call writes any existing buffer; a modification of the user's array / of the data an algorithm holds after such a call is an oracle failure under the key %s" % OW_KEY,
        "memory layer: buffers = allocations (np.shares_memory between the user's arrays, _initial_data(sets), data / datasets, the handed-over data and every algorithm's data); a PreGER {ref, mov} pair is one allocation unit of the model; "
        "the user's arrays are distinct, non-overlapping, writable; a call that raises is assumed to have no memory effect (a PreGER in-place detrend that raises on a later dataset after overwriting an earlier one is not modelled)",
        "float64 results computed from a float32 record are compared at 1e-4*scale in the memory-layer block (in-place vs copied single-precision detrending differ in rounding)",
        "a dlti instance given as ftype is named by a string in the nominal call / model term and built (IIR: cheby1(4, 0.05, 0.8/q); FIR: firwin(21, 1/q)) for each SciPy or implementation call",
    ]
    # ---- corpus (failing histories of the repaired PreGER defects) and replay
    jobs = []
    mem_jobs = []  # histories of the memory layer: (cfg, ops)
    given = {}    # job index -> (argument forms, number of successive setups sharing the argument objects), when prescribed
    files = [ctx.replay] if ctx.replay else sorted(glob.glob(os.path.join(VERIF, "corpus", "C14", "*.json")))
    for fn in files:
        c = json.load(open(fn))
        c = c.get("case", c)
        cfg = Cfg(c["cls"] == "SingleSetup", c["fs0"], c["shapes"], c["refs"], c["data_seed"], None, c.get("fs_kind", "float"), c.get("dspec"))
        ops = [tuple(o) for o in c["ops"]]
        if c.get("mem"):
            mem_jobs.append((cfg, ops))
            ctx.hist("source", "corpus")
            continue
        given[len(jobs)] = (c.get("forms"), int(c.get("repeat_setups", 1)))
        jobs.append((cfg, ops, True))
        ctx.hist("source", "corpus")
    ncorpus = len(jobs)
    if mem_jobs:      # the regression inputs of the repaired overwrite_data defect (f6a83e1) run before everything else
        mem_block(ctx, rec, mem_jobs, MemEval(ctx, mem_jobs))
        mem_jobs = []
    if not ctx.replay:
        rng = ctx.rng
        L = ctx.n(3, 4)
        # (configuration, exhaustive word length): L on three configurations, L-1 on two more; fs handed over as Python int,
        # numpy int64 or float; PreGER layouts with unequal dataset lengths and unsorted reference indices; two configurations
        # with SHORT records and the alphabet of refused calls (every word of length <= 3)
        fixed = [
            (Cfg(True, 100, [(800, 3)], [], 101, "A", "int"), L),
            (Cfg(True, 120, [(864, 5)], [], 102, "B", "int64"), L - 1),
            (Cfg(False, 128, [(810, 2)], [[1]], 103, "A", "int64"), L - 1),
            (Cfg(False, 1000.0, [(800, 3), (840, 4)], [[2, 0], [1, 3]], 104, "B", "float"), L),
            (Cfg(False, 1250, [(810, 5), (768, 2), (900, 4)], [[4, 1, 2], [0], [3]], 105, "C", "int"), L),
            (Cfg(True, 100, [(70, 3)], [], 106, "R", "int"), 3),
            (Cfg(False, 120, [(200, 3), (64, 2)], [[2, 0], [1]], 107, "R", "int64"), 3),
        ]
        for cfg, Lc in fixed:
            for n in range(1, Lc + 1):
                for w in itertools.product(ALPHA[cfg.alpha], repeat=n):
                    jobs.append((cfg, list(w), False))
        # random layouts: the freshly constructed object and every word of length <= 2
        for k in range(ctx.n(6, 40)):
            cfg = random_cfg(rng, 1000 + k, rng.choice("ABC"))
            for n in (0, 1, 2):
                for w in itertools.product(ALPHA[cfg.alpha], repeat=n):
                    jobs.append((cfg, list(w), False))
        # sampled words of length 5 over all letters, random layouts, every call checked
        values = value_space()
        allops = [o for a in "ABC" for o in ALPHA[a]] + REFUSED + values
        for k in range(ctx.n(150, 1500)):
            if k % 10 == 0:
                cfg = random_cfg(rng, 5000 + k, None)
            jobs.append((cfg, [rng.choice(allops) for _ in range(5)], True))
        # malformed stream: undocumented keyword somewhere in the history; invalid reference layouts
        nbad = ctx.n(150, 1500)
        for k in range(nbad):
            if k % 6 == 0:
                cfg = random_cfg(rng, 9000 + k, None)
            w = [rng.choice(allops) for _ in range(rng.randint(0, 2))] + [rng.choice(BAD_OPS)] + [rng.choice(allops) for _ in range(rng.randint(0, 1))]
            jobs.append((cfg, w, True))
        for k, (shapes, refs) in enumerate([([(800, 3)], [[1, 1]]), ([(800, 3), (810, 2)], [[0], [2]]), ([(800, 4)], [[0, 4]])]):
            jobs.append((Cfg(False, 1000.0, shapes, refs, 9500 + k, None), [("add",)], True))
        # argument forms: every filter call x every form of Wn (float / int / numpy scalar / 0-d array / tuple / list / int
        # ndarray / float64 ndarray), q as int and numpy ints, bp as list / tuple / ndarray; the SAME argument object used for
        # all datasets of a PreGER object, for a repeated call, and for two successive setups
        fcfgs = [Cfg(True, 100, [(800, 3)], [], 111, None, "int"),
                 Cfg(False, 100.0, [(800, 3), (840, 4)], [[2, 0], [1, 3]], 112, None, "float"),
                 Cfg(False, 120, [(810, 5), (768, 2), (900, 4)], [[4, 1, 2], [0], [3]], 113, None, "int64")]
        dec2, dec3, detbp = ("dec", 2, {}), ("dec", 3, {"ftype": "fir"}), ("det", {"type": "linear", "bp": [100, 300]})
        for cfg in fcfgs:
            for f in F_ALPHA:
                for fm in forms_of(f):
                    for w, fms, rpt in (([f], [fm], 2), ([f, f], [fm, fm], 1), ([dec2, f, ("add",)], ["int64", fm, None], 1),
                                        ([f, ("rb",), f, ("readd",)], [fm, None, fm, None], 2)):
                        given[len(jobs)] = (fms, rpt)
                        jobs.append((cfg, w, True))
            for op in (dec2, dec3, detbp):
                for fm in forms_of(op):
                    given[len(jobs)] = ([fm, fm, None], 2)
                    jobs.append((cfg, [op, op, ("add",)], True))
        # keyword VALUE space: every documented value (aliases included) of every keyword, alone and after a decimation, on
        # SingleSetup and PreGER with 2 and 3 datasets
        for cfg in fcfgs:
            for op in values:
                jobs.append((cfg, [op], True))
                jobs.append((cfg, [("dec", 2, {"ftype": "fir"}), op, ("add",)], True))
        # record dtype / memory order / read-only: every word of length <= 2 over six calls, integer-valued A/D counts
        d_alpha = [("dec", 2, {}), ("det", {}), ("det", {"type": "c"}), ("filt", 2.0, 3, "lowpass"), ("rb",), ("add",)]
        dcfgs = [Cfg(True, 100, [(800, 3)], [], 120 + k, None, "int", [[dt_, "CF"[k % 2], bool(k % 2)]]) for k, dt_ in enumerate(DTYPES)]
        dcfgs += [Cfg(True, 100.0, [(800, 3)], [], 127, None, "float", [["int16", "C", True]]),
                  Cfg(False, 100, [(800, 3), (840, 4)], [[2, 0], [1, 3]], 128, None, "int", [["int16", "C", False], ["float32", "F", True]]),
                  Cfg(False, 120, [(810, 5), (768, 2), (900, 4)], [[4, 1, 2], [0], [3]], 129, None, "int64", [["uint16", "F", False], ["int64", "C", True], ["float64", "F", True]]),
                  Cfg(False, 100.0, [(800, 2), (800, 3)], [[1], [0, 2]], 130, None, "float", [["int32", "C", True], ["float32", "C", False]])]
        for cfg in dcfgs:
            for n in (0, 1, 2):
                for w in itertools.product(d_alpha, repeat=n):
                    jobs.append((cfg, list(w), False))
    # the form of every other call's argument is drawn at random; within a history the same call re-uses the same object
    jobs = [(cfg, ops, flag) + (given[j] if j in given and given[j][0] else ([pick_form(ctx.rng, o) for o in ops], given.get(j, (None, 1))[1]))
            for j, (cfg, ops, flag) in enumerate(jobs)]
    import time
    t0 = time.time()
    model = model_eval(ctx, letters, jobs, ctx.n(40, 60))
    ctx.extra["model_eval_s"] = round(time.time() - t0, 1)
    if not ctx.replay:
        mem_jobs += mem_jobs_generated(ctx)
    mem_ev = MemEval(ctx, mem_jobs) if mem_jobs else None    # evaluated by Coq while the implementation is driven below
    t1 = time.process_time()
    for j, ((cfg, ops, all_steps, forms, repeat), m) in enumerate(zip(jobs, model)):
        params = Params()
        for k in range(repeat):      # repeat > 1: successive fresh setups are driven with the SAME argument objects
            judged = run_history(ctx, rec, cfg, ops, m, all_steps, forms, params, k + 1, repeat)
        ctx.count(dict(cfg.desc(), ops=[list(o) for o in ops], forms=forms, repeat=repeat), nontrivial=any(o[0] in ("dec", "det", "filt") for o in ops))
        for o_, fm in zip(ops, forms):
            if fm is not None:
                ctx.hist("argument form", "%s:%s" % ({"filt": "Wn", "dec": "q", "det": "bp"}[o_[0]], fm))
        if repeat > 1:
            ctx.hist("source", "same argument objects on %d successive setups" % repeat)
        ctx.hist("class", cfg.cls)
        ctx.hist("length", len(ops))
        ctx.hist("datasets", len(cfg.shapes))
        ctx.hist("fs given as", cfg.fs_kind)
        for sp in cfg.dspec:
            ctx.hist("record dtype/order/read-only", "%s/%s/%s" % (sp[0], sp[1], "ro" if sp[2] else "rw"))
        for o_ in ops:
            if o_[0] == "filt":
                ctx.hist("btype", o_[3])
                ctx.hist("order", o_[2])
            elif o_[0] in ("dec", "det"):
                for k_, v_ in o_[-1].items():
                    if k_ != "bp":
                        ctx.hist("keyword value", "%s.%s=%r" % (METHOD[o_[0]], k_, v_))
        for o_ in ops:
            ctx.hist("call", METHOD[o_[0]] + ("(q=%d)" % o_[1] if o_[0] == "dec" else "(same instance)" if o_[0] == "readd" else ""))
        if j < ncorpus or (j % 997 == 0):
            ctx.sample(dict(cfg.desc(), ops=[list(o) for o in ops], judged_to_end=judged), limit=6)
    ctx.extra["impl_cpu_s"] = round(time.process_time() - t1, 1)
    if not ctx.replay:
        call_form_block(ctx, rec)
    mem_block(ctx, rec, mem_jobs, mem_ev)
    for (kind, key), n in sorted(rec.counts.items()):
        ctx.note("%s failure %s seen %d times" % (kind, key, n))
