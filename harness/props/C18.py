"""C18 - mode-shape indicators gen.MAC / MPC / MPD / MCF / MSF.
Model: coq/Model/M_indicators.v; theorems: coq/Properties/C18.v (proofs in coq/Proofs/P_indicators.v, P_indicators_R.v).

Correspondence: every implementation value is compared with the model evaluated in Coq on the exact rational image of
the float arrays handed to the implementation (None <-> not finite, ShapeErr <-> Exception).  MPD is split at
sqrt/arccos: the model returns the exact (weight^2, clipped cosine^2) terms for the right-singular vector this harness
obtains from its own numpy.linalg.svd; sqrt, arccos and the weighted mean are applied here.
Oracle: the property text evaluated with NumPy only (bounds, shape/transposition, invariance, collinear values,
finiteness, MSF(v, c v) = c)."""
import glob
import json
import math
import os
from fractions import Fraction

import numpy as np

from common import VERIF, clist, parse_q, qc, qc_c
from pyoma2.functions import gen

HEADER = "From PyOMA.Model Require Import M_indicators."
TOL = 1e-9
ACOS_DELTA = 1e-14  # absolute rounding allowance on an arccos argument (conditioning-aware MPD tolerance)


# ---------------------------------------------------------------- helpers
def cv(z):
    return [[float(x.real), float(x.imag)] for x in np.asarray(z, dtype=complex).ravel()]


def uncv(l):
    return np.array([complex(a, b) for a, b in l], dtype=complex)


def cmat(M):
    M = np.asarray(M, dtype=complex)
    return [cv(r) for r in M]


def uncmat(l):
    return np.array([[complex(a, b) for a, b in r] for r in l], dtype=complex)


def coq_vec(z):
    return clist([qc_c(x) for x in np.asarray(z, dtype=complex).ravel()])


def coq_mat(M):
    M = np.asarray(M, dtype=complex)
    if M.shape[0] == 0:
        return "[]"
    return clist([clist([qc_c(x) for x in r]) for r in M])


def finite(x):
    z = np.asarray(x, dtype=complex)
    return bool(np.all(np.isfinite(z.real)) and np.all(np.isfinite(z.imag)))


def fr(x):
    return Fraction(float(x))


def exact_collinear(phi):
    """phi is a complex multiple of a real vector  <=>  Re and Im are linearly dependent (exact rational test)."""
    nz = [k for k, z in enumerate(phi) if z != 0]
    if not nz:
        return False
    p = nz[0]
    rp, ip = fr(phi[p].real), fr(phi[p].imag)
    return all(fr(z.real) * ip - fr(z.imag) * rp == 0 for z in phi)


def exact_tdot_zero(v):
    sr = sum(fr(z.real) * fr(z.real) - fr(z.imag) * fr(z.imag) for z in v)
    si = sum(2 * fr(z.real) * fr(z.imag) for z in v)
    return sr == 0 and si == 0


def close(a, b, tol=TOL):
    return abs(a - b) <= tol * max(1.0, abs(b))


LOW = ("float32", "complex64")
REAL_DT = ("int32", "int64", "float32", "float64")


def cast(arr, dt="complex128", nd=1):
    """the same vector / set in another storage form (integer or single-precision dtype, (n,1) instead of (n,))."""
    a = np.asarray(arr, dtype=complex)
    a = a.real.astype(dt) if dt in REAL_DT else a.astype(dt)
    if nd == 2 and a.ndim == 1:
        a = a[:, None]
    return a


def fit(arr, dt):
    """dt if every value is exactly representable in it, otherwise complex128 (so the model always sees the same numbers)."""
    a = np.asarray(arr, dtype=complex)
    if dt in REAL_DT and np.any(a.imag != 0):
        return "complex128"
    if dt in LOW:  # single precision: keep fourth powers of the entries away from float32 under/overflow
        m = np.abs(a[a != 0])
        if m.size and (m.min() < 1e-4 or m.max() > 1e4):
            return "complex128"
    with np.errstate(all="ignore"):
        ok = np.array_equal(cast(a, dt).astype(complex), a)
    return dt if ok else "complex128"


def form_of(case):
    f = case.get("form") or {}
    dt, dt2 = f.get("dt", "complex128"), f.get("dt2", f.get("dt", "complex128"))
    low = dt in LOW or dt2 in LOW
    return dt, dt2, int(f.get("nd", 1)), int(f.get("nd2", 1)), (3e-5 if low else TOL), (2e-6 if low else ACOS_DELTA), low


def pick_form(rng, real, p=1.0):
    """random storage form; real=True: the data are real (integer-valued where an int dtype is drawn)."""
    if rng.random() >= p:
        return {}
    dts = ["int32", "int64", "int64", "float32", "float64", "complex64", "complex128"] if real else ["complex64", "complex64", "complex128"]
    return dict(dt=dts[int(rng.integers(0, len(dts)))], dt2=dts[int(rng.integers(0, len(dts)))],
                nd=int(rng.integers(1, 3)), nd2=int(rng.integers(1, 3)))


def opt_float(s):
    q = parse_q(s)
    return None if q is None else float(q)


class Ambient:
    """ambient numeric state stream: every implementation call that returns a finite value in the default state (i.e. an
    input on which the model defines a value) is repeated under numpy's strict error state and with warnings as errors."""
    ctx = None
    case = None
    judged = {}
    not_judged = {}
    MODES = ("errstate-all-raise", "warnings-as-errors")

    @classmethod
    def reset(cls, ctx):
        cls.ctx, cls.case, cls.judged, cls.not_judged = ctx, None, {}, {}

    @classmethod
    def run_mode(cls, mode, fn, args):
        import warnings

        if mode == "errstate-all-raise":
            with np.errstate(all="raise"):
                return fn(*args)
        with warnings.catch_warnings():
            warnings.simplefilter("error")
            with np.errstate(divide="warn", over="warn", invalid="warn", under="ignore"):  # numpy's default state
                return fn(*args)

    @classmethod
    def check(cls, fn, args, base):
        name = fn.__name__
        if not finite(base):
            # the unchanged code itself trips here (FloatingPointError / RuntimeWarning on 0/0): these are exactly the inputs
            # on which the model returns None - zero vectors / zero columns and the two KNOWN findings - so nothing is expected
            k = "%s: default-state result not finite (model: nan; zero vector / zero column / known finding)" % name
            cls.not_judged[k] = cls.not_judged.get(k, 0) + 1
            return
        for mode in cls.MODES:
            k = "%s|%s" % (name, mode)
            cls.judged[k] = cls.judged.get(k, 0) + 1
            try:
                r = cls.run_mode(mode, fn, args)
            except Exception as e:  # noqa: BLE001
                cls.ctx.fail("oracle", "gen.%s raises %s (%s) under %s on an input for which it returns the finite value %r in numpy's default state"
                             % (name, type(e).__name__, str(e)[:80], mode, base), cls.case, key="C18:%s:ambient-%s" % (name, mode))
                continue
            a, b = np.asarray(r, dtype=complex), np.asarray(base, dtype=complex)
            if a.shape != b.shape or not np.allclose(a, b, rtol=0, atol=1e-12):
                cls.ctx.fail("oracle", "gen.%s returns %r under %s but %r in the default state" % (name, r, mode, base), cls.case,
                             key="C18:%s:ambient-%s-value" % (name, mode))


def call_plain(fn, *args):
    """(value, None) or (None, exception), default numeric state only."""
    try:
        with np.errstate(all="ignore"):
            return fn(*args), None
    except Exception as e:  # noqa: BLE001
        return None, e


def call(fn, *args):
    """(value, None) or (None, exception); finite results are re-run under the ambient numeric states (class Ambient)."""
    try:
        with np.errstate(all="ignore"):
            val = fn(*args)
    except Exception as e:  # noqa: BLE001 - the model says which inputs raise
        return None, e
    if Ambient.ctx is not None:
        Ambient.check(fn, args, val)
    return val, None


# parameter names of the five indicators in the order of the PRISTINE signatures (gen.py, read once and hard-coded: a changed
# tree must not redefine the expected order).  None of them has a parameter with a default value.
PRISTINE_ORDER = {"MAC": ("phi_X", "phi_A"), "MSF": ("phi_1", "phi_2"), "MPC": ("phi",), "MPD": ("phi",), "MCF": ("phi",)}


def call_kw(fn, **kw):
    """(value, None) or (None, exception) of a call by keyword, default numeric state only."""
    try:
        with np.errstate(all="ignore"):
            return fn(**kw), None
    except Exception as e:  # noqa: BLE001
        return None, e


def witness(phi):
    """second right-singular vector of [Re, Im] (own SVD call, not pyoma2's) and the relative singular-value gap."""
    D = np.c_[phi.real, phi.imag]
    with np.errstate(all="ignore"):
        _, s, VT = np.linalg.svd(D)
    V = VT.T
    gap = (s[0] - s[1]) / s[0] if s[0] > 0 else 0.0
    return float(V[0, 1]), float(V[1, 1]), float(gap)


def contract_residual(phi, v0, v1):
    """svd_min_contract of Proofs/P_indicators_R.v checked numerically on the witness: unit vector, eigenvector of
    G = [Re,Im]^T[Re,Im] for its smaller eigenvalue (relative residual)."""
    re, im = phi.real, phi.imag
    sxx, sxy, syy = float(re @ re), float(re @ im), float(im @ im)
    tr = sxx + syy
    if tr == 0:
        return 0.0
    lmin = tr / 2 - math.hypot((sxx - syy) / 2, sxy)
    r0, r1 = sxx * v0 + sxy * v1 - lmin * v0, sxy * v0 + syy * v1 - lmin * v1
    return max(abs(r0), abs(r1)) / tr + abs(v0 * v0 + v1 * v1 - 1)


def mpd_from_terms(s, delta=ACOS_DELTA):
    """model side of the split: terms 'w2,c2 w2,c2 ...' -> (value or None, conditioning tolerance)."""
    s = s.strip()
    if not s:
        return None, 0.0
    ws, cs = [], []
    for t in s.split(" "):
        a, b = t.split(",")
        ws.append(math.sqrt(float(parse_q(a))))
        cs.append(math.sqrt(float(parse_q(b))))
    ws, cs = np.array(ws), np.array(cs)
    tot = ws.sum()
    val = float((ws * np.arccos(np.clip(cs, 0, 1))).sum() / tot)
    slack = float((ws * (np.arccos(np.clip(cs - delta, 0, 1)) - np.arccos(np.clip(cs + delta, 0, 1)))).sum() / tot)
    return val, slack


def mpd_slack(phi, delta=ACOS_DELTA):
    """conditioning-aware tolerance for oracle comparisons of MPD values (NumPy only)."""
    v0, v1, _ = witness(phi)
    w = np.abs(phi)
    nz = w > 0
    if not nz.any():
        return 0.0
    r = np.clip(np.abs((phi.real * v1 - phi.imag * v0)[nz] / (math.hypot(v0, v1) * w[nz])), 0, 1)
    return float((w[nz] * (np.arccos(np.clip(r - delta, 0, 1)) - np.arccos(np.clip(r + delta, 0, 1)))).sum() / w[nz].sum())


# ---------------------------------------------------------------- generators (short dyadic Gaussian rationals)
def gauss(rng, n, bits=6, den=16.0):
    return (rng.integers(-(2**bits), 2**bits + 1, size=n) + 1j * rng.integers(-(2**bits), 2**bits + 1, size=n)) / den


def real_vec(rng, n, bits=6, den=16.0):
    while True:
        v = rng.integers(-(2**bits), 2**bits + 1, size=n) / den
        if v.any():
            return v


def scale_factor(rng):
    """2^k (k in [-20,20]) times a Gaussian rational, modulus in [1e-6, 1e6]."""
    while True:
        g = complex(rng.integers(-64, 65), rng.integers(-64, 65)) / 16.0
        if rng.random() < 0.2:
            g = complex(g.real, 0.0) if rng.random() < 0.5 else complex(0.0, g.imag)
        c = g * 2.0 ** int(rng.integers(-20, 21))
        if 1e-6 <= abs(c) <= 1e6:
            return c


def scale_factor_any(rng):
    """as scale_factor, or (half of the time) an arbitrary double: c*phi is then rounded, as it is for real mode shapes."""
    if rng.random() < 0.5:
        return scale_factor(rng)
    while True:
        c = complex(rng.normal(), rng.normal()) * 10.0 ** rng.uniform(-6, 6)
        if 1e-6 <= abs(c) <= 1e6:
            return c


COMPLEX_TAGS = ("circular", "circular-exact", "expi-theta", "const-modulus", "one-nonzero", "two-nonzero")


def gen_shape(rng, n, tag):
    """-> (phi, extra dict)"""
    if tag == "random":
        return gauss(rng, n), {}
    if tag == "collinear":
        v = real_vec(rng, n)
        if rng.random() < 0.12:
            v = np.full(n, float(rng.integers(1, 9)) / 4.0)  # zero variance: the KNOWN MPC finding lives here
        if rng.random() < 0.3:
            v[rng.integers(0, n)] = 0.0
            if not v.any():
                v[0] = 1.0
        c0 = scale_factor(rng) if rng.random() < 0.5 else complex(rng.integers(-8, 9), rng.integers(-8, 9)) / 4.0
        if c0 == 0:
            c0 = 1 + 2j
        return c0 * v, dict(v=v.tolist(), c0=[c0.real, c0.imag])
    if tag == "zeros":
        phi = gauss(rng, n)
        k = int(rng.integers(1, n))
        phi[rng.choice(n, size=k, replace=False)] = 0
        if not phi.any():
            phi[0] = 1 + 1j
        return phi, {}
    if tag == "unit":
        if rng.random() < 0.5:  # one component exactly 1, the others of modulus <= 1 (dyadic)
            phi = gauss(rng, n, bits=5, den=64.0)
            phi[rng.integers(0, n)] = 1.0
            return phi, {}
        phi = gauss(rng, n)  # normalised by true float division (witness floats)
        k = int(np.argmax(np.abs(phi)))
        if phi[k] == 0:
            phi[k] = 1.0
        return phi / phi[k], {}
    if tag == "near":
        v = real_vec(rng, n)
        c0 = complex(rng.integers(-8, 9), rng.integers(-8, 9)) / 4.0
        if c0 == 0:
            c0 = 2 - 1j
        eps = 2.0 ** -int(rng.integers(8, 31))
        return c0 * v + eps * gauss(rng, n, bits=3, den=4.0), dict(eps=eps)
    if tag == "tiny":  # arbitrary normalisation: the whole shape is small (an absolute threshold would show)
        phi = gauss(rng, n)
        if not phi.any():
            phi[0] = 1
        return phi * 2.0 ** -int(rng.integers(10, 41)), {}
    # ---- the opposite extreme to the collinear family: maximally complex shapes (degenerate covariance eigenvalues)
    if tag in ("circular", "circular-exact"):
        if (tag == "circular-exact" or rng.random() < 0.4) and n >= 4:
            # exact over the Gaussian integers: blocks (a, b, -a, -b) + i (-b, a, b, -a); Im is Re turned by an orthogonal map:
            # equal variances, zero covariance, zero means  =>  MPC = 0 and MCF = 1 exactly; padded with zero components
            phi = np.zeros(n, dtype=complex)
            for m in range(n // 4):
                while True:
                    a, b = float(rng.integers(-8, 9)), float(rng.integers(-8, 9))
                    if a or b:
                        break
                phi[4 * m : 4 * m + 4] = np.array([a, b, -a, -b]) + 1j * np.array([-b, a, b, -a])
            if rng.random() < 0.5:
                phi = phi[rng.permutation(n)]
            return phi, dict(exact_circular=True)
        j = 1 if (n < 4 or rng.random() < 0.6) else int(rng.integers(1, n))
        return np.exp(2j * np.pi * j * np.arange(n) / n), {}  # travelling wave exp(2 pi i j k / n) (witness floats)
    if tag == "expi-theta":
        theta = float(rng.choice([0.1, 0.5, 0.7, 1.0, 2.0, 2.5, np.pi / 3, np.pi / 2, 2.399963229728653, 3.0]))
        return np.exp(1j * theta * np.arange(n)), dict(theta=theta)
    if tag == "const-modulus":
        if rng.random() < 0.5:  # exact: unit Gaussian integers times one dyadic modulus
            return rng.choice(np.array([1, 1j, -1, -1j]), size=n) * (float(rng.integers(1, 33)) / 8.0), {}
        return (float(rng.integers(1, 33)) / 8.0) * np.exp(2j * np.pi * rng.random(n)), {}
    if tag in ("one-nonzero", "two-nonzero"):
        phi = np.zeros(n, dtype=complex)
        for k in rng.choice(n, size=min(n, 1 if tag == "one-nonzero" else 2), replace=False):
            while phi[k] == 0:
                phi[k] = complex(rng.integers(-64, 65), rng.integers(-64, 65)) / 16.0
        return phi, {}
    if tag == "zero-vector":
        return np.zeros(n, dtype=complex), {}
    raise ValueError(tag)


# ---------------------------------------------------------------- the check
class Runner:
    def __init__(self, ctx):
        self.ctx = ctx
        self.jobs = []  # (coq expression, callback(result string))

    def job(self, expr, cb):
        self.jobs.append((expr, cb))

    def flush(self):
        """one wave of at most 14 coqc processes per chunk, shards of <= 60 expressions (~200 MB each); a chunk whose
        evaluation fails (e.g. a coqc process killed under memory pressure) is retried once in smaller shards."""
        from common import CoqError
        exprs = [e for e, _ in self.jobs]
        shard = min(60, max(20, -(-len(exprs) // 14)))
        res = []
        for k in range(0, len(exprs), 14 * shard):
            chunk = exprs[k : k + 14 * shard]
            try:
                res += self.ctx.coq_eval(HEADER, chunk, shard=shard)
            except CoqError:
                res += self.ctx.coq_eval(HEADER, chunk, shard=15)
        for (_, cb), s in zip(self.jobs, res):
            cb(s)
        self.jobs = []

    # ---- a single shape: MPC, MCF, MPD on phi and on c*phi, MAC(c phi, phi), MAC with the real vector
    def shape(self, case):
        ctx = self.ctx
        Ambient.case = case
        phi = uncv(case["phi"])
        c = complex(*case["c"])
        n = len(phi)
        dt, dt2, nd, nd2, T, AD, low = form_of(case)
        if case.get("form"):
            ctx.hist("form.shape", "%s nd=%d" % (dt, nd))
        zero = not phi.any()
        coll = exact_collinear(phi)
        zero_var = bool(np.ptp(phi.real) == 0 and np.ptp(phi.imag) == 0)
        ctx.count(case, nontrivial=not zero)
        ctx.hist("shape.tag", case.get("tag", "?"))
        ctx.hist("shape.n", n)
        ctx.sample(case)
        vals = {}
        for name, P in (("phi", phi), ("c*phi", c * phi)):
            Pc = cast(P, fit(P, dt))  # storage form handed to the implementation (same numbers)
            mpc, e1 = call(gen.MPC, Pc)
            mcf, e2 = call(gen.MCF, cast(P, fit(P, dt), nd))
            mpd, e3 = call(gen.MPD, Pc)
            for fnm, e in (("MPC", e1), ("MCF", e2), ("MPD", e3)):
                if e is not None:
                    ctx.fail("oracle", "gen.%s raised %s on a mode shape" % (fnm, type(e).__name__), case, key="C18:%s:raises" % fnm)
            if e1 or e2 or e3:
                return
            mcf = np.asarray(mcf)
            if mcf.shape != (1,):
                ctx.fail("oracle", "gen.MCF of a 1-D shape has shape %s, expected (1,)" % (mcf.shape,), case, key="C18:MCF:shape")
                return
            vals[name] = dict(MPC=complex(mpc), MCF=complex(mcf[0]), MPD=complex(mpd))
            # ---- correspondence with the model (the scaled copy on every second case; the oracle below sees all)
            if name == "c*phi" and not case.get("corpus") and self.ctx.rng.random() < 0.6:
                continue
            v0, v1, gap = witness(Pc)
            if contract_residual(P, v0, v1) > (1e-5 if low else 1e-9):
                ctx.fail("correspondence", "numpy.linalg.svd: the second right-singular vector violates the contract assumed by C18_mpd_collinear / C18_mpd_scale",
                         case, key="C18:svd:contract")
            expr = ('let x := %s in showOQ (mcf_l x) ++ "|" ++ showOQ (mpc_l x) ++ "|" ++ showTerms (mpd_terms_l x %s %s)'
                    % (coq_vec(P), qc(v0), qc(v1)))

            def cb(s, name=name, got=vals[name], gap=gap):
                a, b, t = s.split("|")
                want = dict(MCF=(opt_float(a), 0.0), MPC=(opt_float(b), 0.0), MPD=mpd_from_terms(t, AD))
                for fnm in ("MCF", "MPC", "MPD"):
                    w, slack = want[fnm]
                    g = got[fnm]
                    if fnm == "MPD" and gap <= 1e-6 and w is not None:
                        ctx.not_judged += 1  # (nearly) equal singular values: the singular vector is not determined
                        continue
                    if w is None:
                        ok = not finite(g)
                    else:
                        ok = finite(g) and abs(g.imag) <= T and abs(g.real - w) <= T * max(1.0, abs(w)) + slack
                    if not ok:
                        ctx.fail("correspondence", "gen.%s(%s) = %r, model says %s" % (fnm, name, g, "nan" if w is None else repr(w)),
                                 case, key="C18:%s:corr" % fnm)

            self.job(expr, cb)
        if zero:
            return  # the zero vector is not a mode shape: only the correspondence (model: nan) is checked
        # ---- oracle: the property text
        for name in ("phi", "c*phi"):
            g = vals[name]
            for fnm, hi in (("MPC", 1.0), ("MCF", 1.0), ("MPD", math.pi / 2)):
                z = g[fnm]
                if not finite(z):
                    if fnm == "MPC" and zero_var:
                        ctx.fail("oracle", "gen.MPC is NaN for a collinear shape with zero variance", case, key="C18:MPC:zero-variance-nan")
                    else:
                        ctx.fail("oracle", "gen.%s(%s) is not finite on a non-zero mode shape" % (fnm, name), case, key="C18:%s:not-finite" % fnm)
                elif abs(z.imag) > T or not (-T <= z.real <= hi + T):
                    ctx.fail("oracle", "gen.%s(%s) = %r outside [0, %.4g]" % (fnm, name, z, hi), case, key="C18:%s:bounds" % fnm)
        # the closed forms the property names: covariance (centred) eigenvalues for MPC, S_xx/S_yy/S_xy for MCF
        for name, P in (("phi", phi), ("c*phi", c * phi)):
            re, im = P.real, P.imag
            dr, di = re - re.mean(), im - im.mean()
            cxx, cyy, cxy = float(dr @ dr), float(di @ di), float(dr @ di)
            g = vals[name]["MPC"]
            if cxx + cyy > 0 and finite(g):
                want = ((cxx - cyy) ** 2 + 4 * cxy**2) / (cxx + cyy) ** 2
                if abs(g - want) > max(1e-8, T):
                    ctx.fail("oracle", "gen.MPC(%s) = %r is not (l0-l1)^2/(l0+l1)^2 of the covariance of (Re, Im) = %r" % (name, g, want), case,
                             key="C18:MPC:definition")
            sxx, syy, sxy = float(re @ re), float(im @ im), float(re @ im)
            g = vals[name]["MCF"]
            if finite(g):
                want = 1 - ((sxx - syy) ** 2 + 4 * sxy**2) / (sxx + syy) ** 2
                if abs(g - want) > max(1e-8, T):
                    ctx.fail("oracle", "gen.MCF(%s) = %r is not 1 - ((Sxx-Syy)^2 + 4 Sxy^2)/(Sxx+Syy)^2 = %r" % (name, g, want), case, key="C18:MCF:definition")
        slack = mpd_slack(phi, AD) + mpd_slack(c * phi, AD)
        _, _, gap = witness(phi)
        for fnm in ("MPC", "MCF", "MPD"):
            a, b = vals["phi"][fnm], vals["c*phi"][fnm]
            if not (finite(a) and finite(b)):
                continue
            if fnm == "MPD" and gap <= 1e-6:
                ctx.not_judged += 1
                continue
            tol = T * max(1.0, abs(a)) + (slack if fnm == "MPD" else 0.0)
            if abs(a - b) > tol:
                ctx.fail("oracle", "gen.%s changes under multiplication by c=%r: %r -> %r" % (fnm, c, a, b), case, key="C18:%s:scale" % fnm)
        if coll:
            for name, P in (("phi", phi), ("c*phi", c * phi)):
                g = vals[name]
                for fnm, want, tol in (("MPC", 1.0, T), ("MCF", 0.0, T), ("MPD", 0.0, 5e-3 if low else 2e-7)):
                    if finite(g[fnm]) and abs(g[fnm] - want) > tol:
                        ctx.fail("oracle", "gen.%s(%s) = %r on a collinear shape, property says %g" % (fnm, name, g[fnm], want), case,
                                 key="C18:%s:collinear" % fnm)
        # ---- MAC of the shape with itself / its multiple / its real generator
        pairs = [("MAC(c*phi, phi)", c * phi, phi, 1.0), ("MAC(phi, c*phi)", phi, c * phi, 1.0)]
        if "v" in case:
            v = np.asarray(case["v"], dtype=float)
            pairs += [("MAC(phi, v)", phi, v.astype(complex), 1.0), ("MAC(v real dtype, c*phi)", v, c * phi, 1.0)]
        for what, x, a, want in pairs:
            m, e = call(gen.MAC, cast(x, fit(x, dt), nd), cast(a, fit(a, dt2), nd2))
            if e is not None:
                ctx.fail("oracle", "gen.MAC raised %s" % type(e).__name__, case, key="C18:MAC:raises")
                continue
            if np.shape(m) != ():
                ctx.fail("oracle", "gen.MAC of two 1-D shapes is not a scalar: shape %s" % (np.shape(m),), case, key="C18:MAC:shape")
                continue
            if not finite(m) or abs(float(m) - want) > T:
                ctx.fail("oracle", "%s = %r, property says 1 (complex multiple of the same vector)" % (what, m), case, key="C18:MAC:collinear")

    # ---- two sets of shapes
    def mac(self, case):
        ctx = self.ctx
        Ambient.case = case
        X, A = uncmat(case["X"]), uncmat(case["A"])
        c, d = complex(*case["c"]), complex(*case["d"])
        dt, dt2, nd, nd2, T, AD, low = form_of(case)
        if case.get("form"):
            ctx.hist("form.mac", "%s|%s" % (dt, dt2))
        fX = lambda Z: cast(Z, fit(Z, dt))  # noqa: E731
        fA = lambda Z: cast(Z, fit(Z, dt2))  # noqa: E731
        mism = X.shape[0] != A.shape[0]
        zero_col = (not mism) and bool((~X.any(axis=0)).any() or (~A.any(axis=0)).any())
        ctx.count(case, nontrivial=not mism)
        ctx.hist("mac.shape", "%dx%d|%dx%d%s" % (X.shape + A.shape + (" mismatch" if mism else "",)))
        ctx.sample(case)
        M, e = call(gen.MAC, fX(X), fA(A))

        def cb(s, M=M, e=e):
            if s == "ShapeErr":
                if e is None:
                    ctx.fail("correspondence", "gen.MAC accepted sets with different first dimensions (model: exception)", case, key="C18:MAC:corr-exc")
                return
            if e is not None:
                ctx.fail("correspondence", "gen.MAC raised %s, model returns a matrix" % type(e).__name__, case, key="C18:MAC:corr-exc")
                return
            W = [[parse_q(t) for t in r.split(" ")] for r in s.split(";")] if s else []
            G = np.atleast_2d(np.asarray(M))
            if G.shape != (len(W), len(W[0]) if W else 0):
                ctx.fail("correspondence", "gen.MAC shape %s, model %dx%d" % (np.shape(M), len(W), len(W[0]) if W else 0), case, key="C18:MAC:corr-shape")
                return
            for i, r in enumerate(W):
                for j, w in enumerate(r):
                    g = G[i, j]
                    ok = (not finite(g)) if w is None else (finite(g) and abs(g - float(w)) <= T)
                    if not ok:
                        ctx.fail("correspondence", "gen.MAC[%d,%d] = %r, model says %s" % (i, j, g, w), case, key="C18:MAC:corr")
                        return

        self.job("showRes showOMat (mac_mat_l %s %s)" % (coq_mat(X), coq_mat(A)), cb)
        if mism:
            if e is None:
                ctx.fail("oracle", "gen.MAC accepted shapes with different numbers of components", case, key="C18:MAC:mismatch-accepted")
            return
        if e is not None:
            ctx.fail("oracle", "gen.MAC raised %s on two valid sets" % type(e).__name__, case, key="C18:MAC:raises")
            return
        mX, mA = X.shape[1], A.shape[1]
        M = np.asarray(M)
        if (mX, mA) == (1, 1):
            if M.shape != ():
                ctx.fail("oracle", "gen.MAC of two single shapes has shape %s" % (M.shape,), case, key="C18:MAC:shape")
                return
            M = M.reshape(1, 1)
        if M.shape != (mX, mA):
            ctx.fail("oracle", "gen.MAC shape %s, property says one row per shape of the first set (%d) and one column per shape of the second (%d)"
                     % (M.shape, mX, mA), case, key="C18:MAC:shape")
            return
        if zero_col:
            return  # a zero column is not a mode shape (NaN there is modelled, not judged)
        if not finite(M):
            ctx.fail("oracle", "gen.MAC has non-finite entries for non-zero shapes", case, key="C18:MAC:not-finite")
            return
        if M.min() < -T or M.max() > 1 + T:
            ctx.fail("oracle", "gen.MAC entries outside [0,1]: min %r max %r" % (M.min(), M.max()), case, key="C18:MAC:bounds")
        # pairwise definition: conjugated inner product, normalised per pair
        D = np.array([[abs(np.vdot(X[:, i], A[:, j])) ** 2 / (np.vdot(X[:, i], X[:, i]).real * np.vdot(A[:, j], A[:, j]).real)
                       for j in range(mA)] for i in range(mX)])
        if np.abs(M - D).max() > T:
            ctx.fail("oracle", "gen.MAC[i,j] is not |x_i^H a_j|^2 / ((x_i^H x_i)(a_j^H a_j))", case, key="C18:MAC:definition")
        Mt, e2 = call(gen.MAC, fA(A), fX(X))
        if e2 is not None or np.asarray(Mt).reshape(mA, mX).shape != (mA, mX) or np.abs(np.asarray(Mt).reshape(mA, mX).T - M).max() > T:
            ctx.fail("oracle", "gen.MAC(A, X) is not the transpose of gen.MAC(X, A)", case, key="C18:MAC:transpose")
        # scale invariance: whole sets, and one factor per shape
        cols = np.array([c * (1 + 0.5 * k) * (1j ** k) for k in range(mX)])
        for what, Xs, As in (("c*X, d*A", c * X, d * A), ("X*diag(c_i), A", X * cols[None, :], A)):
            Ms, e3 = call(gen.MAC, fX(Xs), fA(As))
            if e3 is not None or not finite(Ms) or np.abs(np.asarray(Ms).reshape(mX, mA) - M).max() > T:
                ctx.fail("oracle", "gen.MAC changes when the shapes are multiplied by non-zero complex factors (%s)" % what, case, key="C18:MAC:scale")
        # mixed 1-D / 2-D call forms
        r0, e4 = call(gen.MAC, fX(X)[:, 0], fA(A))
        if e4 is not None or np.asarray(r0).shape != ((1, mA) if mA > 1 else ()) or np.abs(np.asarray(r0).reshape(1, mA) - M[:1]).max() > T:
            ctx.fail("oracle", "gen.MAC(x, A) with a 1-D first argument is not the first row of gen.MAC(X, A)", case, key="C18:MAC:1d-form")
        # storage: the two sets as views of ONE parent buffer (interleaved columns, adjacent halves, overlapping windows) - the answer
        # depends on the values of the shapes, not on where they are stored
        Xc, Ac = fX(X), fA(A)
        if Xc.ndim == 2 and Ac.ndim == 2:
            par = np.empty((X.shape[0], mX + mA), dtype=np.result_type(Xc.dtype, Ac.dtype))
            views = []
            if mX == mA:
                par[:, 0::2], par[:, 1::2] = Xc, Ac
                views.append(("interleaved columns of one buffer", par[:, 0::2], par[:, 1::2], par.copy()))
            par2 = np.empty_like(par)
            par2[:, :mX], par2[:, mX:] = Xc, Ac
            views.append(("adjacent column blocks of one buffer", par2[:, :mX], par2[:, mX:], par2.copy()))
            for what, vx, va, keep in views:
                if vx.dtype != Xc.dtype or va.dtype != Ac.dtype:
                    continue  # the common dtype would change the values: not the same call
                Mv, e5 = call_plain(gen.MAC, vx, va)
                if e5 is not None or np.asarray(Mv).reshape(mX, mA).shape != (mX, mA) or not finite(Mv) or np.abs(np.asarray(Mv).reshape(mX, mA) - M).max() > T:
                    ctx.fail("oracle", "gen.MAC of two sets stored as %s differs from gen.MAC of the same values in separate arrays" % what,
                             case, key="C18:MAC:shared-storage")
                    break
            if mX == mA and mX > 1 and X.shape == A.shape:
                # overlapping windows of one table: MAC(P[:, :-1], P[:, 1:]) against the pairwise definition
                tab = np.concatenate([Xc.astype(par.dtype), Ac.astype(par.dtype)[:, -1:]], axis=1)
                w1, w2 = tab[:, :-1], tab[:, 1:]
                Mo, e6 = call_plain(gen.MAC, w1, w2)
                Do = np.array([[abs(np.vdot(w1[:, i], w2[:, j])) ** 2 / (np.vdot(w1[:, i], w1[:, i]).real * np.vdot(w2[:, j], w2[:, j]).real)
                                for j in range(mX)] for i in range(mX)]) if bool(w1.any(axis=0).all() and w2.any(axis=0).all()) else None
                if Do is not None and np.isfinite(Do).all() and (e6 is not None or np.asarray(Mo).shape != (mX, mX) or np.abs(np.asarray(Mo) - Do).max() > max(T, 1e-6 if low else 0)):
                    ctx.fail("oracle", "gen.MAC of two overlapping column windows of one table is not the pairwise definition", case, key="C18:MAC:shared-storage")

    # ---- modal scale factor
    def msf(self, case):
        ctx = self.ctx
        Ambient.case = case
        v = uncv(case["v"])
        dt, dt2, nd, nd2, T, AD, low = form_of(case)
        if case.get("form"):
            ctx.hist("form.msf", "%s nd=%d|%s nd=%d" % (dt, nd, dt2, nd2))
        ctx.hist("msf.kind", case.get("tag", "scaled"))
        if "y" in case:  # general pair (direction / conjugation are visible here), possibly of different lengths
            y = uncv(case["y"])
            ctx.count(case, nontrivial=len(v) == len(y))
            m, e = call(gen.MSF, cast(v, fit(v, dt), nd), cast(y, fit(y, dt2), nd2))

            def cb(s, m=m, e=e):
                if s == "ShapeErr":
                    if e is None:
                        ctx.fail("correspondence", "gen.MSF accepted vectors of different lengths (model: exception)", case, key="C18:MSF:corr-exc")
                    return
                w = opt_float(s)
                if e is not None:
                    ctx.fail("correspondence", "gen.MSF raised %s, model returns %s" % (type(e).__name__, s), case, key="C18:MSF:corr-exc")
                    return
                g = np.asarray(m)
                ok = g.shape == (1,) and ((not finite(g)) if w is None else (finite(g) and abs(g[0] - w) <= (T + 1e-12 * case.get("kappa", 1.0)) * max(1.0, abs(w))))
                if not ok:
                    ctx.fail("correspondence", "gen.MSF(x, y) = %r, model says %s" % (m, s), case, key="C18:MSF:corr")

            self.job("showRes showOQ (msf_l %s %s)" % (coq_vec(v), coq_vec(y)), cb)
            if len(v) == len(y) and e is None and np.asarray(m).shape == (1,) and finite(m):
                want = (np.dot(y, v) / np.dot(v, v)).real  # the real factor taking the first vector to the second, no conjugation
                if abs(np.asarray(m)[0] - want) > (T + 1e-12 * case.get("kappa", 1.0)) * max(1.0, abs(want)):
                    ctx.fail("oracle", "gen.MSF(x, y) = %r is not Re((y^T x)/(x^T x)) = %r" % (m, want), case, key="C18:MSF:definition")
            return
        r = float(case["r"])
        ctx.count(case, nontrivial=bool(v.any()))
        ctx.sample(case)
        null = exact_tdot_zero(v)
        vv = complex(np.dot(v, v))
        kappa = float(np.vdot(v, v).real / abs(vv)) if vv != 0 else float("inf")
        m, e = call(gen.MSF, cast(v, fit(v, dt), nd), cast(r * v, fit(r * v, dt2), nd2))

        def cb(s, m=m, e=e):
            w = opt_float(s)
            if e is not None:
                ctx.fail("correspondence", "gen.MSF raised %s, model returns %s" % (type(e).__name__, s), case, key="C18:MSF:corr-exc")
                return
            g = np.asarray(m)
            ok = g.shape == (1,) and ((not finite(g)) if w is None else (finite(g) and abs(g[0] - w) <= (T + 1e-12 * min(kappa, 1e12)) * max(1.0, abs(w))))
            if not ok:
                ctx.fail("correspondence", "gen.MSF(v, r v) = %r, model says %s" % (m, s), case, key="C18:MSF:corr")

        self.job("showRes showOQ (msf_l %s %s)" % (coq_vec(v), coq_vec(r * v)), cb)
        if not v.any():
            return
        if e is not None:
            ctx.fail("oracle", "gen.MSF raised %s" % type(e).__name__, case, key="C18:MSF:raises")
            return
        g = np.asarray(m)
        if g.shape != (1,):
            ctx.fail("oracle", "gen.MSF of two 1-D vectors has shape %s" % (g.shape,), case, key="C18:MSF:shape")
        elif not finite(g):
            if null:
                ctx.fail("oracle", "gen.MSF(v, c v) is NaN for a vector with v^T v = 0", case, key="C18:MSF:null-bilinear-nan")
            else:
                ctx.fail("oracle", "gen.MSF(v, c v) is not finite", case, key="C18:MSF:not-finite")
        elif kappa > 1e6:
            ctx.not_judged += 1  # v^T v nearly cancels: the quotient is ill-conditioned
        elif abs(g[0] - r) > (T + 1e-12 * kappa) * max(1.0, abs(r)):
            ctx.fail("oracle", "gen.MSF(v, c v) = %r, property says c = %r" % (g[0], r), case, key="C18:MSF:value")

    # ---- 2-D call forms of MCF / MSF are the per-column vector forms
    def columns(self, case):
        ctx = self.ctx
        Ambient.case = case
        X = uncmat(case["X"])
        r = np.asarray(case["r"], dtype=float)
        dt, dt2, nd, nd2, T, AD, low = form_of(case)
        ctx.count(case)
        F, e = call(gen.MCF, cast(X, fit(X, dt)))
        ok = e is None and np.asarray(F).shape == (X.shape[1],) and all(
            abs(F[i] - gen.MCF(X[:, i])[0]) <= T for i in range(X.shape[1]))
        if not ok:
            ctx.fail("oracle", "gen.MCF of a set is not the MCF of each column", case, key="C18:MCF:columns")
        S, e = call(gen.MSF, cast(X, fit(X, dt)), cast(X * r[None, :], fit(X * r[None, :], dt2)))
        ok = e is None and np.asarray(S).shape == (X.shape[1],) and all(
            abs(S[i] - gen.MSF(X[:, i], r[i] * X[:, i])[0]) <= T * max(1, abs(r[i])) for i in range(X.shape[1]))
        if not ok:
            ctx.fail("oracle", "gen.MSF of two sets is not the MSF of each pair of columns", case, key="C18:MSF:columns")

    # ---- large sets: MAC between sets with up to 1100 shapes, MCF / MSF with hundreds of modes (recipe-style cases:
    # everything is regenerated from seed + sizes, so the case stays small and replayable)
    @staticmethod
    def large_sets(case):
        rng = np.random.default_rng([int(case["seed"]), 18])
        n, mX, mA = int(case["n"]), int(case["mX"]), int(case["mA"])

        def cols(m):
            Z = gauss(rng, n * m, bits=5, den=8.0).reshape(n, m)
            Z[0, ~Z.any(axis=0)] = 1.0
            return Z

        X, A = cols(mX), cols(mA)
        coll = []  # columns of A that are complex multiples of a column of X, placed beyond the first 256 where the set is that large
        for j in sorted(set(k for k in (mA - 1, 256, 280, 511, 512, 700) if 0 <= k < mA)):
            i = int(rng.integers(0, mX))
            cj = scale_factor(rng)
            A[:, j] = cj * X[:, i]
            coll.append((i, j))
        return X, A, coll

    @staticmethod
    def spread(m, k, rng):
        """about k indices spread over all blocks of 256, with both sides of every block boundary and the last index."""
        fixed = [0, 1, 254, 255, 256, 257, 280, 511, 512, 513, 767, 768, 1023, 1024, m - 2, m - 1]
        idx = sorted(set(i for i in fixed if 0 <= i < m))
        extra = [int(i) for i in rng.integers(0, m, size=max(0, k - len(idx)))]
        return sorted(set(idx + extra))

    def large(self, case):
        ctx = self.ctx
        Ambient.case = case
        X, A, coll = self.large_sets(case)
        n, mX, mA = X.shape[0], X.shape[1], A.shape[1]
        ctx.count(case)
        ctx.hist("large.mac", "%dx%d" % (mX, mA))
        ctx.sample(case)
        M, e = call(gen.MAC, X, A)  # also re-run under the ambient numeric states
        if e is not None:
            ctx.fail("oracle", "gen.MAC raised %s on sets of %d and %d shapes" % (type(e).__name__, mX, mA), case, key="C18:MAC:large-raises")
            return
        M = np.asarray(M)
        if (mX, mA) == (1, 1) and M.shape == ():
            M = M.reshape(1, 1)
        if M.shape != (mX, mA):
            ctx.fail("oracle", "gen.MAC shape %s for sets of %d and %d shapes" % (M.shape, mX, mA), case, key="C18:MAC:large-shape")
            return
        # ---- NumPy oracle on EVERY entry
        nX, nA = np.einsum("ki,ki->i", X.conj(), X).real, np.einsum("kj,kj->j", A.conj(), A).real
        D = np.abs(X.conj().T @ A) ** 2 / (nX[:, None] * nA[None, :])

        def where(B):
            i, j = np.unravel_index(int(np.nanargmax(B)), B.shape)
            return "entry [%d,%d]" % (i, j)

        if not finite(M):
            ctx.fail("oracle", "gen.MAC has non-finite entries for non-zero shapes (%dx%d)" % (mX, mA), case, key="C18:MAC:large-not-finite")
            return
        if M.min() < -TOL or M.max() > 1 + TOL:
            ctx.fail("oracle", "gen.MAC of %dx%d shapes outside [0,1]: min %r max %r at %s" % (mX, mA, M.min(), M.max(), where(M)), case, key="C18:MAC:large-bounds")
        if np.abs(M - D).max() > TOL:
            ctx.fail("oracle", "gen.MAC[i,j] is not |x_i^H a_j|^2/((x_i^H x_i)(a_j^H a_j)) for %dx%d shapes: %s is %r, definition %r"
                     % (mX, mA, where(np.abs(M - D)), M[np.unravel_index(int(np.argmax(np.abs(M - D))), M.shape)], D[np.unravel_index(int(np.argmax(np.abs(M - D))), M.shape)]),
                     case, key="C18:MAC:large-definition")
        for i, j in coll:
            if abs(M[i, j] - 1) > TOL:
                ctx.fail("oracle", "gen.MAC[%d,%d] = %r for a column that is a complex multiple of the row shape (column %d of %d), property says 1"
                         % (i, j, M[i, j], j, mA), case, key="C18:MAC:large-collinear")
                break
        Mt, e2 = call_plain(gen.MAC, A, X)
        if e2 is not None or np.asarray(Mt).reshape(mA, mX).shape != (mA, mX) or not np.allclose(np.asarray(Mt).reshape(mA, mX).T, M, rtol=0, atol=TOL, equal_nan=False):
            ctx.fail("oracle", "gen.MAC(A, X) is not the transpose of gen.MAC(X, A) for %dx%d shapes" % (mX, mA), case, key="C18:MAC:large-transpose")
        srng = np.random.default_rng([int(case["seed"]), 19])
        cX = np.array([scale_factor(srng) for _ in range(min(mX, 7))])[np.arange(mX) % min(mX, 7)]
        cA = np.array([scale_factor(srng) for _ in range(min(mA, 11))])[np.arange(mA) % min(mA, 11)]
        Ms, e3 = call_plain(gen.MAC, X * cX[None, :], A * cA[None, :])
        if e3 is not None or not finite(Ms) or np.abs(np.asarray(Ms).reshape(mX, mA) - M).max() > TOL:
            ctx.fail("oracle", "gen.MAC changes when every shape of the %dx%d sets is multiplied by its own non-zero complex factor" % (mX, mA), case, key="C18:MAC:large-scale")
        # ---- the Coq model (entry-wise) on a sample of entries spread over all blocks, last row / column included
        rows, colsj = self.spread(mX, 6, srng), self.spread(mA, 14, srng)
        pick = [(i, j) for i in rows[: 3] + rows[-3:] for j in colsj][:: max(1, len(rows[: 3] + rows[-3:]) * len(colsj) // 40)]
        pick = sorted(set(pick + [(mX - 1, mA - 1), (0, mA - 1)] + [(i, j) for i, j in coll]))
        expr = 'showL (showRes showOQ) " " %s' % clist(["mac_vec_l %s %s" % (coq_vec(X[:, i]), coq_vec(A[:, j])) for i, j in pick])

        def cb(s, M=M, pick=pick):
            for (i, j), t in zip(pick, s.split(" ")):
                w = opt_float(t) if t != "ShapeErr" else None
                if w is None or abs(M[i, j] - w) > TOL:
                    ctx.fail("correspondence", "gen.MAC[%d,%d] = %r for %dx%d shapes, model says %s" % (i, j, M[i, j], mX, mA, t), case, key="C18:MAC:large-corr")
                    return

        self.job(expr, cb)

    def many_modes(self, case):
        """gen.MCF / gen.MSF on sets with hundreds of modes (columns)."""
        ctx = self.ctx
        Ambient.case = case
        rng = np.random.default_rng([int(case["seed"]), 20])
        n, m = int(case["n"]), int(case["m"])
        ctx.count(case)
        ctx.hist("large.modes", m)
        X = gauss(rng, n * m, bits=5, den=8.0).reshape(n, m) + (1 + 1j) / 8.0
        for j in range(m):  # keep x^T x away from 0 (the known MSF finding is not the subject here)
            while abs(np.dot(X[:, j], X[:, j])) < 1e-2 * np.vdot(X[:, j], X[:, j]).real:
                X[:, j] = gauss(rng, n, bits=5, den=8.0) + (1 + 1j) / 8.0
        for j in (m - 1, 256, 280):
            if 0 <= j < m:
                v = np.round(X[:, j].real * 8 + 1) / 8.0
                v[0] = v[0] if v.any() else 1.0
                X[:, j] = scale_factor(rng) * v  # collinear columns beyond the first 256: MCF 0
        r = rng.integers(-40, 41, size=m) / 8.0 * 2.0 ** rng.integers(-6, 7, size=m)
        r[r == 0] = 1.5
        F, e = call(gen.MCF, X)
        re, im = X.real, X.imag
        sxx, syy, sxy = (re * re).sum(0), (im * im).sum(0), (re * im).sum(0)
        want = 1 - ((sxx - syy) ** 2 + 4 * sxy**2) / (sxx + syy) ** 2
        if e is not None or np.asarray(F).shape != (m,) or not finite(F):
            ctx.fail("oracle", "gen.MCF of a set of %d modes: exception, wrong shape or non-finite" % m, case, key="C18:MCF:many-shape")
            F = None
        else:
            F = np.asarray(F)
            if F.min() < -TOL or F.max() > 1 + TOL or np.abs(F - want).max() > TOL:
                k = int(np.argmax(np.abs(F - want)))
                ctx.fail("oracle", "gen.MCF of a set of %d modes: mode %d is %r, closed form %r" % (m, k, F[k], want[k]), case, key="C18:MCF:many-definition")
        S, e = call(gen.MSF, X, X * r[None, :])
        if e is not None or np.asarray(S).shape != (m,) or not finite(S):
            ctx.fail("oracle", "gen.MSF of two sets of %d modes: exception, wrong shape or non-finite" % m, case, key="C18:MSF:many-shape")
            S = None
        else:
            S = np.asarray(S)
            if np.abs(S - r).max() > 1e-7 * np.abs(r).max() or (np.abs(S - r) > 1e-7 * np.maximum(1.0, np.abs(r))).any():
                k = int(np.argmax(np.abs(S - r) / np.maximum(1.0, np.abs(r))))
                ctx.fail("oracle", "gen.MSF(X, X diag(c)) of %d modes: mode %d is %r, property says c = %r" % (m, k, S[k], r[k]), case, key="C18:MSF:many-value")
        pick = self.spread(m, 16, rng)
        expr = 'showL (fun o => o) " " %s' % clist(
            ['showOQ (mcf_l %s) ++ "," ++ showRes showOQ (msf_l %s %s)' % (coq_vec(X[:, j]), coq_vec(X[:, j]), coq_vec(r[j] * X[:, j])) for j in pick])

        def cb(s, F=F, S=S, pick=pick):
            for j, t in zip(pick, s.split(" ")):
                a, b = t.split(",", 1) if t.count(",") == 1 else (t.split(",")[0], ",".join(t.split(",")[1:]))
                wa, wb = opt_float(a), (opt_float(b) if b != "ShapeErr" else None)
                if F is not None and (wa is None or abs(F[j] - wa) > TOL):
                    ctx.fail("correspondence", "gen.MCF mode %d of %d = %r, model says %s" % (j, len(F), F[j], a), case, key="C18:MCF:many-corr")
                    return
                if S is not None and (wb is None or abs(S[j] - wb) > 1e-7 * max(1.0, abs(wb))):
                    ctx.fail("correspondence", "gen.MSF mode %d of %d = %r, model says %s" % (j, len(S), S[j], b), case, key="C18:MSF:many-corr")
                    return

        self.job(expr, cb)

    # ---- call forms: every indicator is called fully positionally in the parameter order of the pristine signature AND by
    # keyword with the pristine parameter names; both must give the same answer (bit-equal) and that answer must satisfy the
    # property.  The inputs make a misbound argument visible: MAC between sets of DIFFERENT sizes (a swap transposes the
    # result), MSF(v, r v) with |r| well away from 1 (a swap gives 1/r), general MSF pairs (direction of the quotient).
    def both_forms(self, fnm, args, case, what):
        ctx = self.ctx
        fn, names = getattr(gen, fnm), PRISTINE_ORDER[fnm]
        sig = ", ".join(names)
        p, ep = call_plain(fn, *args)
        k, ek = call_kw(fn, **dict(zip(names, args)))
        if ep is not None:
            ctx.fail("oracle", "gen.%s(%s) called positionally in the documented order (%s) raised %s: %s"
                     % (fnm, what, sig, type(ep).__name__, str(ep)[:80]), case, key="C18:%s:positional-call" % fnm)
            return None
        if ek is not None:
            ctx.fail("oracle", "gen.%s(%s) called by keyword with the documented parameter names (%s) raised %s: %s"
                     % (fnm, what, sig, type(ek).__name__, str(ek)[:80]), case, key="C18:%s:keyword-call" % fnm)
            return p
        a, b = np.asarray(p), np.asarray(k)
        if a.shape != b.shape or not np.array_equal(a, b, equal_nan=True):
            ctx.fail("oracle", "gen.%s(%s): the positional call in the documented order (%s) returns %s but the keyword call %s"
                     % (fnm, what, sig, np.array2string(a, threshold=8), np.array2string(b, threshold=8)), case,
                     key="C18:%s:positional-call" % fnm)
        return p

    def callforms(self, case):
        ctx = self.ctx
        Ambient.case = case
        X, A = uncmat(case["X"]), uncmat(case["A"])
        r = np.asarray(case["r"], dtype=float)
        c = complex(*case["c"])
        y = uncv(case["y"])
        n, mX, mA = X.shape[0], X.shape[1], A.shape[1]
        ctx.count(case, nontrivial=mX != mA)
        ctx.hist("callforms.mac", "%dx%d|%dx%d" % (X.shape + A.shape))
        T = TOL

        def pairwise(P, Q):
            return np.array([[abs(np.vdot(P[:, i], Q[:, j])) ** 2 / (np.vdot(P[:, i], P[:, i]).real * np.vdot(Q[:, j], Q[:, j]).real)
                              for j in range(Q.shape[1])] for i in range(P.shape[1])])

        # MAC(phi_X, phi_A): one row per shape of the first argument, one column per shape of the second
        for what, P, Q, shp in (("X %dx%d, A %dx%d" % (n, mX, n, mA), X, A, (mX, mA)),
                                ("x 1-D, A %dx%d" % (n, mA), X[:, 0], A, (1, mA)),
                                ("X %dx%d, a 1-D" % (n, mX), X, A[:, 0], (mX, 1))):
            M = self.both_forms("MAC", (P, Q), case, what)
            if M is None:
                continue
            M = np.asarray(M)
            if shp == (1, 1) and M.shape == ():
                M = M.reshape(1, 1)
            if M.shape != shp:
                ctx.fail("oracle", "gen.MAC(%s) has shape %s, property says one row per shape of the first set and one column per shape of the second: %s"
                         % (what, M.shape, shp), case, key="C18:MAC:shape")
                continue
            D = pairwise(P if P.ndim == 2 else P[:, None], Q if Q.ndim == 2 else Q[:, None])
            if not finite(M) or M.min() < -T or M.max() > 1 + T or np.abs(M - D).max() > T:
                ctx.fail("oracle", "gen.MAC(%s) is not |x_i^H a_j|^2 / ((x_i^H x_i)(a_j^H a_j)) in [0,1]" % what, case, key="C18:MAC:definition")
        # MSF(phi_1, phi_2): the real factor taking the FIRST argument to the second
        S = self.both_forms("MSF", (X, X * r[None, :]), case, "X, X diag(r)")
        if S is not None:
            S = np.asarray(S)
            if S.shape != (mX,) or not finite(S) or (np.abs(S - r) > (T + 1e-9) * np.maximum(1.0, np.abs(r))).any():
                ctx.fail("oracle", "gen.MSF(X, X diag(r)) = %r, property says r = %r" % (S, r), case, key="C18:MSF:value")
        x = X[:, 0]
        for what, q, want in (("x, r0 x", r[0] * x, r[0]), ("x, y", y, (np.dot(y, x) / np.dot(x, x)).real)):
            s = self.both_forms("MSF", (x, q), case, what)
            if s is not None:
                s = np.asarray(s)
                if s.shape != (1,) or not finite(s) or abs(s[0] - want) > (T + 1e-9) * max(1.0, abs(want)):
                    ctx.fail("oracle", "gen.MSF(%s) = %r, property says %r (Re((y^T x)/(x^T x)), no conjugation)" % (what, s, want), case,
                             key="C18:MSF:definition")
        # the one-argument indicators on a general shape, its multiple, and a collinear shape
        v = np.round(x.real * 4 + 1) / 4.0
        if not v.any():
            v[0] = 1.0
        for what, P, coll in (("phi", x, False), ("c*phi", c * x, False), ("c*v, v real", c * v, True)):
            re, im = P.real, P.imag
            dr, di = re - re.mean(), im - im.mean()
            cxx, cyy, cxy = float(dr @ dr), float(di @ di), float(dr @ di)
            sxx, syy, sxy = float(re @ re), float(im @ im), float(re @ im)
            g = self.both_forms("MPC", (P,), case, what)
            if g is not None and cxx + cyy > 0:
                want = ((cxx - cyy) ** 2 + 4 * cxy**2) / (cxx + cyy) ** 2
                if np.shape(g) != () or not finite(g) or abs(g - want) > 1e-8 or not (-T <= complex(g).real <= 1 + T):
                    ctx.fail("oracle", "gen.MPC(%s) = %r is not (l0-l1)^2/(l0+l1)^2 of the covariance of (Re, Im) = %r in [0,1]" % (what, g, want), case,
                             key="C18:MPC:definition")
            g = self.both_forms("MCF", (P,), case, what)
            if g is not None:
                want = 1 - ((sxx - syy) ** 2 + 4 * sxy**2) / (sxx + syy) ** 2
                if np.shape(g) != (1,) or not finite(g) or abs(np.asarray(g)[0] - want) > 1e-8 or not (-T <= complex(np.asarray(g)[0]).real <= 1 + T):
                    ctx.fail("oracle", "gen.MCF(%s) = %r is not 1 - ((Sxx-Syy)^2 + 4 Sxy^2)/(Sxx+Syy)^2 = %r in [0,1]" % (what, g, want), case,
                             key="C18:MCF:definition")
            g = self.both_forms("MPD", (P,), case, what)
            if g is not None:
                if np.shape(g) != () or not finite(g) or abs(complex(g).imag) > T or not (-T <= complex(g).real <= math.pi / 2 + T):
                    ctx.fail("oracle", "gen.MPD(%s) = %r outside [0, pi/2]" % (what, g), case, key="C18:MPD:bounds")
                elif coll and abs(g) > 2e-7:
                    ctx.fail("oracle", "gen.MPD(%s) = %r on a collinear shape, property says 0" % (what, g), case, key="C18:MPD:collinear")
        # MPC / MCF of the collinear shape
        P = c * v
        g, e = call_plain(gen.MCF, P)
        if e is None and (not finite(g) or abs(np.asarray(g).ravel()[0]) > T):
            ctx.fail("oracle", "gen.MCF(c*v) = %r on a collinear shape, property says 0" % (g,), case, key="C18:MCF:collinear")
        if np.ptp(v) > 0:
            g, e = call_plain(gen.MPC, P)
            if e is None and (not finite(g) or abs(g - 1) > T):
                ctx.fail("oracle", "gen.MPC(c*v) = %r on a collinear shape, property says 1" % (g,), case, key="C18:MPC:collinear")

    def dispatch(self, case):
        getattr(self, {"shape": "shape", "mac": "mac", "msf": "msf", "columns": "columns", "large": "large", "many-modes": "many_modes",
                       "callforms": "callforms"}[case["kind"]])(case)


def run(ctx):
    rng = ctx.np_rng
    ctx.extra["rule"] = ("cases = single shapes (random / exactly collinear / zero components / unit-normalised / nearly collinear / maximally complex: "
                         "travelling waves exp(2 pi i k/n), exp(i k theta), exact equal-variance zero-covariance blocks, constant modulus, one or two "
                         "non-zero components; large sets: MAC between 1..1100 x 1..1100 shapes and MCF/MSF with 257..1100 modes, judged on every entry by the NumPy oracle "
                         "and on ~40 entries spread over all blocks of 256 by the model; each with a scale "
                         "factor 2^k * Gaussian rational), pairs of shape sets for MAC (non-square, ~15% malformed), MSF pairs; non-trivial = "
                         "not the zero vector / not a dimension mismatch; distinct by hash of the inputs; every stream also in other storage forms "
                         "(int32/int64/float32/complex64 arrays, (n,1) columns, mixed dtypes between the two arguments; lists are rejected by all five functions)")
    ctx.assumptions += [
        "oracle contract (Section hypotheses of C18_mpd_*): numpy.linalg.svd returns as second right-singular vector a non-zero eigenvector of "
        "[Re,Im]^T[Re,Im] for its smaller eigenvalue; numpy sqrt/arccos: sqrt>0 on positives, maps [0,1] to [0,1], sqrt 1 = 1, multiplicative; "
        "arccos maps [0,1] into [0,pi/2], arccos 1 = 0 (satisfiable: C18_contracts_satisfiable with the stdlib sqrt/acos)",
        "MPD is compared through the split at sqrt/arccos: the witness singular vector comes from this harness' own numpy.linalg.svd call; "
        "tolerance = 1e-9 + the arccos conditioning term for an absolute rounding allowance of 1e-14 on each cosine",
        "numpy.cov / numpy.linalg.eigvals enter MPC only through trace and determinant (C18_mpc_eig, C18_mpc_factor)",
    ]
    R = Runner(ctx)
    Ambient.reset(ctx)
    ctx.extra["ambient_modes"] = dict(
        modes={"errstate-all-raise": "np.errstate(all='raise')", "warnings-as-errors": "warnings.simplefilter('error') under numpy's default error state"},
        expectation="the unchanged code supports both modes for all five indicators on every input where it returns a finite value "
                    "(established on 3000 shapes incl. exact zero components, purely real / imaginary shapes): same value, no exception",
        judged=Ambient.judged, not_judged=Ambient.not_judged)
    if ctx.replay:
        c = json.load(open(ctx.replay))
        R.dispatch(c.get("case", c))
        R.flush()
        return
    # ---- corpus first
    for path in sorted(glob.glob(os.path.join(VERIF, "corpus", "C18", "*.json"))):
        case = json.load(open(path))
        case.pop("note", None)
        case["corpus"] = os.path.basename(path)
        R.dispatch(case)
    R.flush()

    nmax = 12 if ctx.quick() else 64

    def pick_n():
        if ctx.quick() or rng.random() < 0.7:
            return int(rng.integers(2, 13))
        return int(rng.integers(13, nmax + 1))

    # ---- single shapes
    tags = (["random"] * 5 + ["collinear"] * 6 + ["zeros"] * 3 + ["unit"] * 3 + ["near"] * 3 + ["tiny"] * 2
            + ["circular"] * 3 + ["expi-theta"] * 2 + ["const-modulus"] * 2 + ["one-nonzero"] + ["two-nonzero"] + ["zero-vector"] * 1)
    # travelling waves exp(2 pi i k/n) for every n, each under several scale factors (degenerate eigenvalues of the covariance)
    for n in (range(3, 13) if ctx.quick() else list(range(3, 33)) + [40, 48, 56, 63, 64]):
        for rep in range(3):
            phi, extra = gen_shape(rng, n, "circular-exact" if (rep == 2 and n % 4 == 0) else "circular")
            if rep == 0:
                phi = np.exp(2j * np.pi * np.arange(n) / n)
                extra = {}
            c = scale_factor_any(rng)
            R.shape(dict(kind="shape", tag="circular", phi=cv(phi), c=[c.real, c.imag], **extra))
    for _ in range(ctx.n(280, 1700)):
        tag = tags[int(rng.integers(0, len(tags)))]
        n = pick_n()
        phi, extra = gen_shape(rng, n, tag)
        c = scale_factor_any(rng) if tag in COMPLEX_TAGS else scale_factor(rng)
        R.shape(dict(kind="shape", tag=tag, phi=cv(phi), c=[c.real, c.imag], form=pick_form(rng, False, 0.2), **extra))
    # ---- MAC between sets (deliberately non-square)
    for k in range(ctx.n(90, 500)):
        n = pick_n() if k % 3 else int(rng.integers(2, 6))
        mX, mA = int(rng.integers(1, 6)), int(rng.integers(1, 6))
        if k % 2 == 0 and mX == mA:
            mA = mX + 1
        X = np.stack([gen_shape(rng, n, tags[int(rng.integers(0, len(tags) - 1))])[0] for _ in range(mX)], axis=1)
        A = np.stack([gen_shape(rng, n, tags[int(rng.integers(0, len(tags) - 1))])[0] for _ in range(mA)], axis=1)
        u = rng.random()
        if u < 0.25:  # columns of A collinear with / equal to columns of X
            for j in range(mA):
                if rng.random() < 0.6:
                    A[:, j] = scale_factor(rng) * X[:, int(rng.integers(0, mX))]
        elif u < 0.33:  # malformed: different numbers of components
            A = A[: n - 1] if n > 2 and rng.random() < 0.5 else np.vstack([A, A[:1]])
        elif u < 0.40:  # malformed: a zero shape in one of the sets
            (X if rng.random() < 0.5 else A)[:, 0] = 0
        c, d = scale_factor(rng), scale_factor(rng)
        R.mac(dict(kind="mac", X=cmat(X), A=cmat(A), c=[c.real, c.imag], d=[d.real, d.imag], form=pick_form(rng, False, 0.2)))
    # ---- MSF
    for k in range(ctx.n(130, 800)):
        n = pick_n()
        u = rng.random()
        if u < 0.08:  # v^T v = 0 exactly: pairs (z, i z)  -- the KNOWN MSF finding lives here
            z = gauss(rng, max(1, n // 2))
            z[z == 0] = 1
            v = np.concatenate([z, 1j * z])
            rng.shuffle(v)
            tag = "null-bilinear"
        elif u < 0.2:
            v = real_vec(rng, n).astype(complex)
            tag = "real"
        elif u < 0.32:  # maximally complex / sparse shapes in their exactly representable variants
            tag = ["circular-exact", "const-modulus", "one-nonzero", "two-nonzero"][int(rng.integers(0, 4))]
            v, _ = gen_shape(rng, n, tag)
            if tag == "const-modulus":
                v = np.round(v * 8.0 / max(abs(v[0]), 1e-300)) / 8.0 * 1.0  # back onto the dyadic grid (unit Gaussian integers or rounded phases)
                v[v == 0] = 1.0
        elif u < 0.4:
            v, _ = gen_shape(rng, n, "zeros")
            tag = "zeros"
        elif u < 0.48:
            v, _ = gen_shape(rng, n, "unit")
            tag = "unit"
        else:
            v = gauss(rng, n)
            if not v.any():
                v[0] = 1
            tag = "random"
        if u >= 0.08 and rng.random() < 0.5:
            v = v * scale_factor(rng)
        r = float(rng.integers(-64, 65)) / 16.0 * 2.0 ** int(rng.integers(-20, 21))
        if k % 7 == 0:
            r = float(rng.integers(-3, 4))
        R.msf(dict(kind="msf", tag=tag, v=cv(v), r=r, form=pick_form(rng, tag == "real", 0.25)))
    for k in range(ctx.n(50, 250)):  # general pairs: direction of the factor, no conjugation, mismatched lengths
        n = pick_n()
        x, y = gauss(rng, n), gauss(rng, n)
        if not x.any():
            x[0] = 1
        if k % 6 == 5:
            y = y[:-1] if n > 2 else np.append(y, 1.0)
        xx = complex(np.dot(x, x))
        if xx == 0 or np.vdot(x, x).real / abs(xx) > 1e4:
            continue
        R.msf(dict(kind="msf", tag="pair", v=cv(x), y=cv(y), kappa=float(np.vdot(x, x).real / abs(xx)), form=pick_form(rng, False, 0.25)))
    # ---- 2-D call forms
    for k in range(ctx.n(20, 100)):
        n, m = pick_n(), int(rng.integers(1, 5))
        X = np.stack([gauss(rng, n) + (1 + 1j) / 16.0 for _ in range(m)], axis=1)
        xx = np.array([abs(np.dot(X[:, i], X[:, i])) / np.vdot(X[:, i], X[:, i]).real for i in range(m)])
        if (xx < 1e-3).any():
            continue
        r = rng.integers(-16, 17, size=m) / 4.0
        R.columns(dict(kind="columns", X=cmat(X), r=r.tolist(), form=pick_form(rng, False, 0.3)))

    # ---- storage forms: the same vectors as integer / single-precision arrays, (n,1) columns, mixed dtypes between the
    # two arguments.  Values are small integers (exact in every dtype, no int32 overflow for n <= 12) or short dyadics.
    def int_vec(n, lo=-12, hi=12):
        while True:
            v = rng.integers(lo, hi + 1, size=n).astype(float)
            if v.any():
                return v

    for k in range(ctx.n(50, 300)):  # real integer-valued shapes, real integer factor
        n = int(rng.integers(2, 13))
        v = int_vec(n)
        if k % 9 == 0:
            v = np.full(n, float(rng.integers(1, 6)))
        c = float(rng.choice([-3, -2, -1, 2, 3]))
        R.shape(dict(kind="shape", tag="real-int", phi=cv(v), v=v.tolist(), c0=[1.0, 0.0], c=[c, 0.0], form=pick_form(rng, True)))
    for k in range(ctx.n(30, 200)):  # complex shapes with few bits, single precision
        n = pick_n()
        phi = gauss(rng, n, bits=4, den=4.0)
        if not phi.any():
            phi[0] = 1
        c = complex(rng.integers(-4, 5), rng.integers(-4, 5)) / 2.0 * 2.0 ** int(rng.integers(-8, 9))
        if c == 0:
            c = 1j
        R.shape(dict(kind="shape", tag="complex64", phi=cv(phi), c=[c.real, c.imag], form=dict(dt="complex64", dt2="complex128" if k % 2 else "complex64",
                                                                                                nd=1 + k % 2, nd2=1 + (k // 2) % 2)))
    for k in range(ctx.n(40, 250)):  # MAC between sets stored differently
        n = int(rng.integers(2, 13))
        mX, mA = int(rng.integers(1, 5)), int(rng.integers(1, 5))
        if k % 2 == 0 and mX == mA:
            mA = mX + 1
        if k % 3 == 0:  # complex, few bits
            X = np.stack([gauss(rng, n, bits=4, den=4.0) + 0.25 for _ in range(mX)], axis=1)
            A = np.stack([gauss(rng, n, bits=4, den=4.0) + 0.25j for _ in range(mA)], axis=1)
            form = dict(dt=["complex64", "complex128"][k % 2], dt2=["complex64", "complex128", "complex64"][k % 3])
            c, d = complex(rng.integers(1, 4), rng.integers(-3, 4)), complex(rng.integers(-3, 4), rng.integers(1, 4)) / 2.0
        else:  # real integer-valued sets, possibly one of them complex
            X = np.stack([int_vec(n) for _ in range(mX)], axis=1).astype(complex)
            A = np.stack([int_vec(n) for _ in range(mA)], axis=1).astype(complex)
            if k % 4 == 1:
                A = A * (1 + 2j)
            for j in range(mA):
                if rng.random() < 0.3:
                    A[:, j] = float(rng.choice([-2, 2, 3])) * X[:, int(rng.integers(0, mX))] * (A[0, j] / A[0, j].real if A[0, j].real else 1)
            form = pick_form(rng, True)
            c, d = complex(float(rng.choice([-3, -2, 2, 3]))), complex(float(rng.choice([-3, -1, 2])))
        R.mac(dict(kind="mac", X=cmat(X), A=cmat(A), c=[c.real, c.imag], d=[d.real, d.imag], form=form))
    for k in range(ctx.n(70, 400)):  # MSF(v, r v): integer v, non-integer r with r v integer-valued (a truncating store shows)
        n = int(rng.integers(2, 13))
        den = int(rng.choice([2, 4, 8]))
        num = int(rng.choice([-5, -3, -1, 1, 3, 5, 7]))
        v = den * int_vec(n, -4, 4)
        form = pick_form(rng, True)
        if k % 3 == 0:
            form["dt2"] = form["dt"]
        R.msf(dict(kind="msf", tag="int-forms", v=cv(v), r=num / den, form=form))
    for k in range(ctx.n(30, 150)):  # general integer pairs: the quotient is not an integer
        n = int(rng.integers(2, 13))
        x, y = int_vec(n), int_vec(n)
        R.msf(dict(kind="msf", tag="int-pair", v=cv(x), y=cv(y), kappa=1.0, form=pick_form(rng, True)))
    for k in range(ctx.n(12, 60)):  # sets of integer columns through the 2-D forms of MCF / MSF
        n, m = int(rng.integers(2, 13)), int(rng.integers(1, 5))
        X = np.stack([2 * int_vec(n, -4, 4) for _ in range(m)], axis=1).astype(complex)
        r = rng.choice([-1.5, -0.5, 0.5, 1.5, 2.5], size=m)
        R.columns(dict(kind="columns", X=cmat(X), r=r.tolist(), form=pick_form(rng, True)))
    # ---- large sets (QUICK too): sizes around the multiples of 256, few components
    sizes = [(1, 257), (2, 1100), (3, 300), (257, 2), (300, 255), (256, 257), (257, 256), (1100, 1), (513, 3), (255, 300), (2, 513), (1, 1)]
    if not ctx.quick():
        sizes += [(513, 300), (300, 1100), (1100, 257), (257, 513), (255, 256), (256, 255), (2, 2)]
    for k, (mX, mA) in enumerate(sizes):
        R.large(dict(kind="large", seed=int(rng.integers(0, 2**31)), n=int(rng.integers(2, 5)), mX=mX, mA=mA))
    for m in ([257, 300, 513] if ctx.quick() else [2, 255, 256, 257, 300, 513, 1100]):
        R.many_modes(dict(kind="many-modes", seed=int(rng.integers(0, 2**31)), n=int(rng.integers(2, 6)), m=m))
    # ---- call forms: positional (pristine parameter order) against keyword (pristine names), sets of different sizes
    for k in range(ctx.n(12, 60)):
        n = int(rng.integers(3, 10))
        mX = int(rng.integers(1, 5))
        mA = int(rng.choice([m for m in range(1, 6) if m != mX]))

        def col():
            while True:
                z = gauss(rng, n) + (1 + 1j) / 16.0
                if abs(np.dot(z, z)) >= 1e-2 * np.vdot(z, z).real:  # away from the known MSF finding (v^T v = 0)
                    return z

        X = np.stack([col() for _ in range(mX)], axis=1)
        A = np.stack([col() for _ in range(mA)], axis=1)
        if k % 3 == 0:  # a column of A collinear with a column of X
            A[:, -1] = scale_factor(rng) * X[:, int(rng.integers(0, mX))]
        r = rng.choice([-2.5, -1.5, -0.5, 0.5, 1.5, 2.5, 4.0], size=mX) * 2.0 ** rng.integers(-3, 4, size=mX)
        r[np.abs(np.abs(r) - 1) < 0.2] = 3.0  # |r| well away from 1: MSF(r v, v) = 1/r differs from r
        c = scale_factor(rng)
        R.callforms(dict(kind="callforms", X=cmat(X), A=cmat(A), r=r.tolist(), c=[c.real, c.imag], y=cv(col())))
    R.flush()
