"""C09 - hard validation criteria.  Model: coq/Model/M_hc.v; theorems: coq/Properties/C09.v.

Correspondence: the six classes (SSIcov with/without uncertainties, SSIdat, SSIcov_MS, SSIdat_MS, pLSCF, pLSCF_MS) are run
through SingleSetup / MultiSetup_PreGER on small noisy records with random criteria; the UNFILTERED tables are rebuilt with
the library's own pipeline functions on the data the setup handed to the algorithm; gen.MPC / gen.MPD give the indicator
value of every unfiltered shape; tables + indicators + criteria go to the Coq model (run_ssi / run_pl), whose output must
equal algorithm.result.* exactly (NaN pattern and every surviving value).  A second stream compares the gen.HC_* /
gen.applymask functions with the model functions on synthetic tables (exact zeros, conjugates in another order, ties).
Oracle: the property text in NumPy on the same runs.
Indicators instantiated (Model/M_hc_inst.v): gen.MPC / gen.MPD of synthetic shapes and of shapes taken from the class runs, and of
their conjugates, against mpc_inst / mpd_terms_at (the singular vector comes from this harness' own numpy.linalg.svd call); the
table-structure hypotheses of C09_conj_closed_*_inst (Xi is the damping of Lambds; mirror images) are evaluated on the unfiltered
tables of every configuration and, where they hold, conjugate closure of the result is demanded without any margin.
Order axis: the gen.HC_* / gen.applymask sequence of the run() methods is driven directly with tables restricted to order
columns 0, step, 2*step, ... (strided views), to gaps, permutations and repetitions, against run_ssi / run_pl of (sel_ssi / sel_pl).
"""
import glob
import json
import math
import os
from fractions import Fraction

import numpy as np
from scipy import signal

from common import VERIF, clist, parse_q, qc, qc_c, qq
from pyoma2.algorithms import SSIcov, SSIcov_MS, SSIdat, SSIdat_MS, pLSCF, pLSCF_MS
from pyoma2.functions import fdd, gen, plscf, ssi
from pyoma2.setup import MultiSetup_PreGER, SingleSetup

HEADER = "From PyOMA.Model Require Import M_hc."
HEADER_INST = "From PyOMA.Model Require Import M_indicators M_hc M_hc_inst."
PRIV_RNG = [None]  # generator of the instantiated-indicator / order-axis streams, derived from the seed in run()
MIRROR_JOBS = []  # (Coq expression of mirror_ssib / mirror_plb on the unfiltered tables of a configuration, case, NumPy reading)
REAL_SHAPES = []  # shapes of the unfiltered tables of the class runs (filled by run_config, read by inst_stream)
REL = 1e-9
CLASSES = {"SSIcov": SSIcov, "SSIdat": SSIdat, "SSIcov_MS": SSIcov_MS, "SSIdat_MS": SSIdat_MS, "pLSCF": pLSCF, "pLSCF_MS": pLSCF_MS}
FS = 32.0


# ----------------------------------------------------------------------------------------------- data
def synth(seed, n, nch, noise, kind="modes", alt=0.0, xi1=None):
    """Small noisy multi-mode record, fully determined by its arguments (replayable).
    alt > 0 adds a component with a NEGATIVE REAL discrete pole (its continuous eigenvalue (ln r + i pi)/dt has no conjugate in the
    table): an AR(1) process with coefficient -0.9 for the noisy kinds, a decaying alternating transient for kind 'free'.
    kind 'free': noise-free free response of two modes, the first one almost undamped (damping ratio xi1)."""
    rng = np.random.default_rng([int(seed), 909])
    if kind == "free":
        k = np.arange(n) / FS
        out = np.zeros((n, nch))
        for f, xi in ((3.0, float(xi1 if xi1 is not None else 6e-9)), (7.3, 0.02)):
            w = 2 * np.pi * f
            out += np.outer(np.exp(-xi * w * k) * np.cos(w * np.sqrt(1 - xi * xi) * k + rng.random()), rng.standard_normal(nch))
        if alt:
            out += np.outer(alt * (-0.97) ** np.arange(n), rng.standard_normal(nch))
        return out
    out = np.zeros((n, nch))
    modes = [(2.0 + 9.0 * rng.random(), 0.01 + 0.05 * rng.random()) for _ in range(int(rng.integers(2, 4)))]
    for (f, xi) in modes:
        w = 2 * np.pi * f
        b, a = signal.bilinear([1.0], [1.0, 2 * xi * w, w * w], FS)
        y = signal.lfilter(b, a, rng.standard_normal(n + 200))[200:]
        out += np.outer(y / y.std(), rng.standard_normal(nch))
    out += noise * rng.standard_normal((n, nch))
    if kind == "dupchan" and nch >= 2:
        out[:, -1] = out[:, 0]  # rank-deficient: a duplicated channel
    if kind == "deadchan" and nch >= 2:
        out[:, -1] = 0.0  # a dead channel: zero mode-shape component
    if kind == "white":
        out = rng.standard_normal((n, nch))
    if alt:
        rng2 = np.random.default_rng([int(seed), 910])
        y = signal.lfilter([1.0], [1.0, 0.9], rng2.standard_normal(n + 200))[200:]
        out = out + np.outer(alt * y / y.std(), rng2.standard_normal(nch))
    return out


def build_setup(spec):
    """spec -> setup object (data fully determined by the spec)."""
    cls = spec["cls"]
    fs = float(spec.get("fs", FS))
    args = (spec.get("kind", "modes"), float(spec.get("alt", 0.0)), spec.get("xi1"))
    if cls.endswith("_MS"):
        nref, nmov = spec["nref"], spec["nmov"]
        full = synth(spec["seed"], spec["n"], nref + 2 * nmov, spec["noise"], *args)
        d1 = full[:, : nref + nmov]
        d2 = np.c_[full[:, :nref], full[:, nref + nmov:]]
        if spec.get("n2"):
            d2 = d2[: spec["n2"]]
        setup = MultiSetup_PreGER(fs=fs, ref_ind=[list(range(nref)), list(range(nref))], datasets=[d1, d2])
    else:
        data = synth(spec["seed"], spec["n"], spec["nch"], spec["noise"], *args)
        setup = SingleSetup(data, fs=fs)
    return setup


def eff_method(spec):
    """Hankel method in effect: the run parameter `method` when given, else the class default (SSIdat*: dat, SSIcov*: cov_mm)."""
    return spec.get("method") or ("dat" if "dat" in spec["cls"] else "cov_mm")


def alg_kwargs(spec):
    cls = spec["cls"]
    if cls.startswith("pLSCF"):
        kw = dict(ordmax=spec["ordmax"], nxseg=spec["nxseg"], method_SD=spec["method"], pov=spec.get("pov", 0.5))
        if spec.get("ordmin") is not None:
            kw["ordmin"] = spec["ordmin"]
        return kw
    kw = dict(br=spec["br"], ordmax=spec["ordmax"])
    if spec.get("ordmin") is not None:
        kw["ordmin"] = spec["ordmin"]
    if spec.get("method") is not None:  # the run parameter overrides the class default, for every SSI class
        kw["method"] = spec["method"]
    if cls in ("SSIcov", "SSIdat"):
        if spec.get("ref_ind") is not None:
            kw["ref_ind"] = spec["ref_ind"]
        if spec.get("calc_unc"):
            kw["calc_unc"] = True
            kw["nb"] = spec["nb"]
    return kw


def as_user(rng, d):
    """A criteria dict as a user may legally write it: keys in any order (e.g. alphabetical, as json.dumps(sort_keys=True) gives),
    now and then an int where a float is documented (xi_max=1, mpc_lim=0).  The harness judges by KEY against its own values."""
    keys = list(d)
    r = rng.random()
    if r < 0.25:
        keys = sorted(keys)
    elif r < 0.4:
        keys = sorted(keys, reverse=True)
    else:
        keys = [keys[i] for i in rng.permutation(len(keys))]
    out = {}
    for k in keys:
        v = d[k]
        if isinstance(v, float) and v == int(v) and abs(v) < 1e6 and rng.random() < 0.5:
            v = int(v)
        out[k] = v
    # value FORMS the library accepts for one and the same value (established on the unchanged tree: the hc dict is stored
    # unvalidated; every form below runs and gives the same tables): bool / np.bool_ / 0-1 int;  float-or-int / np.float64 / 0-d array
    forms = {}
    for k in out:
        r = rng.random()
        if k == "conj":
            forms[k] = "plain" if r < 0.4 else ("np.bool_" if r < 0.7 else "int")
        elif k in ("xi_max", "mpc_lim", "mpd_lim", "cov_max"):
            forms[k] = "plain" if r < 0.5 else ("np.float64" if r < 0.75 else "array0")
    if forms:
        out["_forms"] = forms
    return out


def keys_of(hc):
    return [k for k in hc if k != "_forms"]


def lib_hc(hc):
    """The dict actually handed to the library: key order of hc, each value in the form recorded under hc['_forms']."""
    f = hc.get("_forms") or {}
    out = {}
    for k, v in hc.items():
        if k == "_forms":
            continue
        form = f.get(k, "plain")
        if k == "conj":
            out[k] = np.bool_(bool(v)) if form == "np.bool_" else (int(bool(v)) if form == "int" else v)
        else:
            out[k] = np.float64(v) if form == "np.float64" else (np.array(float(v)) if form == "array0" else v)
    return out


def uniform_forms(hc, which):
    f = {}
    for k in keys_of(hc):
        if k == "conj":
            f[k] = {"plain": "plain", "numpy": "np.bool_", "intarr": "int"}[which]
        else:
            f[k] = {"plain": "plain", "numpy": "np.float64", "intarr": "array0"}[which]
    return dict({k: hc[k] for k in keys_of(hc)}, _forms=f)


def formv(rng, v):
    """One limit value in a random accepted form (function-level stream)."""
    r = rng.random()
    if r < 0.4:
        return v, "float"
    if r < 0.6:
        return np.float64(v), "np.float64"
    if r < 0.8:
        return np.array(float(v)), "array0"
    return (int(v), "int") if float(v) == int(v) else (np.float64(v), "np.float64")


def rand_sc(rng):
    return as_user(rng, dict(err_fn=float(rng.choice([0.01, 0.05, 1.0])), err_xi=float(rng.choice([0.05, 0.1])), err_phi=float(rng.choice([0.03, 0.1, 1.0]))))


def run_class(setup, spec, hc, tag, sc=None):
    kw = alg_kwargs(spec)
    if sc is not None:
        kw["sc"] = dict(sc)
    alg = CLASSES[spec["cls"]](name=tag, hc=lib_hc(hc), **kw)  # key order and value forms of hc
    setup.add_algorithms(alg)
    setup.run_by_name(tag)
    return alg


def unfiltered(alg, spec):
    """The pole tables before any hard criterion, from the library's own pipeline functions on the algorithm's data."""
    cls = spec["cls"]
    if cls in ("SSIcov", "SSIdat"):
        Y = alg.data.T
        method = eff_method(spec)
        unc = bool(spec.get("calc_unc"))
        Yref = Y[spec["ref_ind"], :] if spec.get("ref_ind") is not None else Y
        H, T = ssi.build_hank(Y=Y, Yref=Yref, br=spec["br"], method=method, calc_unc=unc, nb=spec.get("nb", 100))
        Obs, A, C, Q1, Q2, Q3, Q4 = ssi.SSI_fast(H, spec["br"], spec["ordmax"], step=1, calc_unc=unc, T=T, nb=spec.get("nb", 100))
        Fn, Xi, Phi, Lam, FnC, XiC, PhiC = ssi.SSI_poles(Obs, A, C, spec["ordmax"], alg.dt, step=1, calc_unc=unc, Q1=Q1, Q2=Q2, Q3=Q3, Q4=Q4)
    elif cls in ("SSIcov_MS", "SSIdat_MS"):
        method = eff_method(spec)
        Obs, A, C = ssi.SSI_multi_setup(alg.data, alg.fs, spec["br"], spec["ordmax"], step=1, method_hank=method)
        Fn, Xi, Phi, Lam, FnC, XiC, PhiC = ssi.SSI_poles(Obs, A, C, spec["ordmax"], alg.dt, step=1, calc_unc=False)
    else:
        sgn = -1 if spec["method"] == "per" else +1
        if cls == "pLSCF":
            Y = alg.data.T
            _, Sy = fdd.SD_est(Y, Y, alg.dt, spec["nxseg"], method=spec["method"], pov=spec.get("pov", 0.5))
        else:
            _, Sy = fdd.SD_PreGER(alg.data, alg.fs, nxseg=spec["nxseg"], method=spec["method"], pov=spec.get("pov", 0.5))
        Ad, Bn = plscf.pLSCF(Sy, alg.dt, spec["ordmax"], sgn_basf=sgn)
        Fn, Xi, Phi, Lam = plscf.pLSCF_poles(Ad, Bn, alg.dt, nxseg=spec["nxseg"], methodSy=spec["method"])
        FnC = XiC = PhiC = None
    return dict(Fn=np.array(Fn, float), Xi=np.array(Xi, float), Phi=np.array(Phi, complex), Lam=np.array(Lam, complex),
                FnC=None if FnC is None else np.array(FnC, float), XiC=None if XiC is None else np.array(XiC, float),
                PhiC=None if PhiC is None else np.array(PhiC, float))


def result_tables(alg, spec):
    r = alg.result
    t = dict(Fn=r.Fn_poles, Xi=r.Xi_poles, Phi=r.Phi_poles)
    if not spec["cls"].startswith("pLSCF"):
        t.update(Lam=r.Lambds, FnC=r.Fn_poles_cov, XiC=r.Xi_poles_cov, PhiC=r.Phi_poles_cov)
    return {k: (None if v is None else np.array(v, copy=True)) for k, v in t.items()}


def indicator(f, v):
    """gen.MPC / gen.MPD of one shape as HC_phi_comp sees it: None when it is nan or raises."""
    try:
        x = f(v)
    except Exception:
        return None
    x = complex(x)
    if x != x or math.isinf(x.real) or x.imag != 0:
        return None
    return float(x.real)


def indicators(Phi):
    nr, nc, _ = Phi.shape
    mpc = [[indicator(gen.MPC, Phi[i, o, :]) for o in range(nc)] for i in range(nr)]
    mpd = [[indicator(gen.MPD, Phi[i, o, :]) for o in range(nc)] for i in range(nr)]
    return mpc, mpd


# ----------------------------------------------------------------------------------------------- Coq terms
def fin(x):
    return not (x != x) and not math.isinf(x)


def oq(x):
    return "(Some %s)" % qq(float(x)) if (x is not None and fin(float(x))) else "None"


def oc(z):
    z = complex(z)
    return "(Some (%s, %s))" % (qq(z.real), qq(z.imag)) if (fin(z.real) and fin(z.imag)) else "None"


def oc_qc(z):
    z = complex(z)
    return "(Some %s)" % qc_c(z) if (fin(z.real) and fin(z.imag)) else "None"


def t2(a, f=oq):
    return clist([clist([f(x) for x in row]) for row in a])


def cdef(Phi):
    """definedness of a 3-D table per (row, order): True when every channel is finite (unfiltered tables are all-or-nothing)."""
    ok = np.isfinite(Phi.real) & np.isfinite(np.asarray(Phi).imag)
    return ok.all(axis=2), ok.any(axis=2)


def bools(m):
    return clist([clist(["true" if b else "false" for b in row]) for row in m])


def hc_term(hc):
    return "{| hc_conj_on := %s; hc_xi_max := %s; hc_mpc_lim := %s; hc_mpd_lim := %s; hc_cov_max := %s |}" % (
        "true" if hc["conj"] else "false", qq(hc["xi_max"]), qq(hc["mpc_lim"]), qq(hc["mpd_lim"]), qq(hc.get("cov_max", 1.0)))


def coq_case(U, mpc, mpd, hc, pl):
    nr, nc, nch = U["Phi"].shape
    dall, _ = cdef(U["Phi"])
    phi = "(tok_tbl3 %d %d %d %s)" % (nr, nc, nch, bools(dall))
    flat = lambda t: clist([oq(x) for row in t for x in row])
    if pl:
        s = "{| pFn := %s; pXi := %s; pPhi := %s; pLam := %s |}" % (t2(U["Fn"]), t2(U["Xi"]), phi, t2(U["Lam"], oc))
        return "eval_pl %d %s %s %s %s" % (nch, flat(mpc), flat(mpd), hc_term(hc), s)
    opt = lambda t, f=oq: "None" if t is None else "(Some %s)" % t2(t, f)
    if U["PhiC"] is None:
        phic = "None"
    else:
        dc, _ = cdef(U["PhiC"].astype(complex))
        phic = "(Some (tok_tbl3 %d %d %d %s))" % (nr, nc, nch, bools(dc))
    s = "{| sFn := %s; sXi := %s; sPhi := %s; sLam := %s; sFnC := %s; sXiC := %s; sPhiC := %s |}" % (
        t2(U["Fn"]), t2(U["Xi"]), phi, t2(U["Lam"], oc), opt(U["FnC"]), opt(U["XiC"]), phic)
    return "eval_ssi %d %s %s %s %s" % (nch, flat(mpc), flat(mpd), hc_term(hc), s)


def p2(s):
    return [[parse_q(x) for x in row.split(" ")] if row.strip() else [] for row in s.split(";")] if s.strip() else []


def p2c(s):
    out = []
    for row in (s.split(";") if s.strip() else []):
        r = []
        for x in (row.split(" ") if row.strip() else []):
            if x == "nan":
                r.append(None)
            else:
                a, b = x.split(",")
                r.append((parse_q(a), parse_q(b)))
        out.append(r)
    return out


def p3(s):
    return [[[None if e == "nan" else int(e) for e in cellv.split(",")] for cellv in row.split(" ")] for row in s.split(";")] if s.strip() else []


# ----------------------------------------------------------------------------------------------- comparison
def same_float(a, b):
    return (a != a and b != b) or a == b


def cmp2(name, model, R, errs):
    """model: rows of Fraction|None; R: float array."""
    if R is None or [len(r) for r in model] != [R.shape[1]] * R.shape[0]:
        errs.append("%s: shape %s vs model %s" % (name, None if R is None else R.shape, [len(r) for r in model][:3]))
        return
    for i, row in enumerate(model):
        for o, m in enumerate(row):
            x = float(R[i, o])
            if m is None:
                if x == x:
                    errs.append("%s[%d,%d]: implementation keeps %r, model blanks" % (name, i, o, x))
            elif x != x:
                errs.append("%s[%d,%d]: implementation blanks, model keeps %s" % (name, i, o, float(m)))
            elif not fin(x) or Fraction(x) != m:
                errs.append("%s[%d,%d]: value %r != model %s" % (name, i, o, x, float(m)))


def cmp2c(name, model, R, errs):
    if R is None or [len(r) for r in model] != [R.shape[1]] * R.shape[0]:
        errs.append("%s: shape mismatch" % name)
        return
    for i, row in enumerate(model):
        for o, m in enumerate(row):
            z = complex(R[i, o])
            isn = z != z
            if m is None:
                if not isn:
                    errs.append("%s[%d,%d]: implementation keeps %r, model blanks" % (name, i, o, z))
            elif isn:
                errs.append("%s[%d,%d]: implementation blanks, model keeps" % (name, i, o))
            elif not (fin(z.real) and fin(z.imag)) or (Fraction(z.real), Fraction(z.imag)) != m:
                errs.append("%s[%d,%d]: value %r != model" % (name, i, o, z))


def cmp3(name, model, R, U3, errs):
    """model: tokens; token t stands for entry U3.flat[t] of the unfiltered table."""
    if R is None or R.shape != U3.shape or len(model) != R.shape[0] or any(len(r) != R.shape[1] for r in model):
        errs.append("%s: shape %s vs unfiltered %s" % (name, None if R is None else R.shape, U3.shape))
        return
    flatU = U3.reshape(-1)
    for i, row in enumerate(model):
        for o, v in enumerate(row):
            if len(v) != R.shape[2]:
                errs.append("%s[%d,%d]: channel count" % (name, i, o))
                continue
            for k, tok in enumerate(v):
                z = complex(R[i, o, k])
                if tok is None:
                    if z == z:
                        errs.append("%s[%d,%d,%d]: implementation keeps %r, model blanks" % (name, i, o, k, z))
                else:
                    u = complex(flatU[tok])
                    if tok != (i * R.shape[1] + o) * R.shape[2] + k or not (same_float(z.real, u.real) and same_float(z.imag, u.imag)):
                        errs.append("%s[%d,%d,%d]: value %r is not the unfiltered entry %r" % (name, i, o, k, z, u))



def _cell_of(err):
    import re
    m = re.search(r"\[(\d+),(\d+)", err)
    return (int(m.group(1)), int(m.group(2))) if m else None


def margin_cells(U, hc, pl):
    """cells of the unfiltered tables whose fate hangs on a margin: an indicator within relative 1e-9 of its threshold, or a covariance of exactly 0"""
    out = set()
    try:
        mpc, mpd = indicators(U["Phi"])
        Fn, Xi = U["Fn"], U["Xi"]
        FnC = None if pl else U.get("FnC")
        f = lambda v, d: float(hc.get(v, d))
        for i in range(Fn.shape[0]):
            for o in range(Fn.shape[1]):
                if Fn[i, o] != Fn[i, o]:
                    continue
                x = float(Xi[i, o])
                hit = near(x, f("xi_max", 0.1)) or abs(x) <= 1e-300
                for v, t in ((mpc[i][o], f("mpc_lim", 0.7)), (mpd[i][o], f("mpd_lim", 0.3))):
                    if v is not None and v == v and near(float(v), t):
                        hit = True
                if FnC is not None:
                    c = float(FnC[i, o])
                    if c == 0 or (c == c and near(c, f("cov_max", 1.0))):
                        hit = True
                if hit:
                    out.add((i, o))
    except Exception:
        return set()
    return out


def compare_model(out, R, U, pl):
    parts = out.split("|")
    errs = []
    if parts[0] != "T":
        errs.append("tables handed to the masks do not share one shape (wf = %s)" % parts[0])
    cmp2("Fn_poles", p2(parts[1]), R["Fn"], errs)
    cmp2("Xi_poles", p2(parts[2]), R["Xi"], errs)
    cmp3("Phi_poles", p3(parts[3]), R["Phi"], U["Phi"], errs)
    if not pl:
        cmp2c("Lambds", p2c(parts[4]), R["Lam"], errs)
        for nm, key, prs in (("Fn_poles_cov", "FnC", parts[5]), ("Xi_poles_cov", "XiC", parts[6])):
            if prs == "none":
                if R[key] is not None:
                    errs.append("%s: implementation returns a table, model none" % nm)
            else:
                cmp2(nm, p2(prs), R[key], errs)
        if parts[7] == "none":
            if R["PhiC"] is not None:
                errs.append("Phi_poles_cov: implementation returns a table, model none")
        else:
            cmp3("Phi_poles_cov", p3(parts[7]), None if R["PhiC"] is None else R["PhiC"].astype(complex), U["PhiC"].astype(complex), errs)
    return errs


# ----------------------------------------------------------------------------------------------- oracle (property text)
def near(x, t):
    return abs(x - t) <= REL * max(abs(x), abs(t))


def oracle(U, R, mpc, mpd, hc, pl):
    """Property text on the implementation.  Returns (list of (what, site), not_judged)."""
    bad, nj = [], 0
    Fn, Xi, Lam = U["Fn"], U["Xi"], U["Lam"]
    nr, nc = Fn.shape
    for k, v in R.items():
        if v is not None and (v.shape[:2] != (nr, nc)):
            return [("result table %s has shape %s, unfiltered solution %s" % (k, v.shape, (nr, nc)), "shape")], 0
    lamU = {}
    for i in range(nr):
        for o in range(nc):
            z = complex(Lam[i, o])
            if z == z:
                lamU.setdefault(z, []).append((i, o))
    cov_on = (not pl) and U["FnC"] is not None
    status = np.zeros((nr, nc), int)  # +1 definitely satisfies, -1 definitely violates, 0 not judged
    why = {}
    for i in range(nr):
        for o in range(nc):
            viol, und = [], False
            if Fn[i, o] != Fn[i, o]:
                status[i, o] = -1
                why[(i, o)] = ["not a pole of the unfiltered solution"]
                continue
            if hc["conj"]:
                z = complex(Lam[i, o])
                if not (z == z and z.conjugate() in lamU):
                    viol.append("conjugate absent")
            x = Xi[i, o]
            if not (x == x):
                viol.append("damping nan")
            else:
                if near(x, hc["xi_max"]) or abs(x) <= 1e-300:
                    und = True
                elif not (0 < x < hc["xi_max"]):
                    viol.append("damping %g outside (0, %g)" % (x, hc["xi_max"]))
            for nm, val, lim, ok in (("MPC", mpc[i][o], hc["mpc_lim"], lambda a, b: a >= b), ("MPD", mpd[i][o], hc["mpd_lim"], lambda a, b: a <= b)):
                if val is None:
                    viol.append("%s nan" % nm)
                elif near(val, lim):
                    und = True
                elif not ok(val, lim):
                    viol.append("%s %g vs limit %g" % (nm, val, lim))
            if cov_on:
                c = U["FnC"][i, o]
                if c != c:
                    viol.append("covariance nan")
                elif near(c, hc["cov_max"]):
                    und = True
                elif not (c < hc["cov_max"]):
                    viol.append("covariance %g >= %g" % (c, hc["cov_max"]))
            status[i, o] = -1 if viol else (0 if und else 1)
            why[(i, o)] = viol
            if not viol and und:
                nj += 1
    alive = ~np.isnan(R["Fn"])
    # (1) soundness, (2) completeness with unchanged values
    names2 = [("Fn", "Fn_poles"), ("Xi", "Xi_poles")] + ([] if pl else [("Lam", "Lambds"), ("FnC", "Fn_poles_cov"), ("XiC", "Xi_poles_cov")])
    for i in range(nr):
        for o in range(nc):
            if alive[i, o] and status[i, o] == -1:
                bad.append(("pole (row %d, order col %d) is left in Fn_poles but violates: %s" % (i, o, "; ".join(why[(i, o)])), "sound:" + why[(i, o)][0].split(" ")[0]))
            if status[i, o] == 1:
                if not alive[i, o]:
                    bad.append(("pole (row %d, col %d) satisfies every enabled criterion but was removed" % (i, o), "complete"))
                    continue
                for key, nm in names2:
                    if R.get(key) is None:
                        if U.get(key) is not None:
                            bad.append(("%s missing from the result" % nm, "missing-table"))
                        continue
                    a, b = complex(R[key][i, o]), complex(U[key][i, o])
                    if not (same_float(a.real, b.real) and same_float(a.imag, b.imag)):
                        if key == "FnC" and b == 0:
                            continue  # the documented x*mask idiom: an exact zero covariance
                        bad.append(("%s of the surviving pole (row %d, col %d) changed from %r to %r" % (nm, i, o, b, a), "value:" + nm))
                a, b = R["Phi"][i, o, :], U["Phi"][i, o, :]
                if not all(same_float(x.real, y.real) and same_float(x.imag, y.imag) for x, y in zip(a, b)):
                    bad.append(("Phi_poles of the surviving pole (row %d, col %d) changed" % (i, o), "value:Phi_poles"))
    # (3) one NaN pattern (Phi_poles_cov is never computed by SSI_poles - all-nan before any criterion - and is left out)
    pats = {"Fn_poles": alive, "Xi_poles": ~np.isnan(R["Xi"])}
    ph = ~np.isnan(R["Phi"])
    if (ph.all(axis=2) != ph.any(axis=2)).any():
        bad.append(("a mode shape is blanked in some channels only", "joint:Phi-partial"))
    pats["Phi_poles"] = ph.any(axis=2)
    if not pl:
        pats["Lambds"] = ~np.isnan(R["Lam"])
        for key, nm in (("FnC", "Fn_poles_cov"), ("XiC", "Xi_poles_cov")):
            if R.get(key) is not None:
                pats[nm] = ~np.isnan(R[key])
    for nm, p in pats.items():
        d = p != alive
        if nm == "Fn_poles_cov" and d.any():
            d = d & ~((U["FnC"] == 0) & alive)
        if d.any():
            i, o = np.argwhere(d)[0]
            bad.append(("%s and Fn_poles have different NaN patterns, e.g. at (row %d, col %d)" % (nm, i, o), "joint:" + nm))
    # (4) conjugates read on the RESULT: the conjugate of every surviving pole survives (partners lost on a margin are not judged)
    if hc["conj"]:
        for i in range(nr):
            for o in range(nc):
                if alive[i, o] and status[i, o] != -1:
                    z = complex(Lam[i, o])
                    partners = lamU.get(z.conjugate(), []) if z == z else []
                    if partners and not any(alive[p] for p in partners):
                        if any(status[p] == 0 for p in partners):
                            nj += 1
                        else:
                            bad.append(("pole (row %d, col %d) survives but every occurrence of its conjugate was removed: %s" % (i, o, why[partners[0]]), "conj-partner-removed"))
    return bad, nj


# ----------------------------------------------------------------------------------------------- generators
def quant(vals, q, rng, tie):
    vals = np.sort(np.asarray([v for v in vals if v is not None and v == v and math.isfinite(v)], float))
    if len(vals) == 0:
        return None
    if tie:
        return float(vals[int(rng.integers(0, len(vals)))])
    k = min(len(vals) - 1, max(0, int(q * len(vals))))
    if k + 1 < len(vals) and vals[k + 1] > vals[k]:
        return float((vals[k] + vals[k + 1]) / 2)
    return float(vals[k]) * (1 + 1e-3)


def gen_hc(rng, U, mpc, mpd, mode):
    """Criteria record; thresholds are placed at quantiles of the unfiltered values so that they bite."""
    pl = U["FnC"] is None and U.get("_pl", False)
    hc = dict(conj=bool(rng.random() < 0.65), xi_max=1.0, mpc_lim=0.0, mpd_lim=float(np.pi / 2), cov_max=1e300)
    if mode == "neutral":
        hc.update(conj=False, xi_max=2.0, mpc_lim=-1.0, mpd_lim=10.0, cov_max=1.7e308)
        return hc
    if mode == "default":
        return dict(conj=True, xi_max=0.1, mpc_lim=0.7, mpd_lim=0.3, cov_max=0.2)
    if mode == "conjonly":  # only the conjugate criterion can reject: poles on the negative real discrete axis must go
        return dict(conj=True, xi_max=1.0, mpc_lim=0.0, mpd_lim=float(np.pi / 2), cov_max=1e300)
    if mode == "malformed":
        hc.update(xi_max=float(rng.choice([0.0, -0.1, 1.5, 0.05])), mpc_lim=float(rng.choice([1.5, 1.0, 0.5, -1.0])),
                  mpd_lim=float(rng.choice([0.0, -1.0, 0.2, 3.0])), cov_max=float(rng.choice([0.0, -1.0, 1e-12, 1.0])))
        return hc
    xi = [x for x in U["Xi"].ravel() if x > 0]
    flat = lambda t: [x for row in t for x in row]
    which = set(rng.choice(["xi", "mpc", "mpd", "cov"], size=int(rng.integers(1, 5)), replace=False).tolist())
    if mode == "cov":
        which = {"cov"} | (which if rng.random() < 0.5 else set())
    tie = lambda: bool(rng.random() < 0.3)
    if "xi" in which:
        v = quant(xi, 0.3 + 0.6 * rng.random(), rng, tie())
        if v is not None:
            hc["xi_max"] = v
    if "mpc" in which:
        v = quant(flat(mpc), 0.1 + 0.6 * rng.random(), rng, tie())
        if v is not None:
            hc["mpc_lim"] = v
    if "mpd" in which:
        v = quant(flat(mpd), 0.3 + 0.6 * rng.random(), rng, tie())
        if v is not None:
            hc["mpd_lim"] = v
    if "cov" in which and U["FnC"] is not None:
        v = quant(U["FnC"].ravel().tolist(), 0.3 + 0.6 * rng.random(), rng, tie())
        if v is not None:
            hc["cov_max"] = v
    return hc


def gen_spec(rng, cls, quick, k):
    spec = dict(cls=cls, seed=int(rng.integers(0, 2**31)), noise=float(rng.choice([0.05, 0.2, 0.5])))
    r = rng.random()
    spec["kind"] = "modes" if r < 0.8 else str(rng.choice(["dupchan", "deadchan", "white"]))
    if cls.startswith("pLSCF"):
        spec.update(ordmax=int(rng.integers(3, 9 if quick else 11)), nxseg=int(rng.choice([64, 128])), method=str(rng.choice(["per", "cor"])),
                    pov=float(rng.choice([0.5, 0.25])), n=int(rng.integers(500, 900)))
    else:
        spec.update(br=int(rng.integers(4, 8)), ordmax=int(rng.integers(5, 11 if quick else 13)), n=int(rng.integers(300, 700)))
        # class x run-parameter method: the run parameter, when given, overrides the class default
        r = rng.random()
        if "cov" in cls:
            spec["method"] = str(rng.choice(["cov_mm", "cov_R"])) if r < 0.65 else (None if r < 0.8 else "dat")
        else:
            spec["method"] = None if r < 0.4 else str(rng.choice(["cov_mm", "cov_R", "dat"]))
        if spec["method"] is None:
            spec.pop("method")
    if cls.endswith("_MS"):
        spec.update(nref=int(rng.integers(1, 3)), nmov=int(rng.integers(1, 3)))
        if rng.random() < 0.4:
            spec["n2"] = int(spec["n"] - rng.integers(10, 100))
    else:
        spec["nch"] = int(rng.integers(2, 5))
        if cls in ("SSIcov", "SSIdat"):
            if rng.random() < 0.4:
                nref = int(rng.integers(1, spec["nch"] + 1))
                spec["ref_ind"] = sorted(rng.choice(spec["nch"], size=nref, replace=False).tolist())
            if (cls == "SSIcov" and k % 2 == 0) or (cls == "SSIdat" and rng.random() < 0.4):
                spec["calc_unc"] = True  # build_hank offers the uncertainty factor for cov_mm only
                if cls == "SSIcov" and rng.random() < 0.3:
                    spec.pop("method", None)  # class default cov_mm
                else:
                    spec["method"] = "cov_mm"  # for SSIdat: the documented run parameter
                spec["nb"] = int(rng.choice([8, 12]))
                spec["ordmax"] = min(spec["ordmax"], 8 if quick else 10)
    # the Hankel matrix must have at least ordmax columns/rows
    if not cls.startswith("pLSCF"):
        nref = len(spec["ref_ind"]) if spec.get("ref_ind") is not None else (spec.get("nref") or spec.get("nch"))
        spec["ordmax"] = int(min(spec["ordmax"], (spec["br"]) * nref))
        spec["ordmax"] = max(spec["ordmax"], 2)
    if rng.random() < 0.45:
        spec["alt"] = float(rng.choice([0.5, 1.0, 2.0]))  # a negative real discrete pole: its conjugate is absent
    if rng.random() < 0.15:
        spec["fs"] = float(rng.choice([2.0 ** -10, 2.0 ** 20]))  # frequencies / covariances at tiny and huge scales
    # ordmin plays no part in the hard criteria (they hold at EVERY order): any value 0..ordmax, biased to >= 3
    lo = min(3, spec["ordmax"]) if rng.random() < 0.7 else 0
    spec["ordmin"] = int(rng.integers(lo, spec["ordmax"] + 1))
    return spec


# ----------------------------------------------------------------------------------------------- function-level stream
def rand_tables(rng, nr, nc, nch, extreme=False):
    """Synthetic unfiltered tables: short dyadics, nan holes, exact zeros, conjugates in another column, repeated values."""
    d = lambda: float(rng.integers(-8, 9)) / 8.0
    Lam = np.full((nr, nc), np.nan, complex)
    for i in range(nr):
        for o in range(nc):
            if rng.random() < 0.8:
                Lam[i, o] = complex(d(), d())
    for _ in range(nr):  # plant conjugates, some in another order
        i, o, i2, o2 = int(rng.integers(nr)), int(rng.integers(nc)), int(rng.integers(nr)), int(rng.integers(nc))
        if Lam[i, o] == Lam[i, o]:
            Lam[i2, o2] = np.conj(Lam[i, o])
    X = np.array([[d() / 2 if rng.random() < 0.85 else np.nan for _ in range(nc)] for _ in range(nr)])
    F = np.array([[abs(d()) if rng.random() < 0.85 else np.nan for _ in range(nc)] for _ in range(nr)])
    if extreme:  # scale extremes: almost undamped poles, tiny / huge covariances and eigenvalues
        tiny = [1e-12, 1e-10, 1e-9, 6e-9, 1e-8, 1e-6]
        scl = [1e-300, 1e-30, 1e-12, 1e-8, 1e8, 1e30, 1e300]
        for i in range(nr):
            for o in range(nc):
                if rng.random() < 0.6 and X[i, o] == X[i, o]:
                    X[i, o] = float(rng.choice(tiny)) * (1.0 if rng.random() < 0.8 else -1.0)
                if rng.random() < 0.6 and F[i, o] == F[i, o]:
                    F[i, o] = float(rng.choice(scl))
        Lam = Lam * float(rng.choice([2.0 ** -60, 2.0 ** 60]))
    P = np.array([[[complex(d(), d()) for _ in range(nch)] if rng.random() < 0.85 else [np.nan] * nch for _ in range(nc)] for _ in range(nr)], complex)
    return Lam, X, F, P


def function_stream(ctx, rng, n):
    exprs, meta = [], []
    for k in range(n):
        nr, nc, nch = int(rng.integers(1, 5)), int(rng.integers(1, 6)), int(rng.integers(2, 4))
        extreme = bool(k % 3 == 1)
        Lam, X, F, P = rand_tables(rng, nr, nc, nch, extreme)
        xmax = float(rng.choice([0.25, 0.5, 0.125, 1.0]))
        cmax = float(rng.choice([0.25, 0.5, 1.0, 0.0]))
        if extreme:
            xmax = float(rng.choice([1e-9, 1e-7, 0.5, 1.0]))
            cmax = float(rng.choice([1e-300, 1e-12, 1.0, 1e8, 1e300]))
        xmax_f, fx_form = formv(rng, xmax)
        cmax_f, fc_form = formv(rng, cmax)
        case = dict(kind="functions", Lam=[[[z.real, z.imag] for z in row] for row in Lam.tolist()], X=X.tolist(), F=F.tolist(), nch=nch, xi_max=xmax, cov_max=cmax,
                    forms=dict(xi_max=fx_form, cov_max=fc_form), extreme=extreme)
        ctx.hist("function-stream limit forms", fx_form)
        ctx.count(case, nontrivial=bool(np.isfinite(X).any()))
        ctx.hist("function-stream shape", (nr, nc))
        # implementation
        args = dict(HC_conj=[Lam.copy()], HC_damp=[X.copy()], HC_cov=[F.copy()], applymask=[F.copy(), P.copy(), Lam.copy()], HC_phi_comp=[P.copy()])
        orig = dict(HC_conj=[Lam], HC_damp=[X], HC_cov=[F], applymask=[F, P, Lam], HC_phi_comp=[P])
        fl, m1 = gen.HC_conj(args["HC_conj"][0])
        fx, m2 = gen.HC_damp(args["HC_damp"][0], xmax_f)
        fc, m5 = gen.HC_cov(args["HC_cov"][0], cmax_f)
        msk = np.asarray(m2).astype(bool).copy()
        msk_arg = msk.copy()
        am = gen.applymask([args["applymask"][0], args["applymask"][1], None, args["applymask"][2]], msk_arg, nch)
        fl, fx, fc = np.array(fl, copy=True), np.array(fx, copy=True), np.array(fc, copy=True)
        am = [None if a is None else np.array(a, copy=True) for a in am]

        def untouched(fn):
            # the functions are filters: the tables (and mask) handed to them must be bit-identical afterwards, otherwise a caller
            # that keeps the unfiltered table (to filter it again with other criteria) silently loses poles
            for a, b in zip(args[fn], orig[fn]):
                if a.shape != b.shape or a.tobytes() != b.tobytes():
                    ctx.fail("correspondence", "gen.%s modifies the array it is given (the model function is pure): filtering the same table again "
                             "with other criteria would start from an already blanked table" % fn, case, key="C09:%s:mutates-input" % fn)
                    return
        for fn in ("HC_conj", "HC_damp", "HC_cov", "applymask"):
            untouched(fn)
        if msk_arg.tobytes() != msk.tobytes():
            ctx.fail("correspondence", "gen.applymask modifies the mask it is given", case, key="C09:applymask:mutates-mask")
        # model
        dall, _ = cdef(P)
        exprs.append("showTC (fst (hc_conj %s)) ++ \"|\" ++ showM (snd (hc_conj %s))" % (t2(Lam, oc), t2(Lam, oc)))
        meta.append(("HC_conj", case, (fl, m1)))
        exprs.append("showT (fst (hc_damp %s %s)) ++ \"|\" ++ showM (snd (hc_damp %s %s))" % (t2(X), qq(xmax), t2(X), qq(xmax)))
        meta.append(("HC_damp", case, (fx, m2)))
        exprs.append("showT (fst (hc_cov %s %s)) ++ \"|\" ++ showM (snd (hc_cov %s %s))" % (t2(F), qq(cmax), t2(F), qq(cmax)))
        meta.append(("HC_cov", case, (fc, m5)))
        impc, impd = indicators(P)
        flatv = lambda t: [x for row in t for x in row]
        lim_c = quant(flatv(impc), rng.random(), rng, bool(rng.random() < 0.4))
        lim_d = quant(flatv(impd), rng.random(), rng, bool(rng.random() < 0.4))
        if lim_c is not None and lim_d is not None:
            m_mpd, m_mpc = gen.HC_phi_comp(args["HC_phi_comp"][0], formv(rng, lim_c)[0], formv(rng, lim_d)[0])
            untouched("HC_phi_comp")
            fl_ = lambda t: clist([oq(x) for x in flatv(t)])
            exprs.append("let mm := hc_phi_comp nat (tok_ind %d %s) (tok_ind %d %s) (tok_tbl3 %d %d %d %s) %s %s in showM (fst mm) ++ \"|\" ++ showM (snd mm)"
                         % (nch, fl_(impc), nch, fl_(impd), nr, nc, nch, bools(dall), qq(lim_c), qq(lim_d)))
            meta.append(("HC_phi_comp", dict(case, P=[[[[z.real, z.imag] for z in v] for v in row] for row in P.tolist()], mpc_lim=lim_c, mpd_lim=lim_d), (m_mpd, m_mpc)))
            want_d = np.array([[impd[i][o] is not None and impd[i][o] <= lim_d for o in range(nc)] for i in range(nr)])
            want_c = np.array([[impc[i][o] is not None and impc[i][o] >= lim_c for o in range(nc)] for i in range(nr)])
            nt = np.array([[not ((impd[i][o] is not None and near(impd[i][o], lim_d)) or (impc[i][o] is not None and near(impc[i][o], lim_c)))
                            for o in range(nc)] for i in range(nr)])  # cells on a threshold are not judged by the property
            gd, gc = np.asarray(m_mpd).astype(bool), np.asarray(m_mpc).astype(bool)
            if gd.shape != want_d.shape or not ((((gd == want_d) & (gc == want_c)) | ~nt).all() or (((gd == want_c) & (gc == want_d)) | ~nt).all()):
                ctx.fail("oracle", "gen.HC_phi_comp: returned masks are not (MPD <= mpd_lim, MPC >= mpc_lim)", meta[-1][1], key="C09:HC_phi_comp:mask")
        exprs.append("showT (applymask %s %s) ++ \"|\" ++ showT3 (applymask3 %s (tok_tbl3 %d %d %d %s)) ++ \"|\" ++ showTC (applymask %s %s)"
                     % (bools(msk), t2(F), bools(msk), nr, nc, nch, bools(dall), bools(msk), t2(Lam, oc)))
        meta.append(("applymask", case, (am, P)))
        # oracle for the functions: the documented meaning of each mask
        want1 = np.array([[(Lam[i, o] == Lam[i, o]) and bool((Lam == np.conj(Lam[i, o])).any()) for o in range(nc)] for i in range(nr)])
        if (np.asarray(m1).astype(bool) != want1).any():
            ctx.fail("oracle", "gen.HC_conj: mask is not 'the entry and its conjugate occur in the table'", case, key="C09:HC_conj:mask")
        tie = lambda A, t: np.isfinite(A) & (np.abs(A - t) <= REL * np.maximum(np.abs(A), abs(t)))  # not judged by the property
        want2 = (X > 0) & (X < xmax)
        if ((msk != want2) & ~tie(X, xmax) & ~tie(X, 0.0)).any():
            ctx.fail("oracle", "gen.HC_damp: mask is not 0 < xi < xi_max", case, key="C09:HC_damp:mask")
        want5 = F < cmax
        if ((np.asarray(m5).astype(bool) != want5) & ~tie(F, cmax)).any():
            ctx.fail("oracle", "gen.HC_cov: mask is not Fn_cov < cov_max", case, key="C09:HC_cov:mask")
        for nm, arr, src in (("Fn_cov", am[0], F), ("Phi", am[1], P), ("Lambds", am[3], Lam)):
            mm = msk if arr.ndim == 2 else np.repeat(msk[:, :, None], nch, axis=2)
            okv = np.where(mm, (arr == src) | (np.isnan(arr) & np.isnan(src)), np.isnan(arr))
            if arr.shape != src.shape or not okv.all():
                ctx.fail("oracle", "gen.applymask: %s is not 'kept where the mask is True, nan elsewhere'" % nm, case, key="C09:applymask:" + nm)
        if am[2] is not None:
            ctx.fail("oracle", "gen.applymask: a None table did not stay None", case, key="C09:applymask:None")
    res = ctx.coq_eval(HEADER, exprs, shard=20, timeout=2700)
    for (fn, case, impl), s in zip(meta, res):
        errs = []
        parts = s.split("|")
        if fn == "HC_phi_comp":
            # the pair of masks, in either order (the call sites apply both; the order of the pair is not observable in a result)
            mod = [[[c == "T" for c in row.split(" ")] for row in prs.split(";")] for prs in parts[:2]]
            imp = [np.asarray(m).astype(bool).tolist() for m in impl]
            if mod != imp and mod != imp[::-1]:
                errs.append("the (MPD, MPC) masks differ from the model")
        elif fn == "applymask":
            am, P = impl
            cmp2("applymask(2-D real)", p2(parts[0]), am[0], errs)
            cmp3("applymask(3-D)", p3(parts[1]), am[1], P, errs)
            cmp2c("applymask(2-D complex)", p2c(parts[2]), am[3], errs)
        else:
            filt, m = impl
            (cmp2c if fn == "HC_conj" else cmp2)(fn + " filtered table", (p2c if fn == "HC_conj" else p2)(parts[0]), np.asarray(filt), errs)
            mm = [[c == "T" for c in row.split(" ")] for row in parts[1].split(";")]
            mi = np.asarray(m).astype(bool)
            if fn == "HC_cov":
                # a covariance of exactly 0 satisfies `< cov_max` by the text; the present code's x*mask idiom cannot tell it from a blanked
                # cell and the model follows the code: such cells are not judged (C09_example_zero_cov)
                try:
                    zero = np.asarray(case["F"], dtype=float) == 0
                except Exception:
                    zero = np.zeros(mi.shape, dtype=bool)
                errs = [e for e in errs if not (_cell_of(e) is not None and zero.shape == mi.shape and zero[_cell_of(e)])]
                if zero.shape == mi.shape and np.shape(mm) == mi.shape:
                    mm = np.where(zero, mi, np.asarray(mm)).tolist()
            if np.asarray(mm).tolist() != mi.tolist():
                errs.append("%s mask differs from the model" % fn)
        if errs:
            ctx.fail("correspondence", "gen.%s differs from the model: %s" % (fn, errs[0]), case, key="C09:%s:corr" % fn)


# ----------------------------------------------------------------------------------------------- main
def run_config(ctx, spec, hcs, exprs, meta, corpus=False):
    """One data set + algorithm configuration, several criteria records."""
    pl = spec["cls"].startswith("pLSCF")
    neutral_ok = True
    try:
        setup = build_setup(spec)
        try:
            alg0 = run_class(setup, spec, dict(conj=False, xi_max=2.0, mpc_lim=-1.0, mpd_lim=10.0, cov_max=1.7e308), "neutral")
        except Exception as e0:
            # the neutral record lies OUTSIDE the documented domains (xi_max in (0,1], mpc_lim in [0,1], mpd_lim in [0,pi/2]): a library that
            # validates them may refuse it.  The widest in-domain record must still run; the unfiltered tables come from the pipeline
            # functions anyway, and every in-domain record below is judged against them.
            neutral_ok = False
            ctx.hist("out-of-domain neutral criteria refused by the library", type(e0).__name__)
            alg0 = run_class(setup, spec, dict(LOOSEST), "loosest")
        U = unfiltered(alg0, spec)
    except Exception as e:  # a configuration the library itself rejects (too short a record, singular system ...)
        ctx.hist("configurations the library rejects", type(e).__name__)
        return
    U["_pl"] = pl
    if not all(np.isfinite(U[k][~np.isnan(U[k])]).all() for k in ("Fn", "Xi", "Lam")):
        ctx.hist("unfiltered tables with infinite entries (read as nan by the model)", spec["cls"])
    mpc, mpd = indicators(U["Phi"])
    st = U["_struct"] = table_structure(U)
    ctx.hist("unfiltered tables: Xi is the damping of Lambds / mirror images / conjugates in the column of their pole",
             "%s: %s/%s/%s" % ("pLSCF*" if pl else "SSI*", st["xi_table"], st["mirror"], st["local"]))
    cells = [(i, o) for i in range(U["Phi"].shape[0]) for o in range(U["Phi"].shape[1]) if np.isfinite(U["Phi"][i, o, :].real).all()]
    for j in PRIV_RNG[0].permutation(len(cells))[:3]:  # a private generator: the streams above see the same random numbers as before
        REAL_SHAPES.append(np.array(U["Phi"][cells[j][0], cells[j][1], :], complex))
    tag = spec["cls"] + ("+unc" if spec.get("calc_unc") else "")
    if not corpus and sum(1 for j in MIRROR_JOBS if j[1]["cls"] == tag) < ctx.n(1, 3) and U["Fn"].size <= 132:
        # the executable form of the mirror-image hypothesis (C09_mirror_structure_sound) evaluated in Coq on these very tables
        t3 = clist([clist([clist([oc_qc(z) for z in v]) for v in row]) for row in U["Phi"]])
        if pl:
            term = "showB (mirror_plb %d %d {| pFn := []; pXi := []; pPhi := %s; pLam := %s |})" % (U["Fn"].shape[0], U["Fn"].shape[1], t3, t2(U["Lam"], oc))
        else:
            term = "showB (@mirror_ssib nat %d %d {| sFn := []; sXi := []; sPhi := %s; sLam := %s; sFnC := %s; sXiC := None; sPhiC := None |})" % (
                U["Fn"].shape[0], U["Fn"].shape[1], t3, t2(U["Lam"], oc), "None" if U["FnC"] is None else "(Some %s)" % t2(U["FnC"]))
        MIRROR_JOBS.append((term, dict(cls=tag, spec={k: v for k, v in spec.items() if not k.startswith("_")}), bool(st["mirror"])))
    ctx.hist("class", spec["cls"] + ("+unc" if spec.get("calc_unc") else ""))
    if not pl:
        ctx.hist("class x method parameter", "%s(method=%s)%s" % (spec["cls"], spec.get("method"), "+unc" if spec.get("calc_unc") else ""))
    ctx.hist("ordmin / ordmax", "%s/%s" % (spec.get("ordmin"), spec["ordmax"]))
    ctx.hist("table shape", U["Fn"].shape)
    if U["PhiC"] is not None and np.isnan(U["PhiC"]).all():
        ctx.note("Phi_poles_cov is all-nan BEFORE any criterion (SSI_poles never fills it, see its FIXME): it cannot share the NaN pattern of the "
                 "other tables; the check compares it with the model (blank in, blank out) and leaves it out of the joint-pattern clause")
    rng = ctx.np_rng
    todo = [("neutral", dict(conj=False, xi_max=2.0, mpc_lim=-1.0, mpd_lim=10.0, cov_max=1.7e308), alg0)] if neutral_ok else [("given", dict(LOOSEST), alg0)]
    for hc in hcs:
        todo.append(("given", hc, None))
    if not corpus:
        if neutral_ok:
            todo.append(("neutral", as_user(rng, dict(conj=False, xi_max=2.0, mpc_lim=-1.0, mpd_lim=10.0, cov_max=1.7e308)), None))
        else:
            todo.append(("given", as_user(rng, dict(LOOSEST)), None))
        for mode in spec.get("_modes", []):
            todo.append((mode, as_user(rng, gen_hc(rng, U, mpc, mpd, mode)), None))
    for j, (mode, hc, alg) in enumerate(todo):
        if pl:
            hc = {k: v for k, v in hc.items() if k != "cov_max"}
        sc = None if (corpus or alg is not None) else rand_sc(rng)
        case = dict(spec={k: v for k, v in spec.items() if not k.startswith("_")}, hc=hc, mode=mode, sc=sc)  # hc, sc: in the key order passed
        ctx.hist("hc key order", "documented" if keys_of(hc) == [k for k in DEFAULT_HC if k in hc] else "other")
        try:
            if alg is None:
                alg = run_class(setup, spec, hc, "a%d" % j, sc)
            R = result_tables(alg, spec)
        except Exception as e:
            exotic = isinstance(hc.get("_forms"), dict) and any(v != "plain" for v in hc["_forms"].values())
            if not in_domain(hc) or (exotic and isinstance(e, (TypeError, ValueError))):
                # refusing values outside the documented domains - or NumPy-scalar / 0-d array / int-for-bool spellings of a value - is the
                # library's right (the property quantifies over the values, inside the domains)
                ctx.hist("out-of-domain criteria refused by the library", type(e).__name__)
                ctx.not_judged += 1
                alg = None
                continue
            ctx.fail("oracle", "%s.run raised %s with criteria %s" % (spec["cls"], type(e).__name__, hc), case, key="C09:%s:raises" % spec["cls"])
            alg = None
            continue
        judge(ctx, case, spec["cls"], U, mpc, mpd, R, hc, pl, exprs, meta, "", mode == "neutral")
        if not corpus and (mode == "conjonly" or (mode not in ("neutral",) and rng.random() < 0.04)):
            # the same VALUES in every other accepted FORM (bool/np.bool_/int; float/np.float64/0-d array): same tables, each judged
            for which in ("plain", "numpy", "intarr"):
                hv = uniform_forms(hc, which)
                cv = dict(case, hc=hv, mode=mode + "/forms:" + which)
                try:
                    Rv = result_tables(run_class(setup, spec, hv, "a%d%s" % (j, which), sc), spec)
                except Exception as e:
                    if which != "plain" and isinstance(e, (TypeError, ValueError)):
                        ctx.hist("value forms refused by input validation", which)   # NumPy / int-for-bool spellings: the library may refuse them
                        ctx.not_judged += 1
                        continue
                    ctx.fail("oracle", "%s.run raised %s with criteria %s given as %s" % (spec["cls"], type(e).__name__, {k: hv[k] for k in keys_of(hv)}, hv["_forms"]),
                             cv, key="C09:%s:forms:raises" % spec["cls"])
                    continue
                ctx.hist("value forms", which)
                judge(ctx, cv, spec["cls"], U, mpc, mpd, Rv, hv, pl, exprs, meta, "forms", False, model=False)
                d = same_tables(R, Rv)
                if d is not None:
                    ctx.fail("correspondence", "%s: the same criteria values passed in two accepted forms (%s / %s) give different %s tables"
                             % (spec["cls"], hc.get("_forms"), hv["_forms"], d), cv, key="C09:%s:forms:differ" % spec["cls"])


def judge(ctx, case, cls, U, mpc, mpd, R, hc, pl, exprs, meta, stage, neutral=False, model=True):
    """Oracle now, model comparison later, for one finished run; hc is the harness's OWN copy of what the user passed."""
    bad, nj = oracle(U, R, mpc, mpd, dict(hc, cov_max=hc.get("cov_max", 1.0)), pl)
    ctx.not_judged += nj
    alive = int((~np.isnan(R["Fn"])).sum())
    total = int((~np.isnan(U["Fn"])).sum())
    ctx.count(case, nontrivial=bool(0 < alive < total) or neutral)
    ctx.hist("surviving fraction", "none" if alive == 0 else ("all" if alive == total else ("<10%" if 10 * alive < total else "%d0%%" % min(9, int(10 * alive / max(total, 1))))))
    ctx.sample(dict(case, poles_unfiltered=total, poles_left=alive), limit=4)
    bad = bad + mirror_oracle(U, R, mpc, mpd, hc)
    for what, site in bad[:3]:
        ctx.fail("oracle", "%s%s: %s" % (cls, " (%s)" % stage if stage else "", what), case, key="C09:%s:%s%s" % (cls, stage + ":" if stage else "", site))
    if model:
        exprs.append(coq_case(U, mpc, mpd, dict(hc, cov_max=hc.get("cov_max", 1.0)), pl))
        meta.append((case, R, U, pl, stage))


def same_tables(R1, R2):
    for k in R1:
        a, b = R1[k], R2.get(k)
        if (a is None) != (b is None):
            return k
        if a is not None and (a.shape != b.shape or not np.array_equal(a, b, equal_nan=True)):
            return k
    return None


# ----------------------------------------------------------------------------------------------- sequences and several objects
NEUTRAL = dict(conj=False, xi_max=2.0, mpc_lim=-1.0, mpd_lim=10.0, cov_max=1.7e308)
LOOSEST = dict(conj=False, xi_max=1.0, mpc_lim=0.0, mpd_lim=float(np.pi / 2), cov_max=1e300)   # the widest record INSIDE the documented domains


def in_domain(hc):
    """xi_max in (0, 1], mpc_lim in [0, 1], mpd_lim in [0, pi/2], cov_max > 0 - the property's quantifier."""
    try:
        return bool(0 < float(hc.get("xi_max", 0.1)) <= 1 and 0 <= float(hc.get("mpc_lim", 0.7)) <= 1
                    and 0 <= float(hc.get("mpd_lim", 0.3)) <= np.pi / 2 * (1 + 1e-12) and float(hc.get("cov_max", 1.0)) > 0)
    except Exception:
        return False
DEFAULT_HC = dict(conj=True, xi_max=0.1, mpc_lim=0.7, mpd_lim=0.3, cov_max=0.2)  # documented defaults of SSIRunParams / pLSCFRunParams
DATA_KEYS = ("seed", "noise", "kind", "n", "nch", "nref", "nmov", "n2", "alt", "fs", "xi1")


def clean(spec):
    return {k: v for k, v in spec.items() if not k.startswith("_")}


def hc_for(spec, hc):
    return {k: v for k, v in hc.items() if not (k == "cov_max" and spec["cls"].startswith("pLSCF"))}


def reference(ctx, spec):
    """Unfiltered tables + indicators for one (data, algorithm) configuration, from a throw-away setup and object."""
    setup = build_setup(spec)
    alg0 = run_class(setup, spec, NEUTRAL if not spec["cls"].startswith("pLSCF") else hc_for(spec, NEUTRAL), "ref")
    U = unfiltered(alg0, spec)
    U["_pl"] = spec["cls"].startswith("pLSCF")
    mpc, mpd = indicators(U["Phi"])
    return U, mpc, mpd


def set_criteria(alg, spec, hc, how):
    """The ways a user changes the criteria of an existing algorithm object between two runs."""
    if how == "set_run_params":
        alg.set_run_params(alg.RunParamCls(hc=lib_hc(hc), **alg_kwargs(spec)))
    elif how == "attr":
        alg.run_params.hc = lib_hc(hc)
    else:  # "update": the dict held by the run parameters is edited in place
        alg.run_params.hc.update(lib_hc(hc))


def seq_hcs(rng, U, mpc, mpd, pattern):
    """Criteria records of one re-run sequence (tight->loose, loose->tight, conj off/on)."""
    xi = np.sort(U["Xi"][U["Xi"] > 0])
    tight = float(xi[max(0, int(0.3 * len(xi)) - 1)] * 1.0001) if len(xi) else 0.01
    loose = dict(conj=False, xi_max=1.0, mpc_lim=0.0, mpd_lim=float(np.pi / 2), cov_max=1e300)
    b1, b2 = gen_hc(rng, U, mpc, mpd, "bite"), gen_hc(rng, U, mpc, mpd, "bite")
    if pattern == "tight-loose":
        return [dict(loose, xi_max=tight), dict(loose), dict(b1, conj=True)]
    if pattern == "loose-tight":
        return [dict(loose, conj=True), dict(b1, xi_max=tight, conj=False), dict(loose)]
    if pattern == "conj-toggle":
        return [dict(b1, conj=False), dict(b1, conj=True), dict(b2, conj=False), dict(loose)]
    return [b1, dict(DEFAULT_HC), b2, dict(loose, xi_max=tight), dict(loose)]


def rerun_sequence(ctx, spec, hcs, hows, exprs, meta, pattern=None):
    """Several runs of the SAME algorithm object with criteria changed in between; every run is judged against the criteria passed for it."""
    pl = spec["cls"].startswith("pLSCF")
    try:
        U, mpc, mpd = reference(ctx, spec)
        setup = build_setup(spec)
    except Exception as e:
        ctx.hist("configurations the library rejects", type(e).__name__)
        return
    sc = None
    if hcs is None:
        hcs = [as_user(ctx.np_rng, h) for h in seq_hcs(ctx.np_rng, U, mpc, mpd, pattern)]
        sc = rand_sc(ctx.np_rng)
    ctx.hist("re-run sequences", spec["cls"] + ("+unc" if spec.get("calc_unc") else "") + " " + (pattern or "given"))
    alg = None
    passed = []
    for j, hc in enumerate(hcs):
        hc = hc_for(spec, hc)
        how = "construct" if j == 0 else hows[(j - 1) % len(hows)]
        passed.append(dict(hc))
        case = dict(kind="rerun", spec=clean(spec), hcs=[dict(h) for h in passed], hows=list(hows), run_index=j, how=how)  # hcs in the key order passed
        ctx.hist("hc key order", "documented" if keys_of(hc) == [k for k in DEFAULT_HC if k in hc] else "other")
        try:
            if alg is None:
                kw = alg_kwargs(spec)
                if sc is not None:
                    kw["sc"] = dict(sc)
                alg = CLASSES[spec["cls"]](name="seq", hc=lib_hc(hc), **kw)
                setup.add_algorithms(alg)
            else:
                set_criteria(alg, spec, hc, how)
            setup.run_by_name("seq")
            R = result_tables(alg, spec)
        except Exception as e:
            ctx.fail("oracle", "%s: run %d of one object (criteria changed by %s) raised %s" % (spec["cls"], j, how, type(e).__name__), case, key="C09:%s:rerun:raises" % spec["cls"])
            return
        judge(ctx, case, spec["cls"], U, mpc, mpd, R, hc, pl, exprs, meta, "rerun")


def multi_instance(ctx, groups, exprs, meta):
    """groups: one list of {spec, hc|None} per setup.  ALL objects of ALL setups are constructed first, then every setup runs
    run_all, then each result is judged against the criteria passed to ITS constructor (None = the documented defaults)."""
    built = []
    try:
        refs = [[reference(ctx, a["spec"]) for a in algs] for algs in groups]
        for gi, algs in enumerate(groups):
            setup = build_setup(algs[0]["spec"])
            objs = []
            for ai, a in enumerate(algs):
                kw = alg_kwargs(a["spec"])
                if a.get("hc") is not None:
                    kw["hc"] = lib_hc(hc_for(a["spec"], a["hc"]))
                if a.get("sc") is not None:
                    kw["sc"] = dict(a["sc"])
                objs.append(CLASSES[a["spec"]["cls"]](name="g%da%d" % (gi, ai), **kw))
            built.append((setup, objs))
        for setup, objs in built:
            setup.add_algorithms(*objs)
        for setup, objs in built:
            setup.run_all()
    except Exception as e:
        ctx.hist("configurations the library rejects", type(e).__name__)
        return
    layout = [[dict(spec=clean(a["spec"]), hc=a.get("hc"), sc=a.get("sc")) for a in algs] for algs in groups]
    ctx.hist("multi-instance layouts", "/".join("+".join(a["spec"]["cls"] for a in algs) for algs in groups))
    for gi, algs in enumerate(groups):
        for ai, a in enumerate(algs):
            spec = a["spec"]
            hc = hc_for(spec, a["hc"] if a.get("hc") is not None else DEFAULT_HC)
            U, mpc, mpd = refs[gi][ai]
            case = dict(kind="multi", spec=clean(spec), hc=hc, groups=layout, judged=[gi, ai])
            ctx.hist("hc key order", "documented" if keys_of(hc) == [k for k in DEFAULT_HC if k in hc] else "other")
            try:
                R = result_tables(built[gi][1][ai], spec)
            except Exception as e:
                ctx.fail("oracle", "%s: no result after run_all (%s)" % (spec["cls"], type(e).__name__), case, key="C09:%s:multi:raises" % spec["cls"])
                continue
            judge(ctx, case, spec["cls"], U, mpc, mpd, R, hc, spec["cls"].startswith("pLSCF"), exprs, meta, "multi")


def sibling(rng, base, cls, quick):
    """Another algorithm configuration on the data of `base`."""
    s = gen_spec(rng, cls, quick, 1)
    for k in DATA_KEYS:
        s.pop(k, None)
        if k in base:
            s[k] = base[k]
    s.pop("ref_ind", None)
    if not cls.startswith("pLSCF"):
        nref = s.get("nref") or s.get("nch")
        s["ordmax"] = max(2, int(min(s["ordmax"], s["br"] * nref)))
    s["ordmin"] = int(min(s.get("ordmin", 0), s["ordmax"]))
    return s


def gen_multi(rng, family, quick):
    fam = {"single": ["SSIcov", "SSIdat", "SSIcov"], "ms": ["SSIcov_MS", "SSIdat_MS", "SSIcov_MS"], "plscf": ["pLSCF", "pLSCF", "pLSCF"],
           "plscf_ms": ["pLSCF_MS", "pLSCF_MS"], "mixed": ["SSIdat", "pLSCF", "SSIcov", "pLSCF"]}[family]
    base = gen_spec(rng, fam[0], quick, 1)
    base["kind"] = "modes"
    base.pop("ref_ind", None)
    specs = [base] + [sibling(rng, base, c, quick) for c in fam[1:]]
    strict = dict(conj=True, xi_max=float(rng.choice([0.02, 0.03, 0.05])), mpc_lim=float(rng.choice([0.8, 0.9])), mpd_lim=float(rng.choice([0.1, 0.2])), cov_max=float(rng.choice([0.01, 0.1])))
    permissive = dict(conj=bool(rng.random() < 0.5), xi_max=float(rng.choice([0.5, 1.0])), mpc_lim=0.0, mpd_lim=float(np.pi / 2), cov_max=1e300)
    middle = dict(conj=True, xi_max=0.2, mpc_lim=0.5, mpd_lim=0.5, cov_max=1.0)
    pool = [strict, permissive, None, middle]  # None: no hc passed, the documented defaults apply
    order = rng.permutation(len(specs)).tolist()
    algs = []
    for j, k in enumerate(order):
        hc = pool[j % len(pool)]
        algs.append(dict(spec=specs[k], hc=None if hc is None else as_user(rng, hc), sc=rand_sc(rng)))
    return algs



# ----------------------------------------------------------------------------------------------- table structure (hypotheses of C09_conj_closed_*_inst)
def table_structure(U):
    """xi_table / mirror_ssi / conj_local of Model/M_hc_inst.v read on unfiltered tables (bit for bit).
    Returns dict(xi_table, mirror, local, partner) with partner[(i,o)] = the mirror cell of (i,o) for every pole whose conjugate occurs."""
    Lam, Xi, Phi, FnC = U["Lam"], U["Xi"], U["Phi"], U.get("FnC")
    nr, nc = Lam.shape
    where = {}
    for i in range(nr):
        for o in range(nc):
            z = complex(Lam[i, o])
            if z == z:
                where.setdefault(z, []).append((i, o))
    with np.errstate(all="ignore"):
        xi_ref = -(Lam.real / np.abs(Lam))
    fin_l = ~np.isnan(Lam)
    xi_ok = bool(np.all(~fin_l | (xi_ref == Xi) | (np.isnan(xi_ref) & np.isnan(Xi)) | (np.isinf(xi_ref) & ~np.isfinite(Xi))))
    mirror, local, partner = True, True, {}
    for z, cells in where.items():
        ps = where.get(z.conjugate())
        if not ps:
            continue
        for (i, o) in cells:
            if not any(b == o for (_, b) in ps):
                local = False
            found = None
            for (a, b) in ps:
                pa, pb = Phi[a, b, :], np.conj(Phi[i, o, :])
                if not (np.isfinite(pa.real).all() and np.isfinite(pa.imag).all() and (pa.real == pb.real).all() and (pa.imag == pb.imag).all()):
                    continue
                if FnC is not None and not same_float(float(FnC[a, b]), float(FnC[i, o])):
                    continue
                found = (a, b)
                break
            if found is None:
                mirror = False
            else:
                partner[(i, o)] = found
    return dict(xi_table=xi_ok, mirror=mirror, local=local, partner=partner)


def mirror_oracle(U, R, mpc, mpd, hc):
    """C09_conj_closed_*_inst read on the implementation: where the unfiltered tables have the structure the theorem assumes (damping
    bit-equal, conjugate shape, equal covariance) and the library's indicators are bit-equal for a pole and its mirror image, the mirror
    image of every surviving pole survives - no margin: both cells get the same decisions."""
    st = U.get("_struct")
    if st is None:
        st = U["_struct"] = table_structure(U)
    if not hc["conj"]:
        return []
    alive = ~np.isnan(R["Fn"])
    for (i, o), (a, b) in st["partner"].items():
        if alive[i, o] and not alive[a, b]:
            if same_float(float(U["Xi"][i, o]), float(U["Xi"][a, b])) and mpc[i][o] == mpc[a][b] and mpd[i][o] == mpd[a][b] and fin(float(U["Fn"][a, b])):
                return [("pole (row %d, col %d) survives but its mirror image (row %d, col %d: conjugate eigenvalue and shape, same damping, MPC, MPD, covariance) was removed" % (i, o, a, b),
                         "conj-mirror-removed")]
    return []


# ----------------------------------------------------------------------------------------------- indicators instantiated
def svd_witness(v):
    """(V[0,1], V[1,1], relative gap of the singular values) from this harness' own SVD of [Re v, Im v]."""
    _, sv, VT = np.linalg.svd(np.c_[v.real, v.imag])
    gap = 1.0 if len(sv) < 2 else (float((sv[0] - sv[1]) / sv[0]) if sv[0] > 0 else 0.0)
    return float(VT[1, 0]), float(VT[1, 1]), gap


def c09_mpd_from_terms(t, delta=1e-14):
    """'w2,c2 w2,c2 ...' (exact rationals from the model) -> (sum w arccos(c) / sum w, conditioning allowance); NumPy's sqrt / arccos."""
    t = t.strip()
    if t == "nan" or not t:
        return None, 0.0
    ws, cs = [], []
    for x in t.split(" "):
        a, b = x.split(",")
        ws.append(math.sqrt(float(parse_q(a))))
        cs.append(math.sqrt(float(parse_q(b))))
    ws, cs = np.array(ws), np.array(cs)
    tot = ws.sum()
    val = float((ws * np.arccos(np.clip(cs, 0, 1))).sum() / tot)
    slack = float((ws * (np.arccos(np.clip(cs - delta, 0, 1)) - np.arccos(np.clip(cs + delta, 0, 1)))).sum() / tot)
    return val, slack


def indicator_oracle(v):
    """MPC and MPD of a finite shape from their definitions, NumPy only, no SVD / eigenvalue routine: MPC = ((Sxx-Syy)^2 + 4 Sxy^2) / (Sxx+Syy)^2 with
    the centred second moments of (Re, Im); MPD = |phi|-weighted mean angle between each component and the best straight line through the origin of
    the complex plane (principal axis of the uncentred moments).  Returns (mpc | None, mpd | None, well_determined)."""
    re, im = v.real, v.imag
    mpc = mpd = None
    det = True
    if len(v) > 1:
        a, b = re - re.mean(), im - im.mean()
        sxx, syy, sxy = float(a @ a), float(b @ b), float(a @ b)
        if sxx + syy > 0:
            mpc = ((sxx - syy) ** 2 + 4 * sxy * sxy) / (sxx + syy) ** 2
    w = np.abs(v)
    if w.sum() > 0:
        gxx, gyy, gxy = float(re @ re), float(im @ im), float(re @ im)
        rad = math.hypot((gxx - gyy) / 2, gxy)
        det = rad > 1e-6 * (gxx + gyy)
        th = 0.5 * math.atan2(2 * gxy, gxx - gyy)
        nz = w > 0
        r = np.clip(np.abs(re[nz] * math.cos(th) + im[nz] * math.sin(th)) / w[nz], 0.0, 1.0)
        # angle to the line = arcsin of the normalised distance = arccos of the normalised projection
        mpd = float((w[nz] * np.arccos(r)).sum() / w[nz].sum())
    return mpc, mpd, det


def shape_term(v):
    return clist(["(Some %s)" % qc_c(z) if (fin(complex(z).real) and fin(complex(z).imag)) else "None" for z in v])


def synth_shape(rng, k):
    nch = int(rng.integers(1, 5)) if k % 7 else 1
    d = lambda: float(rng.integers(-16, 17)) / 8.0
    kind = ["general", "general", "general", "collinear", "constant", "zero", "nan", "zero-entry"][k % 8]
    v = np.array([complex(d(), d()) for _ in range(nch)], complex)
    if kind == "collinear":
        v = complex(d() or 1.0, d()) * np.array([d() for _ in range(nch)], complex)
    elif kind == "constant":
        v = np.full(nch, complex(d() or 0.5, d()), complex)
    elif kind == "zero":
        v = np.zeros(nch, complex)
    elif kind == "nan":
        v[int(rng.integers(nch))] = complex(np.nan, np.nan)
    elif kind == "zero-entry":
        v[int(rng.integers(nch))] = 0.0
    return v, kind


def inst_stream(ctx, rng, n, corpus_shapes=()):
    T = 1e-9
    todo = [(np.array([complex(a, b) for a, b in sh], complex), "corpus") for sh in corpus_shapes]
    todo += [synth_shape(rng, k) for k in range(n)]
    pick = list(range(len(REAL_SHAPES)))
    rng.shuffle(pick)
    todo += [(REAL_SHAPES[j], "class-run") for j in pick[: ctx.n(24, 200)]]
    exprs, meta = [], []
    for v, kind in todo:
        vc = np.conj(v)
        case = dict(kind="indicator", shape=[[float(z.real), float(z.imag)] for z in v], origin=kind)
        ctx.count(case, nontrivial=bool(np.isfinite(v.real).all() and np.abs(v).max() > 0 and len(v) > 1))
        ctx.hist("indicator stream: shape kind", kind)
        got = dict(mpc=indicator(gen.MPC, v.copy()), mpd=indicator(gen.MPD, v.copy()), mpc_c=indicator(gen.MPC, vc.copy()), mpd_c=indicator(gen.MPD, vc.copy()))
        try:
            v0, v1, gap = svd_witness(v)
            w0, w1, gapc = svd_witness(vc)
        except Exception:  # nan entries: numpy.linalg.svd raises, gen.MPD raises, the model says nan
            v0, v1, gap, w0, w1, gapc = 0.0, 1.0, 1.0, 0.0, 1.0, 1.0
        if min(gap, gapc) > 1e-6 and abs(w0 * v1 + w1 * v0) > 1e-7:
            ctx.fail("correspondence", "numpy.linalg.svd: the second right-singular vector of [Re, -Im] is not a multiple of the mirror image of that of [Re, Im] "
                     "(contract assumed by C09_indicators_conj_inst / C09_conj_closed_*_inst)", case, key="C09:svd:mirror-contract")
        if np.isfinite(v.real).all() and np.isfinite(v.imag).all():
            # oracle: the indicators the criteria compare with their limits are MPC and MPD (definitions above), for the shape and its conjugate
            o_mpc, o_mpd, o_det = indicator_oracle(v)
            for nm, gc, gd in (("shape", got["mpc"], got["mpd"]), ("conjugate shape", got["mpc_c"], got["mpd_c"])):
                if (o_mpc is None) != (gc is None) or (o_mpc is not None and abs(o_mpc - gc) > 1e-7):
                    ctx.fail("oracle", "gen.MPC(%s) = %r is not the modal phase collinearity %r of the shape: HC_phi_comp compares another quantity with mpc_lim" % (nm, gc, o_mpc),
                             case, key="C09:MPC:value")
                if (o_mpd is None) != (gd is None):
                    ctx.fail("oracle", "gen.MPD(%s) = %r, mean phase deviation %r" % (nm, gd, o_mpd), case, key="C09:MPD:value")
                elif o_mpd is not None and o_det and min(gap, gapc) > 1e-6 and abs(o_mpd - gd) > 1e-6 + 1e-3 * min(o_mpd, 1e-3):
                    # (below 1e-3 rad the arccos of a rounded cosine carries an absolute error up to ~1e-8/mpd: allowance 1e-6)
                    ctx.fail("oracle", "gen.MPD(%s) = %r is not the mean phase deviation %r of the shape: HC_phi_comp compares another quantity with mpd_lim" % (nm, gd, o_mpd),
                             case, key="C09:MPD:value")
        exprs.append('let x := %s in showOQ\' (mpc_inst x) ++ "|" ++ showOT (mpd_terms_at x %s %s) ++ "|" ++ showOQ\' (mpc_inst (conj_shape x)) ++ "|" ++ showOT (mpd_terms_at (conj_shape x) %s %s)'
                     % (shape_term(v), qc(v0), qc(v1), qc(w0), qc(w1)))
        meta.append((case, got, min(gap, gapc)))
        # the pair as HC_phi_comp decides it: limits just inside / just outside the values of the shape; its conjugate must be decided alike
        if got["mpc"] is not None and got["mpd"] is not None and len(v) > 1:
            tbl = np.array([[v, vc]], complex)
            for side, (lc, ld) in (("inside", (got["mpc"] * (1 - 1e-6) - 1e-12, got["mpd"] * (1 + 1e-6) + 1e-12)), ("outside", (got["mpc"] * (1 + 1e-6) + 1e-12, got["mpd"] * (1 - 1e-6) - 1e-12))):
                try:
                    md, mc = gen.HC_phi_comp(tbl.copy(), lc, ld)
                except Exception as e:
                    ctx.fail("oracle", "gen.HC_phi_comp raised %s on a table of one pole and its conjugate" % type(e).__name__, case, key="C09:HC_phi_comp:raises")
                    break
                md, mc = np.asarray(md).astype(bool), np.asarray(mc).astype(bool)
                want = side == "inside"
                ill = gap <= 1e-6 or gapc <= 1e-6 or got["mpd"] < 1e-6  # MPD at the arccos singularity / undetermined singular vector: not judged
                if md.shape != (1, 2) or mc[0, 0] != mc[0, 1] or (not ill and md[0, 0] != md[0, 1]):
                    ctx.fail("oracle", "gen.HC_phi_comp decides a pole and its conjugate differently (limits %s the pole's MPC / MPD by 1e-6): the conjugate of a surviving pole is removed"
                             % side, dict(case, mpc_lim=lc, mpd_lim=ld), key="C09:HC_phi_comp:conj-alike")
                elif mc[0, 0] != want or (not ill and md[0, 0] != want):
                    ctx.fail("oracle", "gen.HC_phi_comp: masks are not (MPD <= mpd_lim, MPC >= mpc_lim) with limits %s the values" % side, dict(case, mpc_lim=lc, mpd_lim=ld), key="C09:HC_phi_comp:mask")
    return exprs, lambda res: inst_finish(ctx, meta, res)


def inst_finish(ctx, meta, res):
    T = 1e-9
    for (case, got, gap), out in zip(meta, res):
        a, t, ac, tc = out.split("|")
        for nm, mq, mt, gc, gd in (("shape", a, t, got["mpc"], got["mpd"]), ("conjugate shape", ac, tc, got["mpc_c"], got["mpd_c"])):
            m = parse_q(mq)
            if (m is None) != (gc is None) or (m is not None and abs(float(m) - gc) > T):
                ctx.fail("correspondence", "gen.MPC(%s) = %r, mpc_inst says %s" % (nm, gc, "nan" if m is None else float(m)), case, key="C09:MPC:inst-corr")
            w, slack = c09_mpd_from_terms(mt)
            if (w is None) != (gd is None):
                ctx.fail("correspondence", "gen.MPD(%s) = %r, mpd_inst says %s" % (nm, gd, "nan" if w is None else w), case, key="C09:MPD:inst-corr")
            elif w is not None:
                if gap <= 1e-6:
                    ctx.not_judged += 1  # (nearly) equal singular values: the singular vector is not determined
                elif abs(w - gd) > T * max(1.0, abs(w)) + slack:
                    ctx.fail("correspondence", "gen.MPD(%s) = %r, mpd_inst (terms, NumPy sqrt/arccos) says %r" % (nm, gd, w), case, key="C09:MPD:inst-corr")
        if a != ac:
            ctx.fail("correspondence", "model: mpc_inst differs for a shape and its conjugate (C09_indicators_conj_inst)", case, key="C09:MPC:model-conj")
        # the implementation on the pair (theorem C09_indicators_conj_inst read on the code)
        if (got["mpc"] is None) != (got["mpc_c"] is None) or (got["mpc"] is not None and abs(got["mpc"] - got["mpc_c"]) > T):
            ctx.fail("correspondence", "gen.MPC differs for a shape and its conjugate: %r vs %r" % (got["mpc"], got["mpc_c"]), case, key="C09:MPC:conj-invariance")
        if (got["mpd"] is None) != (got["mpd_c"] is None):
            ctx.fail("correspondence", "gen.MPD is nan for one of a shape and its conjugate only", case, key="C09:MPD:conj-invariance")
        elif got["mpd"] is not None and gap > 1e-6:
            _, slack = c09_mpd_from_terms(t)
            if abs(got["mpd"] - got["mpd_c"]) > T * max(1.0, got["mpd"]) + 2 * slack:
                ctx.fail("correspondence", "gen.MPD differs for a shape and its conjugate: %r vs %r" % (got["mpd"], got["mpd_c"]), case, key="C09:MPD:conj-invariance")


# ----------------------------------------------------------------------------------------------- the order axis
def hc_sequence(T, hc, pl):
    """The 'Apply HARD CRITERIA' block of SSIdat.run / SSIdat_MS.run (pl=False) and pLSCF.run / pLSCF_MS.run (pl=True), call for call, on
    GIVEN unfiltered tables (the SSI classes cannot produce tables for step > 1: SSI_poles indexes columns by order)."""
    Fns, Xis, Phis, Lambds = T["Fn"], T["Xi"], T["Phi"], T["Lam"]
    if pl:
        if hc["conj"]:
            Lambds, mask1 = gen.HC_conj(Lambds)
            Fns, Xis, Phis = gen.applymask([Fns, Xis, Phis], mask1, Phis.shape[2])
        Xis, mask2 = gen.HC_damp(Xis, hc["xi_max"])
        Fns, Phis = gen.applymask([Fns, Phis], mask2, Phis.shape[2])
        mask3, mask4 = gen.HC_phi_comp(Phis, hc["mpc_lim"], hc["mpd_lim"])
        Fns, Xis, Phis = gen.applymask([Fns, Xis, Phis], mask3, Phis.shape[2])
        Fns, Xis, Phis = gen.applymask([Fns, Xis, Phis], mask4, Phis.shape[2])
        return dict(Fn=Fns, Xi=Xis, Phi=Phis)
    Fn_cov, Xi_cov, Phi_cov = T["FnC"], T["XiC"], T["PhiC"]
    if hc["conj"]:
        Lambds, mask1 = gen.HC_conj(Lambds)
        Fns, Xis, Phis, Fn_cov, Xi_cov, Phi_cov = gen.applymask([Fns, Xis, Phis, Fn_cov, Xi_cov, Phi_cov], mask1, Phis.shape[2])
    Xis, mask2 = gen.HC_damp(Xis, hc["xi_max"])
    Fns, Lambds, Phis, Fn_cov, Xi_cov, Phi_cov = gen.applymask([Fns, Lambds, Phis, Fn_cov, Xi_cov, Phi_cov], mask2, Phis.shape[2])
    mask3, mask4 = gen.HC_phi_comp(Phis, hc["mpc_lim"], hc["mpd_lim"])
    Fns, Xis, Phis, Lambds, Fn_cov, Xi_cov, Phi_cov = gen.applymask([Fns, Xis, Phis, Lambds, Fn_cov, Xi_cov, Phi_cov], mask3, Phis.shape[2])
    Fns, Xis, Phis, Lambds, Fn_cov, Xi_cov, Phi_cov = gen.applymask([Fns, Xis, Phis, Lambds, Fn_cov, Xi_cov, Phi_cov], mask4, Phis.shape[2])
    if Fn_cov is not None:
        Fn_cov, mask5 = gen.HC_cov(Fn_cov, hc["cov_max"])
        Fns, Xis, Phis, Lambds, Xi_cov, Phi_cov = gen.applymask([Fns, Xis, Phis, Lambds, Xi_cov, Phi_cov], mask5, Phis.shape[2])
    return dict(Fn=Fns, Xi=Xis, Phi=Phis, Lam=Lambds, FnC=Fn_cov, XiC=Xi_cov, PhiC=Phi_cov)


def order_tables(rng, nr, nc, nch, cov, local):
    """Unfiltered tables over orders 0..nc-1 as one eigenvalue problem per order gives them: conjugate pairs (with conjugate shapes, equal damping
    and covariance) in the column of the order, real poles, poles without conjugate; local=False moves some conjugates to ANOTHER order."""
    d = lambda: float(rng.integers(-8, 9)) / 8.0
    Lam = np.full((nr, nc), np.nan, complex)
    Fn = np.full((nr, nc), np.nan)
    Xi = np.full((nr, nc), np.nan)
    FnC = np.full((nr, nc), np.nan)
    Phi = np.full((nr, nc, nch), np.nan, complex)
    for o in range(nc):
        i = 0
        while i < min(nr, o + 1 if rng.random() < 0.6 else nr):
            z = complex(-abs(d()) if rng.random() < 0.85 else abs(d()), d())
            v = np.array([complex(d(), d()) for _ in range(nch)], complex)
            x, f, c = abs(d()) / 2 if rng.random() < 0.85 else -abs(d()) / 4, abs(z) or 1.0, abs(d()) / 4
            r = rng.random()
            if r < 0.6 and i + 1 < nr and z.imag != 0:  # a conjugate pair
                Lam[i, o], Lam[i + 1, o] = z, z.conjugate()
                Phi[i, o, :], Phi[i + 1, o, :] = v, np.conj(v)
                Xi[i, o] = Xi[i + 1, o] = x
                Fn[i, o] = Fn[i + 1, o] = f
                FnC[i, o] = FnC[i + 1, o] = c
                i += 2
            else:  # a real pole (its own conjugate) or a pole whose conjugate is absent
                if r < 0.8:
                    z, v = complex(z.real, 0.0), v.real.astype(complex)
                Lam[i, o], Phi[i, o, :], Xi[i, o], Fn[i, o], FnC[i, o] = z, v, x, f, c
                i += 1
    if not local:
        for _ in range(2):
            i, o, o2 = int(rng.integers(nr)), int(rng.integers(nc)), int(rng.integers(nc))
            if o2 != o and Lam[i, o] == Lam[i, o] and Lam[i, o].imag != 0:
                k = int(rng.integers(nr))
                Lam[k, o2], Phi[k, o2, :], Xi[k, o2], Fn[k, o2], FnC[k, o2] = np.conj(Lam[i, o]), np.conj(Phi[i, o, :]), Xi[i, o], Fn[i, o], FnC[i, o]
    XiC = np.where(np.isnan(Fn), np.nan, 0.125)
    return dict(Fn=Fn, Xi=Xi, Phi=Phi, Lam=Lam, FnC=FnC if cov else None, XiC=XiC if cov else None, PhiC=np.full((nr, nc, nch), np.nan) if cov else None)


def take_cols(U, sel, strided):
    """The tables for the orders sel: a strided VIEW when sel is 0, step, 2*step, ... (what slicing an order axis gives), a copy otherwise."""
    out = {}
    for k, a in U.items():
        if a is None:
            out[k] = None
        elif strided:
            out[k] = a[:, sel[0]:sel[-1] + 1:strided]
        else:
            out[k] = a[:, sel]
    return out


def orders_case(ctx, U, sel, strided, hc, pl, exprs, meta, origin):
    nr, nc, nch = U["Phi"].shape
    mpc, mpd = indicators(U["Phi"])
    Ts = take_cols(U, sel, strided)
    assert all(a is None or a.shape[1] == len(sel) for a in Ts.values())
    before = {k: (None if a is None else a.tobytes()) for k, a in Ts.items()}
    case = dict(kind="orders", pl=pl, sel=[int(n) for n in sel], strided=int(strided), hc=hc, origin=origin,
                U={k: (None if a is None else ([[[float(z.real), float(z.imag)] for z in r] for r in a.tolist()] if k == "Lam" else
                                              ([[[[float(z.real), float(z.imag)] for z in v] for v in r] for r in a.tolist()] if k == "Phi" else a.tolist()))) for k, a in U.items()})
    ctx.hist("order axis: columns handed over", "0,step,..(view)" if strided else ("permuted/repeated" if sorted(set(sel)) != list(sel) else "gaps"))
    try:
        R = hc_sequence(Ts, hc, pl)
    except Exception as e:
        ctx.fail("oracle", "the gen.HC_* / gen.applymask sequence raised %s on tables of the orders %s" % (type(e).__name__, list(sel)), case, key="C09:orders:raises")
        return
    R = {k: (None if v is None else np.array(v, copy=True)) for k, v in R.items()}
    for k, a in Ts.items():
        if a is not None and a.tobytes() != before[k]:
            ctx.fail("correspondence", "the criteria functions modify the %s table (a view of the caller's array) they are given" % k, case, key="C09:orders:mutates-input")
    # ---- oracle: the property text, order by order, on the tables handed over
    Us = {k: (None if a is None else np.array(a, copy=True)) for k, a in Ts.items()}
    Us["_pl"] = pl
    ms = [[mpc[i][n] for n in sel] for i in range(nr)], [[mpd[i][n] for n in sel] for i in range(nr)]
    Rj = dict(R) if not pl else dict(R, Lam=None)
    bad, nj = oracle(Us, {k: v for k, v in Rj.items() if not (pl and k == "Lam")}, ms[0], ms[1], dict(hc, cov_max=hc.get("cov_max", 1.0)), pl)
    ctx.not_judged += nj
    # "its complex conjugate is present" is a consequence of the mirror-image structure of tables that come from an identification (conjugate
    # eigenvalue with conjugate shape and equal covariance: C09_conj_closed_*_inst); a hand-made table whose "conjugate" cell carries an unrelated
    # shape can lose that cell to MPC/MPD while the pole stays - nothing the property promises, since no run produces such tables
    try:
        mirrored = bool(table_structure(Us)["mirror"])
    except Exception:
        mirrored = False
    if not mirrored:
        dropped = [b for b in bad if b[1] == "conj-partner-removed"]
        ctx.not_judged += len(dropped)
        bad = [b for b in bad if b[1] != "conj-partner-removed"]
    alive = int((~np.isnan(R["Fn"])).sum())
    total = int((~np.isnan(Us["Fn"])).sum())
    ctx.count(dict(case, U=None, digest=[alive, total, float(np.nansum(U["Fn"]))]), nontrivial=bool(0 < alive < total))
    for what, site in bad[:2]:
        ctx.fail("oracle", "criteria sequence on the orders %s: %s" % (list(sel), what), case, key="C09:orders:" + site)
    # ---- theorem C09_sound_complete_ssi_orders read on the implementation: with every conjugate in the column of its pole, the result for the
    #      orders sel is the restriction of the result for all orders
    st = table_structure(U)
    if st["local"]:
        Rfull = hc_sequence({k: (None if a is None else a.copy()) for k, a in U.items()}, hc, pl)
        for k, a in R.items():
            if a is None:
                continue
            b = np.asarray(Rfull[k])[:, sel]
            if k == "Lam" and pl:
                continue
            if a.shape != b.shape or not np.array_equal(np.asarray(a), b, equal_nan=True):
                ctx.fail("oracle", "criteria on the orders %s: table %s is not the restriction of the result for all orders (conjugates share the column of their pole): "
                         "a pole's fate depends on which other orders are in the table" % (list(sel), k), case, key="C09:orders:restriction:" + k)
                break
    # ---- model
    flat = lambda t: clist([oq(x) for row in t for x in row])
    dall, _ = cdef(U["Phi"])
    phi = "(tok_tbl3 %d %d %d %s)" % (nr, nc, nch, bools(dall))
    selt = clist(["%d%%nat" % n for n in sel])
    if pl:
        st_ = "{| pFn := %s; pXi := %s; pPhi := %s; pLam := %s |}" % (t2(U["Fn"]), t2(U["Xi"]), phi, t2(U["Lam"], oc))
        exprs.append("eval_pl_sel %d %s %s %s %s %s" % (nch, flat(mpc), flat(mpd), hc_term(dict(hc, cov_max=1.0)), selt, st_))
    else:
        opt = lambda t, f=oq: "None" if t is None else "(Some %s)" % t2(t, f)
        phic = "None" if U["PhiC"] is None else "(Some (tok_tbl3 %d %d %d %s))" % (nr, nc, nch, bools(cdef(U["PhiC"].astype(complex))[0]))
        st_ = "{| sFn := %s; sXi := %s; sPhi := %s; sLam := %s; sFnC := %s; sXiC := %s; sPhiC := %s |}" % (
            t2(U["Fn"]), t2(U["Xi"]), phi, t2(U["Lam"], oc), opt(U["FnC"]), opt(U["XiC"]), phic)
        exprs.append("eval_ssi_sel %d %s %s %s %s %s" % (nch, flat(mpc), flat(mpd), hc_term(hc), selt, st_))
    meta.append((case, R, U, pl, list(sel)))


def cmp3_sel(name, model, R, U3, sel, errs):
    """tokens of the FULL table: cell (i, j) of the result must hold the entries (i, sel[j], k) of the unfiltered table."""
    nc, nch = U3.shape[1], U3.shape[2]
    if R is None or R.shape != (U3.shape[0], len(sel), nch) or len(model) != R.shape[0] or any(len(r) != len(sel) for r in model):
        errs.append("%s: shape %s" % (name, None if R is None else R.shape))
        return
    flatU = U3.reshape(-1)
    for i, row in enumerate(model):
        for j, v in enumerate(row):
            if len(v) != nch:
                errs.append("%s[%d,%d]: channel count" % (name, i, j))
                continue
            for k, tok in enumerate(v):
                z = complex(R[i, j, k])
                if tok is None:
                    if z == z:
                        errs.append("%s[%d,%d,%d]: implementation keeps %r, model blanks" % (name, i, j, k, z))
                else:
                    u = complex(flatU[tok])
                    if tok != (i * nc + sel[j]) * nch + k or not (same_float(z.real, u.real) and same_float(z.imag, u.imag)):
                        errs.append("%s[%d,%d,%d]: value %r is not entry (row %d, order %d) of the unfiltered table" % (name, i, j, k, z, i, sel[j]))


def compare_model_sel(out, R, U, pl, sel):
    parts = out.split("|")
    errs = []
    if parts[0] != "T":
        errs.append("tables do not share one shape / an order of sel is not a column (wf = %s)" % parts[0])
    cmp2("Fn", p2(parts[1]), R["Fn"], errs)
    cmp2("Xi", p2(parts[2]), R["Xi"], errs)
    cmp3_sel("Phi", p3(parts[3]), R["Phi"], U["Phi"], sel, errs)
    if not pl:
        cmp2c("Lambds", p2c(parts[4]), R["Lam"], errs)
        for nm, key, prs in (("Fn_cov", "FnC", parts[5]), ("Xi_cov", "XiC", parts[6])):
            if prs == "none":
                if R[key] is not None:
                    errs.append("%s: implementation returns a table, model none" % nm)
            else:
                cmp2(nm, p2(prs), R[key], errs)
    return errs


def gen_sel(rng, nc, k):
    """(sel, stride): every third case a strided view 0/off, step, 2 step ...; else gaps, permutations, repetitions."""
    if k % 3 != 2:
        step = int(rng.integers(2, 4))
        off = int(rng.integers(0, step)) if k % 2 else 0
        sel = list(range(off, nc, step))
        if sel:
            return sel, step
    m = int(rng.integers(1, nc + 1))
    if rng.random() < 0.5:
        return sorted(rng.choice(nc, size=m, replace=False).tolist()), 0
    return rng.choice(nc, size=m, replace=True).tolist(), 0


def orders_stream(ctx, rng, n, corpus=()):
    exprs, meta = [], []
    for c in corpus:
        U = {k: (None if a is None else (np.array([[complex(*z) for z in r] for r in a], complex) if k == "Lam" else
                                        (np.array([[[complex(*z) for z in v] for v in r] for r in a], complex) if k == "Phi" else np.array(a, float)))) for k, a in c["U"].items()}
        if c["pl"]:
            U = {k: U.get(k) for k in ("Fn", "Xi", "Phi", "Lam")}
        orders_case(ctx, U, [int(x) for x in c["sel"]], int(c.get("strided", 0)), dict(c["hc"]), bool(c["pl"]), exprs, meta, "corpus")
    for k in range(n):
        pl = bool(k % 4 == 3)
        nr, nc, nch = int(rng.integers(2, 5)), int(rng.integers(3, 8)), int(rng.integers(2, 4))
        cov = (not pl) and bool(k % 2 == 0)
        U = order_tables(rng, nr, nc, nch, cov, local=bool(k % 5 != 4))
        if pl:
            U = {kk: U[kk] for kk in ("Fn", "Xi", "Phi", "Lam")}
        mpc, mpd = indicators(U["Phi"])
        U2 = dict(U, FnC=U.get("FnC"), _pl=pl)
        hc = gen_hc(rng, U2, mpc, mpd, "bite" if k % 6 else "conjonly")
        hc["conj"] = bool(k % 3 != 1)
        if hc.get("cov_max", 0) > 1e200:
            hc["cov_max"] = 1.0
        if pl:
            hc.pop("cov_max", None)
        sel, stride = gen_sel(rng, nc, k)
        orders_case(ctx, U, sel, stride, hc, pl, exprs, meta, "generated")
    return exprs, lambda res: orders_finish(ctx, meta, res)


def orders_finish(ctx, meta, res):
    for (case, R, U, pl, sel), out in zip(meta, res):
        errs = compare_model_sel(out, R, U, pl, sel)
        if errs:
            ctx.fail("correspondence", "the gen.HC_* / gen.applymask sequence on the orders %s differs from run_%s (sel_%s sel s) of the model: %s%s"
                     % (sel, "pl" if pl else "ssi", "pl" if pl else "ssi", errs[0], " (+%d more)" % (len(errs) - 1) if len(errs) > 1 else ""),
                     case, key="C09:orders:%scorr" % ("pl:" if pl else ""))


def run(ctx):
    rng = ctx.np_rng
    ctx.extra["rule"] = ("(class, data-set spec, criteria record) triples; data = seeded noisy multi-mode records (<= 4 channels, ordmax <= 12), 20 % "
                         "degenerate (duplicated / dead channel, white noise); criteria at quantiles of the unfiltered indicator values, 30 % exact ties, "
                         "~15 % out-of-range ('malformed'); a case is non-trivial when some but not all unfiltered poles survive (or it is the neutral run); "
                         "distinct by hash of (spec, criteria)")
    ctx.assumptions += [
        "gen.MPC / gen.MPD are Section variables of the theorems (any function); the harness evaluates them with the library on the unfiltered shapes (C18 is about their values)",
        "the unfiltered tables are rebuilt by the harness with the library's pipeline functions (build_hank/SSI_fast/SSI_poles, SSI_multi_setup, SD_est/SD_PreGER, pLSCF/pLSCF_poles) on algorithm.data",
        "exact ties (value == threshold) are judged in the correspondence (the model is strict where the code is), not by the oracle (the property leaves a relative 1e-9 margin unjudged)",
        "hypothesis of C09_sound_complete_ssi_cov / C09_joint_nan_ssi: no surviving pole has a frequency covariance exactly 0 (x*mask; x[x==0]=nan idiom of HC_cov)",
        "Phi_poles_cov is never filled by SSI_poles (all-nan before the criteria) and is outside the joint-NaN clause",
        "every generated hc / sc dict is passed with its keys in a random order (25 % alphabetical) and integral values now and then as ints; each run is judged by key against the harness's own copy",
        "C09_conj_closed_*_inst: oracle contracts - abs (hypot) does not see the sign of the imaginary part; numpy.linalg.svd returns for [Re,-Im] a non-zero multiple of the mirror image "
        "of the second right-singular vector it returns for [Re,Im] (checked on every shape of the indicator stream with well separated singular values); sqrt / arccos are arbitrary functions",
        "C09_conj_closed_*_inst: table-structure hypotheses xi_table / mirror_ssi (Xi is -(Re/abs) of Lambds; a pole whose conjugate occurs has a mirror image with the conjugate shape and the same "
        "covariance) are evaluated bit for bit on the unfiltered tables of every configuration (see the input histogram); where they hold conjugate closure is demanded of the result without margin",
        "order axis: the SSI classes cannot run with step > 1 (SSI_poles indexes columns by order), so tables of other order axes reach the gen.HC_* functions through the harness's call-for-call copy "
        "of the 'Apply HARD CRITERIA' block of the run() methods (hc_sequence); the class-level streams tie that block to the model for step = 1",
    ]
    exprs, meta = [], []
    corpus_orders, corpus_shapes = [], []
    del REAL_SHAPES[:]
    del MIRROR_JOBS[:]
    PRIV_RNG[0] = np.random.default_rng([int(ctx.seed), 90909])
    # ---- corpus first (repaired defect b6576bf: MPD mask dropped by the second applymask)
    def replay_case(c):
        if c.get("kind") == "rerun":
            rerun_sequence(ctx, dict(c["spec"]), [dict(h) for h in c["hcs"]], list(c.get("hows") or ["set_run_params"]), exprs, meta)
        elif c.get("kind") == "multi":
            multi_instance(ctx, [[dict(spec=dict(a["spec"]), hc=a.get("hc"), sc=a.get("sc")) for a in algs] for algs in c["groups"]], exprs, meta)
        elif c.get("kind") == "orders":
            corpus_orders.append(c)
        elif c.get("kind") == "indicator":
            corpus_shapes.append(c["shape"])
        elif "spec" in c and "hc" in c:
            run_config(ctx, dict(c["spec"]), [c["hc"]], exprs, meta, corpus=True)

    for path in sorted(glob.glob(os.path.join(VERIF, "corpus", "C09", "*.json"))):
        replay_case(json.load(open(path)))
    if ctx.replay:
        replay_case(json.load(open(ctx.replay)).get("case") or {})
    # ---- the SAME object run again after its criteria were changed (tight->loose, loose->tight, conj off/on)
    patterns = ["tight-loose", "loose-tight", "conj-toggle", "mixed"]
    hows_pool = [["set_run_params"], ["attr"], ["update"], ["set_run_params", "attr", "update"]]
    for ci, cls in enumerate(("SSIcov", "SSIcov", "SSIdat", "SSIcov_MS", "SSIdat_MS", "pLSCF", "pLSCF_MS")):
        for rep in range(ctx.n(2, 6)):
            spec = gen_spec(rng, cls, ctx.quick(), 0 if (cls == "SSIcov" and ci == 0) else 1)
            if rep == 0:
                spec["kind"] = "modes"
            pat = patterns[(rep + ci) % len(patterns)] if rep < len(patterns) else str(rng.choice(patterns))
            rerun_sequence(ctx, spec, None, hows_pool[(rep + ci) % len(hows_pool)], exprs, meta, pattern=pat)
    # ---- several objects created before any of them runs; two setups alive in one process
    fams = ["single", "ms", "plscf", "plscf_ms", "mixed"]
    for rep in range(ctx.n(1, 4)):
        for fam in fams:
            multi_instance(ctx, [gen_multi(rng, fam, ctx.quick())], exprs, meta)
        multi_instance(ctx, [gen_multi(rng, "single", ctx.quick()), gen_multi(rng, str(rng.choice(["single", "plscf", "mixed"])), ctx.quick())], exprs, meta)
    # ---- scale extremes through the classes: a noise-free free response whose first mode is almost undamped (0 < xi <= 1e-6 is
    #      decisively inside (0, xi_max): the pole must be kept, with its conjugate), plus a decaying alternating transient
    xi1s = [1e-12, 1e-10, 1e-9, 6e-9, 1e-8, 1e-6]
    loose_on = dict(conj=True, xi_max=1.0, mpc_lim=0.0, mpd_lim=float(np.pi / 2), cov_max=1e300)
    for ci, cls in enumerate(("SSIcov", "SSIdat", "SSIcov_MS", "SSIdat_MS")):
        pick = xi1s if not ctx.quick() else [xi1s[(ci + ctx.seed) % 6], xi1s[(ci + ctx.seed + 3) % 6]]
        for xi1 in pick:
            spec = dict(cls=cls, seed=int(rng.integers(0, 2**31)), noise=0.0, kind="free", xi1=xi1, br=6, ordmax=4, n=400, ordmin=int(rng.integers(0, 5)))
            if "cov" in cls:
                spec["method"] = "cov_mm"
            if cls.endswith("_MS"):
                spec.update(nref=2, nmov=1)
            else:
                spec["nch"] = 3
            if rng.random() < 0.5:
                spec["alt"] = 1.0
            ctx.hist("almost undamped mode (class level), xi", xi1)
            run_config(ctx, spec, [as_user(rng, loose_on), as_user(rng, dict(DEFAULT_HC, cov_max=1e300))], exprs, meta, corpus=True)
    # ---- generated configurations
    per_cls = ctx.n(4, 12)
    modes_pool = ["bite", "bite", "bite", "bite", "default", "malformed", "conjonly"]
    k = 0
    for cls in ("SSIcov", "SSIdat", "SSIcov_MS", "SSIdat_MS", "pLSCF", "pLSCF_MS"):
        reps = per_cls + (per_cls if cls == "SSIcov" else 0)  # SSIcov: with and without uncertainties
        for rep in range(reps):
            spec = gen_spec(rng, cls, ctx.quick(), rep)
            if rep == 1 and cls == "SSIdat":  # always present: the run parameter method overrides the class default, with uncertainties
                spec.update(method="cov_mm", calc_unc=True, nb=8, ordmax=min(spec["ordmax"], 8), kind="modes")
                spec["ordmin"] = min(spec["ordmin"], spec["ordmax"])
            if rep == 1 and cls.startswith("pLSCF"):  # always present: a high ordmin on a table with many orders
                spec.update(ordmax=max(spec["ordmax"], 7), kind="modes", noise=0.5)
                spec["ordmin"] = spec["ordmax"] - int(rng.integers(0, 2))
            nh = ctx.n(4, 6)
            spec["_modes"] = [modes_pool[int(rng.integers(0, len(modes_pool)))] for _ in range(nh)]
            if rep == 0:
                spec["_modes"][0] = "default"
            if spec.get("calc_unc"):
                spec["_modes"][1] = "cov"
            if rep == 2:  # always present: a pole whose conjugate is absent, and a record on which only the conjugate criterion rejects
                spec.update(alt=2.0, kind="modes")
                spec["_modes"][2] = "conjonly"
            run_config(ctx, spec, [], exprs, meta)
            k += 1
    res = ctx.coq_eval(HEADER, exprs, shard=8, timeout=2700)  # small shards: each stays far below the per-shard timeout on a loaded machine
    for (case, R, U, pl, stage), out in zip(meta, res):
        errs = compare_model(out, R, U, pl)
        if errs:
            # keeps/blanks differences of a pole that lies within relative 1e-9 of one of the thresholds passed (or whose covariance is exactly
            # 0: the x*mask idiom) are not judged - the property says so, and an equivalent evaluation of MPC/MPD moves such a decision
            free = margin_cells(U, case["hc"], pl) if isinstance(case.get("hc"), dict) else set()
            kept = [e for e in errs if not (_cell_of(e) in free and ("keeps" in e or "blanks" in e))]
            if len(kept) != len(errs):
                ctx.not_judged += 1
            errs = kept
        if errs:
            ctx.fail("correspondence", "%s%s result tables differ from run_%s of the model on the unfiltered tables and the criteria passed for this run: %s%s"
                     % (case["spec"]["cls"], " (%s)" % stage if stage else "", "pl" if pl else "ssi", errs[0], " (+%d more)" % (len(errs) - 1) if len(errs) > 1 else ""),
                     case, key="C09:%s:%scorr" % (case["spec"]["cls"], stage + ":" if stage else ""))
    # ---- the criteria functions themselves on synthetic tables
    function_stream(ctx, rng, ctx.n(60, 400))
    # ---- the indicators instantiated (mpc_inst / mpd_inst) on shapes and their conjugates; the criteria sequence on other order axes
    e1, fin1 = inst_stream(ctx, PRIV_RNG[0], ctx.n(40, 400), corpus_shapes)
    e2, fin2 = orders_stream(ctx, PRIV_RNG[0], ctx.n(36, 300), corpus_orders)
    e3 = [j[0] for j in MIRROR_JOBS]
    allx = e1 + e2 + e3
    res = ctx.coq_eval(HEADER_INST, allx, shard=max(6, (len(allx) + 13) // 14), timeout=2700)  # one round of <= 14 parallel shards
    fin1(res[: len(e1)])
    fin2(res[len(e1): len(e1) + len(e2)])
    for (term, case, np_says), out in zip(MIRROR_JOBS, res[len(e1) + len(e2):]):
        ctx.hist("mirror-image hypothesis of C09_conj_closed_*_inst evaluated in Coq on unfiltered tables of real runs", "%s: %s" % (case["cls"], out))
        if (out == "T") != np_says:
            ctx.fail("correspondence", "the model's mirror_ssib / mirror_plb (%s) and the harness's NumPy reading (%s) of the mirror-image structure of the unfiltered "
                     "tables disagree" % (out, np_says), case, key="C09:mirror:structure")
