"""C12 - Hankel/Toeplitz layout.  Model: coq/Model/M_hankel.v; theorems: coq/Properties/C12.v."""
import glob
import json
import os
from fractions import Fraction

import numpy as np

from common import clist, parse_mat, qc, qc_mat
from pyoma2.functions import ssi

HEADER = "From PyOMA.Model Require Import M_hankel."
VERIF = os.path.dirname(os.path.dirname(os.path.dirname(os.path.abspath(__file__))))


def ofail(ctx, key, what, case, limit=2):
    """ctx.fail('oracle', ...) at most `limit` times per key (the framework only looks at the first 50 failures)."""
    seen = ctx.__dict__.setdefault("_c12_keys", {})
    seen[key] = seen.get(key, 0) + 1
    if seen[key] <= limit:
        ctx.fail("oracle", what, case, key=key)


def biteq(a, b):
    return a.shape == b.shape and a.dtype == b.dtype and a.tobytes() == b.tobytes()


def bh(ctx, Y, Yr, br, method, case=None, restore=True, calc_unc=False, nb=None):
    """ssi.build_hank(...)[0] with the oracle clause that goes with EVERY call: build_hank is a function of its
    arguments, so the caller's records (float64) are bit-identical afterwards.  With restore=True altered records are
    put back so that the other clauses judge the intended data."""
    y0 = Y.copy()
    r0 = None if Yr is Y else Yr.copy()
    kw = {}
    if calc_unc:  # the uncertainty branch: only the returned Hankel matrix is judged here (T belongs to C17)
        kw["calc_unc"] = True
        if nb is not None:
            kw["nb"] = nb
    H = ssi.build_hank(Y, Yr, br, method, **kw)[0]
    changed = []
    if not biteq(Y, y0):
        changed.append("Y")
    if Yr is not Y and not biteq(Yr, r0):
        changed.append("Yref")
    if changed:
        bad = Y if "Y" in changed else Yr
        good = y0 if "Y" in changed else r0
        pos = tuple(int(v) for v in np.argwhere(bad != good)[0]) if np.any(bad != good) else None
        ofail(ctx, "C12:%s:input-altered" % method,
              "build_hank %s altered the caller's %s in place (first difference at %s: %r -> %r)"
              % (method, " and ".join(changed), pos, None if pos is None else float(good[pos]), None if pos is None else float(bad[pos])),
              case if case is not None else dict(method=method, br=br, Y=y0.tolist() if y0.size <= 4000 else "shape %s" % (y0.shape,),
                                                 Yref="the same object as Y" if Yr is Y else (r0.tolist() if r0.size <= 4000 else "shape %s" % (r0.shape,))))
        if restore:
            Y[...] = y0
            if Yr is not Y:
                Yr[...] = r0
    return H


def dyad(rng, shape, bits=6):
    return rng.integers(-(2**bits), 2**bits + 1, size=shape) / float(2 ** (bits - 2))


def measure(ctx, method, l, r, br, Ndat, calc_unc=False, nb=None):
    """Evaluate build_hank on every pair of unit impulses: coefficient tensor c[I,J,a,t1,b,t2]."""
    R, C = (br + 1) * l, (br + 1) * r
    c = np.zeros((R, C, l, Ndat, r, Ndat))
    for a in range(l):
        for t1 in range(Ndat):
            Y = np.zeros((l, Ndat))
            Y[a, t1] = 1.0
            for b in range(r):
                for t2 in range(Ndat):
                    Yr = np.zeros((r, Ndat))
                    Yr[b, t2] = 1.0
                    H = bh(ctx, Y, Yr, br, method, calc_unc=calc_unc, nb=nb)
                    if H.shape != (R, C):
                        return None, "shape %s != %s" % (H.shape, (R, C))
                    c[:, :, a, t1, b, t2] = H
    return c, None


def structure(c, method, l, r, br, Ndat):
    """The property text on the measured bilinear form.  Returns (params, failure|None).
    params[(i,j)] = (win list (sample index t of the reference side... see below), wt, dl, rl)."""
    params = {}
    signs = set()
    for i in range(br + 1):
        for j in range(br + 1):
            blk = None
            for a in range(l):
                for b in range(r):
                    m = c[i * l + a, j * r + b]  # [a', t1, b', t2]
                    # only channel a and reference b may contribute
                    mask = np.ones((l, r), bool)
                    mask[a, b] = False
                    off = np.abs(m.transpose(0, 2, 1, 3)[mask]).max() if mask.any() else 0.0
                    if off > 0:
                        return None, dict(what="entry mixes other channels", i=i, j=j, a=a, b=b)
                    k = m[a, :, b, :]  # [t1, t2]
                    nz = np.argwhere(k != 0)
                    if len(nz) == 0:
                        return None, dict(what="entry is identically zero", i=i, j=j, a=a, b=b)
                    lags = set(int(t1 - t2) for t1, t2 in nz)
                    if len(lags) != 1:
                        return None, dict(what="entry mixes several lags %s" % sorted(lags), i=i, j=j, a=a, b=b)
                    vals = set(float(k[t1, t2]) for t1, t2 in nz)
                    if max(vals) - min(vals) > 1e-12 * max(abs(v) for v in vals):
                        return None, dict(what="weights not uniform inside an entry", i=i, j=j, a=a, b=b)
                    lag = lags.pop()
                    w = float(np.mean(list(vals)))
                    if w <= 0:
                        return None, dict(what="non-positive weight", i=i, j=j, a=a, b=b)
                    desc = (lag, tuple(sorted(int(min(t1, t2)) for t1, t2 in nz)), round(w, 15))
                    if blk is None:
                        blk = desc
                    elif blk != desc and not (blk[0] == desc[0] and blk[1] == desc[1] and abs(blk[2] - desc[2]) < 1e-12):
                        return None, dict(what="window/weight/lag differ between channel pairs of one block", i=i, j=j, a=a, b=b)
            lag, win, w = blk
            want = (i + j + 1) if method == "cov_mm" else (br + i - j)
            if abs(lag) != want:
                return None, dict(what="block lag is %d, property says %d" % (abs(lag), want), i=i, j=j)
            if lag != 0:
                signs.add(lag > 0)
            params[(i, j)] = (list(win), w, max(lag, 0), max(-lag, 0))
    if len(signs) > 1:
        return None, dict(what="lag sign convention differs between blocks")
    return params, None


def coq_params(params, br):
    """Coq functions win/wt/dl/rl as nested list lookups."""
    def tbl(f, default):
        rows = clist([clist([f(params[(i, j)]) for j in range(br + 1)]) for i in range(br + 1)])
        return "(fun i j => nth j (nth i %s []) %s)" % (rows, default)
    win = tbl(lambda p: clist(["%d%%nat" % t for t in p[0]]), "[]")
    wt = tbl(lambda p: qc(p[1]), "(q 0 1)")
    dl = tbl(lambda p: "%d%%nat" % p[2], "0%nat")
    rl = tbl(lambda p: "%d%%nat" % p[3], "0%nat")
    return win, wt, dl, rl


def independent(method, Y, Yr, br):
    """The definition written as nested loops (independent construction)."""
    l, Ndat = Y.shape
    r = Yr.shape[0]
    p, q = br, br + 1
    N = Ndat - p - q
    H = np.zeros(((br + 1) * l, (br + 1) * r))
    for i in range(br + 1):
        for j in range(br + 1):
            for a in range(l):
                for b in range(r):
                    if method == "cov_mm":
                        s = sum(Y[a, q - j + t + (i + j + 1)] * Yr[b, q - j + t] for t in range(N - 1)) / N
                    else:
                        k = br + i - j
                        s = sum(Y[a, t] * Yr[b, t + k] for t in range(Ndat - k)) / (Ndat - k)
                    H[i * l + a, j * r + b] = s
    return H


def independent_vec(method, Y, Yr, br):
    """The same definition as independent(), one vectorised dot product per entry (O(N) per entry; for long records)."""
    l, Ndat = Y.shape
    r = Yr.shape[0]
    q = br + 1
    N = Ndat - br - q
    H = np.zeros(((br + 1) * l, (br + 1) * r))
    for i in range(br + 1):
        for j in range(br + 1):
            if method == "cov_mm":
                t = np.arange(q - j, q - j + N - 1)  # sample index of the reference factor
                H[i * l:(i + 1) * l, j * r:(j + 1) * r] = [[np.dot(Y[a, t + (i + j + 1)], Yr[b, t]) / N for b in range(r)] for a in range(l)]
            else:
                k = br + i - j
                t = np.arange(0, Ndat - k)  # sample index of the data factor
                H[i * l:(i + 1) * l, j * r:(j + 1) * r] = [[np.dot(Y[a, t], Yr[b, t + k]) / (Ndat - k) for b in range(r)] for a in range(l)]
    return H


def projection_gram(Y, Yr, br):
    """Property text for 'dat', written from the definition in NumPy: at the present instant t the future outputs are
    Y[a, t+i] (i = 0..br, all channels) and the past reference outputs are Yr[b, t-1-j] (j = 0..br).  Returns the Gram
    matrix of the orthogonal projection of the future on the past, P S^-1 P^T with P = F Pa^T, S = Pa Pa^T (sums over the
    instants t for which every needed sample exists, first sample left out as in the model), and cond(S)."""
    l, Ndat = Y.shape
    r = Yr.shape[0]
    t = np.arange(br + 2, Ndat - br)
    F = np.vstack([Y[a, t + i] for i in range(br + 1) for a in range(l)])
    Pa = np.vstack([Yr[b, t - 1 - j] for j in range(br + 1) for b in range(r)])
    P = F @ Pa.T
    S = Pa @ Pa.T
    cond = np.linalg.cond(S)
    if not np.isfinite(cond) or cond > 1e8:
        return None, cond
    return P @ np.linalg.solve(S, P.T), cond


ALIAS_FORMS = {
    # name -> (group of reference VALUES, how the reference argument is obtained from Y)
    "same-object": ("all", lambda Y, r: Y),
    "view-all": ("all", lambda Y, r: Y[:]),
    "fancy-all": ("all", lambda Y, r: Y[list(range(Y.shape[0]))]),
    "independent-all": ("all", lambda Y, r: Y.copy()),
    "view-head": ("head", lambda Y, r: Y[:r]),
    "fancy-head": ("head", lambda Y, r: Y[list(range(r))]),
    "independent-head": ("head", lambda Y, r: np.array(Y[:r], copy=True)),
    "view-tail": ("tail", lambda Y, r: Y[Y.shape[0] - r:]),
    "fancy-tail": ("tail", lambda Y, r: Y[list(range(Y.shape[0] - r, Y.shape[0]))]),
    "view-reversed": ("rev", lambda Y, r: Y[::-1]),
    "fancy-reversed": ("rev", lambda Y, r: Y[list(range(Y.shape[0] - 1, -1, -1))]),
}


def alias_case(ctx, method, Y0, br, r, forms, inst_ok=True, tag="alias"):
    """Property text under every way of passing the reference records (same object, basic-slice view, fancy-index copy,
    independent array), two builds on the same arrays each.  Y0 float64, never handed to build_hank itself."""
    l, Ndat = Y0.shape
    N = Ndat - 2 * br - 1
    ratios = {}
    first = {}
    for form in forms:
        group, make = ALIAS_FORMS[form]
        Y = Y0.copy()
        Yr = make(Y, r)
        Yr0 = Yr.copy()
        r_ = Yr0.shape[0]
        case = dict(kind=tag, method=method, l=l, r=r_, br=br, Ndat=Ndat, form=form, Y=Y0.tolist(),
                    Yref="Y itself (same object)" if Yr is Y else "%s of Y, values %s" % (form, Yr0.tolist()))
        ctx.count(case)
        ctx.hist("alias-form", (method, form))
        H1 = bh(ctx, Y, Yr, br, method, case, restore=False)
        H2 = bh(ctx, Y, Yr, br, method, case, restore=True)
        if H1.shape != ((br + 1) * l, (br + 1) * r_):
            ofail(ctx, "C12:%s:shape" % method, "build_hank %s (%s): wrong shape %s" % (method, form, H1.shape), case)
            continue
        scale = max(np.abs(H1).max(), 1e-300)
        if H2.shape != H1.shape or not np.allclose(H1, H2, rtol=0, atol=1e-12 * scale):
            ofail(ctx, "C12:%s:repeat" % method,
                  "build_hank %s (%s): a second build on the same arrays gives a different matrix (max |H1| %.6g, max |H2| %.6g, max |H1-H2| %.3g)"
                  % (method, form, np.abs(H1).max(), np.abs(H2).max(), np.abs(H1 - H2).max()), case)
        if method == "dat":
            G, cond = projection_gram(Y0, Yr0, br)
            if G is None:
                ctx.not_judged += 1
                continue
            HH = H1 @ H1.T
            ratio = np.trace(HH) / np.trace(G)
            if not (ratio > 0) or not np.allclose(HH, ratio * G, rtol=0, atol=1e-8 * np.abs(HH).max()):
                ofail(ctx, "C12:dat:gram", "build_hank dat (%s): H H^T is not a positive multiple of the Gram matrix of the projection of the future "
                      "on the past references (trace %.6g against %.6g, max deviation from proportionality %.3g of %.3g)"
                      % (form, np.trace(HH), np.trace(G), np.abs(HH - ratio * G).max(), np.abs(HH).max()), case)
                continue
            ratios.setdefault(group, []).append((form, ratio, np.trace(HH), case))
        else:
            if inst_ok:
                Hdef = independent_vec(method, Y0, Yr0, br)
                if not np.allclose(H1, Hdef, rtol=0, atol=1e-9 * max(1.0, np.abs(Hdef).max())):
                    ofail(ctx, "C12:%s:def" % method, "build_hank %s (%s) differs from the definition (independent construction), max deviation %.3g"
                          % (method, form, np.abs(H1 - Hdef).max()), case)
            if group in first:
                f0, Hf = first[group]
                if not np.allclose(H1, Hf, rtol=0, atol=1e-12 * max(1.0, np.abs(Hf).max())):
                    ofail(ctx, "C12:%s:alias" % method, "build_hank %s: the matrix depends on how the same reference records are passed (%s against %s), max deviation %.3g"
                          % (method, form, f0, np.abs(H1 - Hf).max()), case)
            else:
                first[group] = (form, H1)
    # 'dat': the normalisation is free, but one normalisation: same data => same Gram, however the reference is passed
    for group, lst in ratios.items():
        ref = next((x for x in lst if x[0].startswith("independent")), lst[0])
        for form, ratio, tr, case in lst:
            if abs(ratio / ref[1] - 1) > 1e-9:
                ofail(ctx, "C12:dat:alias", "build_hank dat: Gram matrix depends on whether Yref aliases Y: with %s expected trace %.6g (as for %s), got %.6g (ratio %.6g, 1/N = %.6g)"
                      % (form, ref[2], ref[0], tr, ratio / ref[1], 1.0 / N), case)
    return ratios


_CONV = {}


def convention(ctx, method, br):
    """(sign, inst_ok) measured on a tiny impulse basis: sign=+1 when the data factor is LATER than the reference factor;
    inst_ok when window and weight are those of the present instance (then the definition can be compared entry by entry)."""
    if (method, br) not in _CONV:
        Ndat = 2 * br + 6
        c, err = measure(ctx, method, 1, 1, br, Ndat)
        out = None
        if not err:
            params, bad = structure(c, method, 1, 1, br, Ndat)
            if not bad:
                N = Ndat - 2 * br - 1
                sign = 1 if any(p[2] > 0 for p in params.values()) else -1
                ok = all((params[(i, j)][0] == list(range(br + 1 - j, br + 1 - j + N - 1)) and abs(params[(i, j)][1] - 1.0 / N) < 1e-12 and params[(i, j)][3] == 0)
                         if method == "cov_mm" else
                         (params[(i, j)][0] == list(range(0, Ndat - (br + i - j))) and abs(params[(i, j)][1] - 1.0 / (Ndat - (br + i - j))) < 1e-12 and params[(i, j)][2] == 0)
                         for i in range(br + 1) for j in range(br + 1))
                out = (sign, ok)
        _CONV[(method, br)] = out
    return _CONV[(method, br)]


def long_data(seed, l, Ndat):
    """Replayable long record: dyadic values in [-4, 4], none of them zero (so that no product vanishes)."""
    g = np.random.default_rng(seed)
    Y = g.integers(-64, 65, size=(l, Ndat)) / 16.0
    Y[Y == 0] = 0.0625
    return Y


def probe_positions(rng, Ndat, br, extra=()):
    """Reference-sample indices whose product weights are probed: around k*N/nseg for nseg = 2..5 and the nseg a fixed
    segment length of 2**15 would give, around multiples of 2**15, and random ones; kept away from the record ends."""
    q = br + 1
    N = Ndat - 2 * br - 1
    lo, hi = 3 * q + 2, Ndat - 3 * q - 3
    cs = set()
    for M in (N - 1, N, Ndat):
        for nseg in sorted({2, 3, 4, 5, int(np.ceil(M / 2.0**15))}):
            for k in range(1, nseg):
                cs.add(k * M // nseg)
                cs.add(-((-k * M) // nseg))
    for k in range(1, Ndat // 2**15 + 1):
        cs.add(k * 2**15)
    ts = set(int(t) for t in extra)
    for c in cs:
        ts.update(range(c - 2, c + q + 3))
    ts.update(int(t) for t in rng.integers(lo, hi, size=24))
    return sorted(t for t in ts if lo <= t < hi)


def long_case(ctx, rng, method, Ndat, l, r, br, form, seed, extra=(), tag="long"):
    """Records longer than 2**15 samples: the definition by an O(N) construction on random data, and single product
    weights read through bilinearity (reference = indicator of one sample)."""
    q = br + 1
    N = Ndat - 2 * br - 1
    Y0 = long_data(seed, l, Ndat)
    Y = Y0.copy()
    Yr = ALIAS_FORMS[form][1](Y, r)
    Yr0 = Yr.copy()
    r_ = Yr0.shape[0]
    case = dict(kind=tag, method=method, Ndat=Ndat, N=N, l=l, r=r_, br=br, form=form, data_seed=seed,
                data="Y = default_rng(data_seed).integers(-64, 65, (l, Ndat))/16 with zeros replaced by 1/16; Yref = %s of Y" % form)
    ctx.count(case)
    ctx.hist("long", (method, Ndat, l, r_, br, form))
    H = bh(ctx, Y, Yr, br, method, case)
    if H.shape != ((br + 1) * l, (br + 1) * r_):
        ofail(ctx, "C12:%s:shape" % method, "build_hank %s: wrong shape %s for a record of %d samples" % (method, H.shape, Ndat), case)
        return
    if method == "dat":
        G, cond = projection_gram(Y0, Yr0, br)
        if G is None:
            ctx.not_judged += 1
            return
        HH = H @ H.T
        ratio = np.trace(HH) / np.trace(G)
        if not (ratio > 0) or not np.allclose(HH, ratio * G, rtol=0, atol=1e-8 * np.abs(HH).max()):
            ofail(ctx, "C12:dat:gram", "build_hank dat, %d samples: H H^T is not a positive multiple of the Gram matrix of the projection (trace %.6g against %.6g)"
                  % (Ndat, np.trace(HH), np.trace(G)), case)
        return ratio
    conv = convention(ctx, method, br)
    if conv is None:
        return  # layout already reported on the small shapes
    sign, inst_ok = conv
    lagof = (lambda i, j: i + j + 1) if method == "cov_mm" else (lambda i, j: br + i - j)

    def weights(Hp, a, b, t):
        """weight of the product Y[a, t + sign*lag] * Yref[b, t] in every block, from a build with Yref = indicator(b, t)"""
        w = np.zeros((br + 1, br + 1))
        for i in range(br + 1):
            for j in range(br + 1):
                w[i, j] = Hp[i * l + a, j * r_ + b] / Y0[a, t + sign * lagof(i, j)]
        return w

    # (a) the definition on random data; a deviation is localised by bisection on the support of the reference
    if inst_ok:
        Hdef = independent_vec(method, Y0, Yr0, br)
        tol = 1e-9 * max(1.0, np.abs(Hdef).max())
        if not np.allclose(H, Hdef, rtol=0, atol=tol):
            lo, hi = 0, Ndat
            while hi - lo > 1:
                mid = (lo + hi) // 2
                Z = np.zeros_like(Yr0)
                Z[:, lo:mid] = Yr0[:, lo:mid]
                if not np.allclose(bh(ctx, Y0.copy(), Z, br, method), independent_vec(method, Y0, Z, br), rtol=0, atol=tol / 8):
                    hi = mid
                else:
                    lo = mid
            t = lo
            Z = np.zeros_like(Yr0)
            Z[:, t] = Yr0[:, t]
            D = bh(ctx, Y0.copy(), Z, br, method) - independent_vec(method, Y0, Z, br)
            I, J = np.unravel_index(np.argmax(np.abs(D)), D.shape)
            i, a, j, b = I // l, I % l, J // r_, J % r_
            lag = lagof(i, j)
            wexp = 1.0 / N if method == "cov_mm" else 1.0 / (Ndat - lag)
            if not np.abs(D).max() > tol / 64 or not 0 <= t + sign * lag < Ndat:
                ofail(ctx, "C12:%s:long-def" % method, "build_hank %s, Ndat=%d (N=%d) differs from the definition (independent construction), max deviation %.3g"
                      % (method, Ndat, N, np.abs(H - Hdef).max()), case)
                return
            wgot = wexp + D[I, J] / (Y0[a, t + sign * lag] * Yr0[b, t])
            wgot = 0.0 if abs(wgot) < 1e-6 * wexp else wgot
            ofail(ctx, "C12:%s:long-def" % method,
                  "build_hank %s, Ndat=%d (N=%d) differs from the definition (max deviation %.3g): in entry (block %d, channel %d; block %d, reference %d) "
                  "the product Y[%d,%d]*Yref[%d,%d] (lag %d) has weight %.6g, expected %.6g like the other products of the entry"
                  % (method, Ndat, N, np.abs(H - Hdef).max(), i, a, j, b, a, t + sign * lag, b, t, lag, wgot, wexp),
                  dict(case, t=int(t), entry=[int(i), int(a), int(j), int(b)]))
    # (b) single product weights: uniform over the probed interior products of every entry
    ts = probe_positions(rng, Ndat, br, extra)
    ctx.hist("long-probes", len(ts))
    W = np.zeros((len(ts), br + 1, br + 1))
    chans = []
    for n, t in enumerate(ts):
        a, b = int(rng.integers(l)), int(rng.integers(r_))
        Z = np.zeros((r_, Ndat))
        Z[b, t] = 1.0
        Hp = bh(ctx, Y0.copy(), Z, br, method)
        W[n] = weights(Hp, a, b, t)
        chans.append((a, b))
        other = np.ones(r_, bool)
        other[b] = False
        if r_ > 1 and np.abs(Hp.reshape(Hp.shape[0], br + 1, r_)[:, :, other]).max() > 0:
            ofail(ctx, "C12:%s:long-mix" % method, "build_hank %s, Ndat=%d: a reference impulse in channel %d at sample %d reaches the columns of another reference"
                  % (method, Ndat, b, t), dict(case, t=int(t), ref_channel=b))
    med = np.median(W, axis=0)
    for i in range(br + 1):
        for j in range(br + 1):
            lag = lagof(i, j)
            if not med[i, j] > 0:
                ofail(ctx, "C12:%s:long-weights" % method, "build_hank %s, Ndat=%d: block (%d,%d) has no positive weight at lag %d" % (method, Ndat, i, j, lag), case)
                continue
            badn = np.nonzero(np.abs(W[:, i, j] - med[i, j]) > 1e-9 * med[i, j])[0]
            if len(badn):
                n = int(badn[0])
                a, b = chans[n]
                ofail(ctx, "C12:%s:long-weights" % method,
                      "build_hank %s, Ndat=%d (N=%d): weights are not uniform inside entry (block %d, channel %d; block %d, reference %d): the product "
                      "Y[%d,%d]*Yref[%d,%d] (lag %d, inside the averaging window) has weight %.6g, the other probed products have %.6g (%d of %d probed products deviate)"
                      % (method, Ndat, N, i, a, j, b, a, ts[n] + sign * lag, b, ts[n], lag, 0.0 if abs(W[n, i, j]) < 1e-6 * med[i, j] else W[n, i, j], med[i, j],
                         len(badn), len(ts)),
                      dict(case, t=int(ts[n]), entry=[i, a, j, b], deviating_t=[int(ts[m]) for m in badn[:20]]))


_GLUE_FORM = [0]


def glue_case(ctx, cls, method, data, ref, br, inst_ok=True, tag="class-glue", ordmax=None, calc_unc=False, nb=None, setup_form=None):
    """result.H of the algorithm class = Hankel matrix of (all channels, reference channels in the listed order) for the
    br THE USER PASSED, whatever legal ordmax goes with it; the setup's records are not altered; a second run gives the
    same matrix.  setup_form: None = SingleSetup(arr, fs=10.0); "positional" = SingleSetup(arr, 10.0) in the parameter
    order (data, fs); "keyword" = SingleSetup(data=arr, fs=10.0).  Returns result.H of the first run (None: no verdict)."""
    from pyoma2.algorithms import SSIcov
    from pyoma2.setup import SingleSetup
    l = data.shape[1]
    refl = list(range(l)) if ref is None else list(ref)
    if ordmax is None:
        ordmax = min(4, (br + 1) * len(refl))
    arr = data.copy()
    if setup_form == "positional":
        try:
            ss = SingleSetup(arr, 10.0)
        except Exception as e:
            ofail(ctx, "C12:SingleSetup:positional-call", "SingleSetup(data, fs) called positionally raised %s: %s" % (type(e).__name__, str(e)[:200]),
                  dict(kind=tag, samples=int(data.shape[0]), l=l))
            return None
    elif setup_form == "keyword":
        ss = SingleSetup(data=arr, fs=10.0)
    else:
        ss = SingleSetup(arr, fs=10.0)
    kw = dict(br=br, ordmax=ordmax, ref_ind=None if ref is None else list(ref))
    if calc_unc:
        kw.update(calc_unc=True, nb=nb)
    # construction forms, rotated over the cases: keywords / a run-parameter object handed to the constructor / a bare algorithm that gets its
    # parameters through the public set_run_params(); `method` spelled out or left to the class default where that default is the case's method
    # (SSIcov: 'cov_mm', SSIdat: 'dat') - the matrix must be the class's own method's whatever way the parameters arrive
    from pyoma2.algorithms.data.run_params import SSIRunParams
    _GLUE_FORM[0] += 1
    cform = _GLUE_FORM[0] % 3
    default_method = (cls is SSIcov and method == "cov_mm") or (cls is not SSIcov)
    mkw = dict(kw) if (default_method and _GLUE_FORM[0] % 2) else dict(kw, method=method)
    if cform == 0:
        alg = cls(name="a", **mkw)
    elif cform == 1:
        alg = cls(name="a", run_params=SSIRunParams(**mkw))
    else:
        alg = cls(name="a")
        alg.set_run_params(SSIRunParams(**mkw))
    ctx.hist("glue-construction", ("keywords", "run_params object", "set_run_params")[cform] + ("" if "method" in mkw else ", method left to the class default"))
    ss.add_algorithms(alg)
    case = dict(kind=tag, cls=cls.__name__, method=method, l=l, ref_ind=ref, br=br, ordmax=ordmax, samples=int(data.shape[0]), data=data.tolist())
    if calc_unc:
        case.update(calc_unc=True, nb=nb)
    ctx.hist("glue-orientation", (method, "wide" if data.shape[1] > data.shape[0] else "square" if data.shape[1] == data.shape[0] else "tall"))
    ctx.count(case)
    ctx.hist("glue-ordmax", (br, len(refl), l, ordmax))
    try:
        ss.run_by_name("a")
    except Exception as e:  # legal settings: nothing to observe is not a verdict on the layout, but the check no longer sees result.H
        ctx.fail("correspondence", "%s(br=%d, ordmax=%d, ref_ind=%s).run raised %s: %s" % (cls.__name__, br, ordmax, ref, type(e).__name__, str(e)[:200]),
                 case, key="C12:glue:%s:run-raised" % method)
        return None
    Hc = np.array(alg.result.H)
    ctx.hist("glue-ref", (method, "None" if ref is None else "all-natural" if refl == list(range(l)) else "all-permuted" if sorted(refl) == list(range(l))
                          else "subset-sorted" if refl == sorted(refl) else "subset-unsorted"))
    key = "C12:glue:%s" % method
    if not biteq(arr, data):
        ofail(ctx, "C12:glue:%s:input-altered" % method, "%s.run (ref_ind=%s) altered the records of the setup in place" % (cls.__name__, ref), case)
        arr[...] = data
    ss.run_by_name("a")
    Hc2 = np.array(alg.result.H)
    if Hc2.shape != Hc.shape or not np.allclose(Hc, Hc2, rtol=0, atol=1e-12 * np.abs(Hc).max()):
        ofail(ctx, "C12:glue:%s:repeat" % method, "%s (ref_ind=%s): a second run on the same setup gives a different result.H (max |H| %.6g then %.6g)"
              % (cls.__name__, ref, np.abs(Hc).max(), np.abs(Hc2).max()), case)
    Yc = np.ascontiguousarray(data.T)
    Yrc = np.array(Yc[refl, :], copy=True)
    Hd = bh(ctx, Yc, Yrc, br, method)  # independent arrays: the form that the direct checks pin down
    want = ((br + 1) * l, (br + 1) * len(refl))
    if Hd.shape != want:  # 'dat' with fewer columns than past reference rows (rank-deficient past): outside the oracle contract
        ctx.not_judged += 1
        return Hc
    if Hc.shape != want:
        ofail(ctx, "C12:glue:%s:shape" % method, "%s(br=%d, ordmax=%d, ref_ind=%s) on a table of %d samples x %d channels: result.H has shape %s, expected %s = "
              "((br+1)*%d channels, (br+1)*%d references) for the br that was passed"
              % (cls.__name__, br, ordmax, ref, data.shape[0], l, Hc.shape, want, l, len(refl)), case)
        return
    if method == "dat":
        G, cond = projection_gram(Yc, Yrc, br)
        HH, HHd = Hc @ Hc.T, Hd @ Hd.T
        if G is None:
            ctx.not_judged += 1
        elif not np.allclose(HH, np.trace(HH) / np.trace(G) * G, rtol=0, atol=1e-8 * np.abs(HH).max()):
            ofail(ctx, key, "%s.result.H (ref_ind=%s): H H^T is not a positive multiple of the Gram matrix of the projection of the future outputs on the "
                  "past outputs of the reference channels in the listed order" % (cls.__name__, ref), case)
            return
        if not np.allclose(HH, HHd, rtol=0, atol=1e-9 * np.abs(HHd).max()):
            ofail(ctx, key, "%s.result.H (ref_ind=%s): Gram matrix is not that of build_hank(all channels, reference channels in listed order): "
                  "expected trace %.6g, got %.6g" % (cls.__name__, ref, np.trace(HHd), np.trace(HH)), case)
            return
    else:
        if inst_ok:
            Hdef = independent_vec(method, Yc, Yrc, br)
            if not np.allclose(Hc, Hdef, rtol=0, atol=1e-9 * max(1.0, np.abs(Hdef).max())):
                I, J = np.unravel_index(np.argmax(np.abs(Hc - Hdef)), Hc.shape)
                ofail(ctx, key, "%s.result.H (ref_ind=%s) differs from the definition with the reference channels in the listed order: entry (%d,%d) expected %.6g, got %.6g"
                      % (cls.__name__, ref, I, J, Hdef[I, J], Hc[I, J]), case)
                return
    if not np.allclose(Hc, Hd, rtol=1e-10, atol=1e-12 * np.abs(Hd).max()):
        ofail(ctx, key, "%s.result.H (ref_ind=%s) is not build_hank(all channels, reference channels in listed order)" % (cls.__name__, ref), case)
    return Hc


def multi_data(seed, ndats, nsens):
    g = np.random.default_rng(seed)
    return [g.integers(-64, 65, size=(nd, ns)) / 16.0 for nd, ns in zip(ndats, nsens)]


def multi_case(ctx, clsname, method, datasets, ref_ind, br, ordmax, inst_ok=True, tag="multi-setup", desc=None, positional=False):
    """Multi-setup path (MultiSetup_PreGER -> SSIcov_MS / SSIdat_MS -> ssi.SSI_multi_setup): every per-setup Hankel matrix
    is observed by wrapping pyoma2.functions.ssi.build_hank from here.  For setup k: data argument = [reference channels
    in the listed order; remaining channels in natural order], reference argument = the reference records, br and method
    as passed, result of shape (br+1)*(n_ref+n_mov) x (br+1)*n_ref with the entries of the definition.
    positional=True: the setup is built as MultiSetup_PreGER(fs, ref_ind, datasets) without keywords (hard-coded order).
    Returns the list of observed per-setup Hankel matrices."""
    import inspect
    import pyoma2.algorithms as algs
    from pyoma2.setup import MultiSetup_PreGER
    cls = getattr(algs, clsname)
    case = dict(kind=tag, cls=clsname, method=method, br=br, ordmax=ordmax, ref_ind=ref_ind, shapes=[list(d.shape) for d in datasets],
                datasets=desc if desc is not None else [d.tolist() for d in datasets])
    ctx.count(case)
    ctx.hist("multi", (method, [(len(r), d.shape[1] - len(r)) for r, d in zip(ref_ind, datasets)]))
    orig = ssi.build_hank
    sig = inspect.signature(orig)
    calls = []

    def recorder(*a, **k):
        b = sig.bind(*a, **k)
        b.apply_defaults()
        Y, Yr = b.arguments["Y"], b.arguments["Yref"]
        y0, r0 = np.array(Y, copy=True), np.array(Yr, copy=True)
        out = orig(*a, **k)
        calls.append(dict(Y=y0, Yref=r0, br=b.arguments["br"], method=b.arguments["method"], H=np.array(out[0], copy=True),
                          altered=not (biteq(np.asarray(Y), y0) and biteq(np.asarray(Yr), r0))))
        return out

    raised = None
    ssi.build_hank = recorder
    try:
        if positional:
            msp = MultiSetup_PreGER(10.0, [list(r) for r in ref_ind], [d.copy() for d in datasets])
        else:
            msp = MultiSetup_PreGER(fs=10.0, ref_ind=[list(r) for r in ref_ind], datasets=[d.copy() for d in datasets])
        alg = cls(name="m", method=method, br=br, ordmax=ordmax) if clsname == "SSIcov_MS" else cls(name="m", br=br, ordmax=ordmax)
        msp.add_algorithms(alg)
        msp.run_by_name("m")
    except Exception as e:
        raised = "%s: %s" % (type(e).__name__, str(e)[:200])
    finally:
        ssi.build_hank = orig
    nbad = 0
    for k, c in enumerate(calls[:len(datasets)]):
        d, ref = datasets[k], list(ref_ind[k])
        mov = [i for i in range(d.shape[1]) if i not in ref]
        n_ref, n_mov = len(ref), len(mov)
        Yr_exp = np.ascontiguousarray(d[:, ref].T)
        Y_exp = np.vstack([Yr_exp, d[:, mov].T])
        casek = dict(case, setup=k, n_ref=n_ref, n_mov=n_mov)
        key = "C12:multi:%s" % method
        where = "%s, setup %d (n_ref=%d, n_mov=%d, br=%d)" % (clsname, k, n_ref, n_mov, br)
        probs = []
        if c["method"] != method or int(c["br"]) != br:
            probs.append("build_hank is called with br=%s, method=%s instead of br=%d, method=%s" % (c["br"], c["method"], br, method))
        if c["Y"].shape != Y_exp.shape or not np.array_equal(c["Y"], Y_exp):
            probs.append("the data argument (shape %s) is not [reference records in listed order; moving records] (shape %s)" % (c["Y"].shape, Y_exp.shape))
        if c["Yref"].shape != Yr_exp.shape or not np.array_equal(c["Yref"], Yr_exp):
            probs.append("the reference argument has shape %s and is not the setup's %d reference records (channels %s)%s"
                         % (c["Yref"].shape, n_ref, ref, ": it holds the first %d rows of [ref; mov]" % c["Yref"].shape[0]
                            if c["Yref"].shape[0] <= Y_exp.shape[0] and np.array_equal(c["Yref"], Y_exp[:c["Yref"].shape[0]]) else ""))
        H = c["H"]
        want = ((br + 1) * (n_ref + n_mov), (br + 1) * n_ref)
        if H.shape != want:
            probs.append("expected H of shape %s = ((br+1)*(n_ref+n_mov), (br+1)*n_ref), got %s" % (want, H.shape))
        else:
            Hd = bh(ctx, Y_exp.copy(), Yr_exp.copy(), br, method)
            if method == "dat":
                G, cond = projection_gram(Y_exp, Yr_exp, br)
                HH = H @ H.T
                if G is None:
                    ctx.not_judged += 1
                elif not np.allclose(HH, np.trace(HH) / np.trace(G) * G, rtol=0, atol=1e-8 * np.abs(HH).max()):
                    probs.append("H H^T is not a positive multiple of the Gram matrix of the projection of the setup's future outputs on its past reference outputs")
                if not np.allclose(HH, Hd @ Hd.T, rtol=0, atol=1e-9 * np.abs(Hd @ Hd.T).max()):
                    probs.append("Gram matrix differs from that of build_hank(setup records, setup references): trace %.6g against %.6g" % (np.trace(HH), np.trace(Hd @ Hd.T)))
            else:
                Hdef = independent_vec(method, Y_exp, Yr_exp, br) if inst_ok else Hd
                if not np.allclose(H, Hdef, rtol=0, atol=1e-9 * max(1.0, np.abs(Hdef).max())):
                    I, J = np.unravel_index(np.argmax(np.abs(H - Hdef)), H.shape)
                    probs.append("entry (%d,%d) is %.6g, the definition (lag %s of channel %d with reference %d) gives %.6g"
                                 % (I, J, H[I, J], "i+j+1" if method == "cov_mm" else "br+i-j", I % (n_ref + n_mov), J % n_ref, Hdef[I, J]))
        if c["altered"]:
            ofail(ctx, "C12:%s:input-altered" % method, "%s: build_hank altered its arguments in place" % where, casek)
        if probs:
            nbad += 1
            ofail(ctx, key, "%s: %s" % (where, "; ".join(probs)), casek)
    if positional and len(calls) != len(datasets):
        ofail(ctx, "C12:MultiSetup_PreGER:positional-call", "MultiSetup_PreGER(fs, ref_ind, datasets) built positionally + %s(%s): %d Hankel matrices observed for %d setups%s"
              % (clsname, method, len(calls), len(datasets), "" if raised is None else " (raised %s)" % raised), case)
    if len(calls) != len(datasets) and not nbad:
        ctx.fail("correspondence", "%s(%s): %d build_hank calls observed for %d setups%s" % (clsname, method, len(calls), len(datasets), "" if raised is None else " (run raised %s)" % raised),
                 case, key="C12:multi:%s:calls" % method)
    elif raised is not None and not nbad:
        ctx.note("multi-setup run raised after the Hankel matrices were built (not judged here): %s" % raised)
    return [c["H"] for c in calls]


def unc_grid(quick):
    """(nb, N) with N % nb in {0, 1, nb-1}, N < nb, N == nb and N a multiple of nb."""
    out = []
    for nb in (2, 3, 4, 5):
        for N in sorted({nb - 1, nb, nb + 1, 2 * nb - 1, 2 * nb, 2 * nb + 1, 3 * nb} | (set() if quick else {3 * nb + 1, 4 * nb - 1, 4 * nb})):
            if N >= 2:
                out.append((nb, N))
    return out


def unc_case(ctx, rng, l, r, br, Ndat, nb, pending, Y=None, ref=None, basis=True, tag="calc_unc", cache=None):
    """build_hank(..., 'cov_mm', calc_unc=True, nb): the returned Hankel matrix is the same uniform-weight single-lag
    matrix as with calc_unc=False - measured on the whole impulse basis (basis=True) and compared on random data with
    the calc_unc=False matrix, the definition and the exact Coq model.  nb=None = the default (100).  T is not judged."""
    method = "cov_mm"
    N = Ndat - 2 * br - 1
    nbe = 100 if nb is None else nb
    case0 = dict(kind=tag, method=method, calc_unc=True, nb=nb, l=l, r=r, br=br, Ndat=Ndat, N=N, N_mod_nb=N % nbe, N_div_nb=N // nbe)
    ctx.hist("calc_unc N%nb", (nbe if nbe < 100 else "default", "N<nb" if N < nbe else "N==nb" if N == nbe else "r=%s" % ("nb-1" if N % nbe == nbe - 1 and nbe > 2 else N % nbe)))
    inst_ok = True
    if basis:
        cu, err = measure(ctx, method, l, r, br, Ndat, calc_unc=True, nb=nb)
        ctx.count(dict(case0, kind=tag + ":impulse-basis"))
        if err:
            ofail(ctx, "C12:cov_mm:calc_unc:shape", "build_hank cov_mm calc_unc=True nb=%s: %s" % (nb, err), case0)
            return
        keyc = (l, r, br, Ndat)
        if cache is not None and keyc in cache:
            c0 = cache[keyc]
        else:
            c0, err0 = measure(ctx, method, l, r, br, Ndat)
            if cache is not None:
                cache[keyc] = c0
        params, bad = structure(cu, method, l, r, br, Ndat)
        if bad:
            ofail(ctx, "C12:cov_mm:calc_unc:structure", "build_hank cov_mm calc_unc=True nb=%s (N=%d, N %% nb = %d): %s" % (nb, N, N % nbe, bad["what"]), dict(case0, **bad))
        if c0 is not None and not np.allclose(cu, c0, rtol=0, atol=1e-12 * np.abs(c0).max()):
            I, J, a, t1, b, t2 = (int(v) for v in np.unravel_index(np.argmax(np.abs(cu - c0)), cu.shape))
            ofail(ctx, "C12:cov_mm:calc_unc:weights", "build_hank cov_mm calc_unc=True nb=%s (Ndat=%d, br=%d, N=%d, N %% nb = %d): Hank is not the calc_unc=False matrix: in entry (%d,%d) "
                  "the product Y[%d,%d]*Yref[%d,%d] has weight %.9g instead of %.9g (weights of that entry: %s)"
                  % (nb, Ndat, br, N, N % nbe, I, J, a, t1, b, t2, cu[I, J, a, t1, b, t2], c0[I, J, a, t1, b, t2],
                     [round(float(v), 6) for v in cu[I, J, a, :, b, :][cu[I, J, a, :, b, :] != 0][:8]]),
                  dict(case0, entry=[I, J], product=[a, t1, b, t2]))
        if c0 is not None:
            p0, bad0 = structure(c0, method, l, r, br, Ndat)
            inst_ok = bad0 is None and all(p0[(i, j)][0] == list(range(br + 1 - j, br + 1 - j + N - 1)) and abs(p0[(i, j)][1] - 1.0 / N) < 1e-12 and p0[(i, j)][3] == 0
                                           for i in range(br + 1) for j in range(br + 1))
    else:
        conv = convention(ctx, method, br)
        inst_ok = bool(conv) and conv[1]
    # random data
    if Y is None:
        Y = dyad(rng, (l, Ndat))
        Y[Y == 0] = 0.25
        if ref is None and r <= l and rng.random() < 0.5:
            ref = rng.permutation(l)[:r].tolist()
    Yr = Y[list(ref)] if ref is not None else (dyad(rng, (r, Ndat)) + 0.125)
    case = dict(case0, ref=ref, Y=Y.tolist() if Y.size <= 600 else "see data", Yref=Yr.tolist() if Yr.size <= 600 else "see data")
    ctx.count(case)
    Hu = bh(ctx, Y, Yr, br, method, case, calc_unc=True, nb=nb)
    Hp = bh(ctx, Y, Yr, br, method, case)
    what = "calc_unc=True nb=%s (Ndat=%d, br=%d, N=%d, N %% nb = %d)" % (nb, Ndat, br, N, N % nbe)
    if Hu.shape != Hp.shape or not np.allclose(Hu, Hp, rtol=0, atol=1e-9 * max(1.0, np.abs(Hp).max())):
        ofail(ctx, "C12:cov_mm:calc_unc:same", "build_hank cov_mm %s: the returned Hankel matrix differs from the calc_unc=False one (shape %s/%s, max deviation %.6g of %.6g)"
              % (what, Hu.shape, Hp.shape, np.abs(Hu - Hp).max() if Hu.shape == Hp.shape else float("nan"), np.abs(Hp).max()), case)
    if inst_ok and Hu.shape == ((br + 1) * l, (br + 1) * r):
        Hdef = independent_vec(method, Y, Yr, br)
        if not np.allclose(Hu, Hdef, rtol=0, atol=1e-9 * max(1.0, np.abs(Hdef).max())):
            I, J = np.unravel_index(np.argmax(np.abs(Hu - Hdef)), Hu.shape)
            ofail(ctx, "C12:cov_mm:calc_unc:def", "build_hank cov_mm %s: entry (%d,%d) is %.9g, the uniform-weight cross-correlation at lag %d is %.9g"
                  % (what, I, J, Hu[I, J], I // l + J // r + 1, Hdef[I, J]), case)
        if Y.size <= 600:
            pending[0].append("showMat (hank_mm_l QcOps %s %d %d %d %d %s %s)" % (qc(Fraction(1, N)), l, r, br, Ndat, qc_mat(Y), qc_mat(Yr)))
            pending[1].append((method, case0, [(case, Hu, what)], "the same records (uniform weight 1/N)", "calc_unc"))


ALL_DTYPES = ["float64", "int8", "int16", "int32", "int64", "uint8", "uint16", "uint32", "uint64"]
DTYPE_RANGES = [
    # name, lowest value, highest value (the dtypes that hold every value exactly are worked out from the values)
    ("signed-small", -120, 120),          # int8 products leave int8
    ("counts-120", 60, 127),              # fits all nine dtypes
    ("counts-200", 150, 255),             # uint8 offset-binary counts: products leave uint8/int16 sums leave int16
    ("signed-30000", -32768, 32767),
    ("counts-60000", 50000, 65535),       # uint16 counts: products leave uint16, uint32 and int32
    ("signed-2e9", -2**31, 2**31 - 1),
    ("counts-4e9", 3 * 10**9, 2**32 - 1),  # uint32 counts: products leave uint32 and int64/uint64
]


def holds(dt, V):
    info = np.iinfo(dt) if dt != "float64" else None
    return info is None or (int(V.min()) >= info.min and int(V.max()) <= info.max)


def dtype_case(ctx, method, V, ref, br, dtypes, pending, inst_ok=True, tag="dtype"):
    """The same integer-valued record V (int64 array) presented in every dtype that holds it exactly: build_hank must
    return the block matrix of the exact integer model (Coq model on the integers, queued in `pending`; exact
    Python-integer construction of the definition here), to float tolerance, whatever the storage dtype.
    ref = list of row indices (fancy copy in the same dtype), or "same" (Yref is Y)."""
    l, Ndat = V.shape
    N = Ndat - 2 * br - 1
    Vr = V if ref == "same" else V[list(ref)]
    r = Vr.shape[0]
    case0 = dict(kind=tag, method=method, l=l, r=r, br=br, Ndat=Ndat, ref=ref, Y=V.tolist())
    Yf, Yrf = V.astype(float), Vr.astype(float)
    # exact construction of the definition with Python integers (cov) / projection Gram on the values (dat)
    if method == "dat":
        G, cond = projection_gram(Yf, Yrf, br)
        if G is None:
            ctx.not_judged += 1
            return
        Hdef = None
    else:
        Hdef = independent_vec(method, np.array(V.tolist(), dtype=object), np.array(Vr.tolist(), dtype=object), br).astype(float) if inst_ok else None
    # exact model in Coq on the integer values (evaluated later, in one batch)
    if inst_ok:
        if method == "cov_mm":
            pending[0].append("showMat (hank_mm_l QcOps %s %d %d %d %d %s %s)" % (qc(Fraction(1, N)), l, r, br, Ndat, qc_mat(Yf), qc_mat(Yrf)))
        elif method == "cov_R":
            pending[0].append("showMat (hank_R_l QcOps (fun n => Qcinv (Q2Qc (Z.of_nat n # 1))) %d %d %d %d %s %s)" % (l, r, br, Ndat, qc_mat(Yf), qc_mat(Yrf)))
        else:
            pending[0].append("showMat (dat_YfYpT_l QcOps %d %d %d %d %s %s) ++ \"|\" ++ showMat (dat_YpYpT_l QcOps %d %d %d %s)"
                              % (l, r, br, Ndat, qc_mat(Yf), qc_mat(Yrf), r, br, Ndat, qc_mat(Yrf)))
        results = []
        pending[1].append((method, case0, results))
    else:
        results = []
    Href = None
    for dt in dtypes:
        if not (holds(dt, V) and holds(dt, Vr)):
            continue
        presentations = [(dt, dt)]
        if dt != "float64":
            presentations += [(dt, "float64"), ("float64", dt)]
        for dy, dr in presentations:
            if ref == "same" and dy != dr:
                continue
            Y = V.astype(dy)
            Yr = Y if ref == "same" else Vr.astype(dr)
            case = dict(case0, dtype_Y=dy, dtype_Yref=dr)
            ctx.count(case)
            ctx.hist("record-dtype", (method, dy, dr))
            try:
                H = bh(ctx, Y, Yr, br, method, case)
            except Exception as e:
                ofail(ctx, "C12:%s:dtype-raised" % method, "build_hank %s raised %s for records stored as %s/%s: %s" % (method, type(e).__name__, dy, dr, str(e)[:200]), case)
                continue
            what = "records stored as %s (Y) / %s (Yref), values %d..%d" % (dy, dr, int(V.min()), int(V.max()))
            if H.shape != ((br + 1) * l, (br + 1) * r) or not np.all(np.isfinite(H)):
                ofail(ctx, "C12:%s:shape" % method, "build_hank %s, %s: shape %s / non-finite entries" % (method, what, H.shape), case)
                continue
            results.append((case, H, what))
            if method == "dat":
                HH = H @ H.T
                ratio = np.trace(HH) / np.trace(G)
                if not (ratio > 0) or not np.allclose(HH, ratio * G, rtol=0, atol=1e-8 * np.abs(HH).max()):
                    ofail(ctx, "C12:dat:dtype", "build_hank dat, %s: H H^T is not a positive multiple of the projection Gram of the integer values (trace %.9g against %.9g)"
                          % (what, np.trace(HH), np.trace(G)), case)
                cmp_, name = HH, "Gram matrix"
            else:
                if Hdef is not None and not np.allclose(H, Hdef, rtol=0, atol=1e-9 * max(1.0, np.abs(Hdef).max())):
                    I, J = np.unravel_index(np.argmax(np.abs(H - Hdef)), H.shape)
                    i, j = I // l, J // r
                    ofail(ctx, "C12:%s:dtype" % method, "build_hank %s, %s: entry (%d,%d) is not the sample cross-correlation at lag %d computed exactly on the integer values: "
                          "expected %.9g, got %.9g" % (method, what, I, J, i + j + 1 if method == "cov_mm" else br + i - j, Hdef[I, J], H[I, J]), case)
                cmp_, name = H, "matrix"
            if Href is None:
                Href = (cmp_, what)
            elif not np.allclose(cmp_, Href[0], rtol=0, atol=1e-9 * max(1.0, np.abs(Href[0]).max())):
                ofail(ctx, "C12:%s:dtype-consistency" % method, "build_hank %s: the %s depends on the storage dtype of the same integer values: %s against %s, max deviation %.6g of %.6g"
                      % (method, name, what, Href[1], np.abs(cmp_ - Href[0]).max(), np.abs(Href[0]).max()), case)


def dtype_flush(ctx, pending):
    """Coq side of dtype_case: the exact model on the integer values against every presentation."""
    res = ctx.coq_eval(HEADER, pending[0], shard=8)
    for item, s in zip(pending[1], res):
        method, case0, results = item[:3]
        label, ksuf = (item[3], item[4]) if len(item) > 3 else ("the integer values", "dtype")
        if method == "dat":
            a, b = s.split("|")
            P = np.array([[float(x) for x in row] for row in parse_mat(a)])
            S = np.array([[float(x) for x in row] for row in parse_mat(b)])
            if np.linalg.cond(S) > 1e8:
                ctx.not_judged += 1
                continue
            M = P @ np.linalg.solve(S, P.T)
        else:
            M = np.array([[float(x) for x in row] for row in parse_mat(s)])
        for case, H, what in results:
            if method == "dat":
                HH = H @ H.T
                ok = HH.shape == M.shape and np.allclose(HH, np.trace(HH) / np.trace(M) * M, rtol=0, atol=1e-8 * np.abs(HH).max())
            else:
                ok = H.shape == M.shape and np.allclose(H, M, rtol=0, atol=1e-9 * max(1.0, np.abs(M).max()))
            if not ok:
                ctx.fail("correspondence", "build_hank %s, %s: differs from the exact model evaluated on %s" % (method, what, label), case,
                         key="C12:%s:corr-%s" % (method, ksuf))


def run_corpus(ctx, rng, pending):
    from pyoma2.algorithms import SSIcov, SSIdat
    for path in sorted(glob.glob(os.path.join(VERIF, "corpus", "C12", "*.json"))):
        c = json.load(open(path))
        tag = "corpus:" + os.path.basename(path)
        ctx.hist("corpus", os.path.basename(path))
        if c["kind"] == "alias":
            alias_case(ctx, c["method"], np.array(c["Y"], dtype=float), c["br"], c["r"], c["forms"], tag=tag)
        elif c["kind"] == "long":
            long_case(ctx, rng, c["method"], c["Ndat"], c["l"], c["r"], c["br"], c["form"], c["data_seed"], extra=c.get("probe_t", ()), tag=tag)
        elif c["kind"] == "glue":
            glue_case(ctx, SSIdat if c["cls"] == "SSIdat" else SSIcov, c["method"], np.array(c["data"], dtype=float), c["ref_ind"], c["br"], tag=tag,
                      ordmax=c.get("ordmax"), calc_unc=c.get("calc_unc", False), nb=c.get("nb"))
        elif c["kind"] == "unc":
            Y = np.array(c["Y"], dtype=float) if "Y" in c else None
            if Y is None:
                Y = long_data(c["data_seed"], c["l"], c["Ndat"])
            unc_case(ctx, rng, c["l"], c["r"], c["br"], c["Ndat"], c.get("nb"), pending, Y=Y, ref=c["ref"], basis=c.get("basis", True), tag=tag)
        elif c["kind"] == "dtype":
            conv = True if c["method"] == "dat" else convention(ctx, c["method"], c["br"])
            dtype_case(ctx, c["method"], np.array(c["Y"], dtype=np.int64), c["ref"], c["br"], c.get("dtypes", ALL_DTYPES), pending, tag=tag,
                       inst_ok=bool(conv) and (conv is True or conv[1]))
        elif c["kind"] == "multi":
            ds = multi_data(c["data_seed"], c["ndats"], c["nsens"])
            for clsname, method in c["runs"]:
                multi_case(ctx, clsname, method, ds, c["ref_ind"], c["br"], c["ordmax"], tag=tag,
                           desc="[default_rng(data_seed).integers(-64, 65, (ndat, nsens))/16 for ndat, nsens in zip(%s, %s)], drawn in this order, data_seed=%s"
                           % (c["ndats"], c["nsens"], c["data_seed"]))


# Parameter order of the PRISTINE signatures, hard-coded (never read from the tree under test):
#   ssi.build_hank(Y, Yref, br, method, calc_unc=False, nb=100)
#   ssi.SSI_multi_setup(Y, fs, br, ordmax, method_hank, step=1)
#   SingleSetup(data, fs)      MultiSetup_PreGER(fs, ref_ind, datasets)      setup.add_algorithms(*algorithms)      setup.run_by_name(name)
BUILD_HANK_ORDER = ("Y", "Yref", "br", "method", "calc_unc", "nb")
SSI_MULTI_SETUP_ORDER = ("Y", "fs", "br", "ordmax", "method_hank", "step")


def _same(a, b):
    if a is None or b is None:
        return a is None and b is None
    a, b = np.asarray(a), np.asarray(b)
    return a.shape == b.shape and a.tobytes() == b.tobytes()


def positional_calls(ctx):
    """Every entry point the check drives, called fully positionally in the pristine parameter order with non-default
    values, must give (a) the answer of the keyword call, bit for bit, and (b) the property's matrix.  Own random stream
    (derived from the seed) so that the other sections draw what they drew before."""
    from pyoma2.algorithms import SSIcov, SSIdat
    rng = np.random.default_rng([int(ctx.seed), 12, 4242])

    # ---- ssi.build_hank(Y, Yref, br, method, calc_unc, nb)
    # cov_mm: calc_unc=True and nb != 100 (T returned, nb columns); cov_R / dat: calc_unc must stay False (True is a
    # documented error), nb = 7: a value landing in the calc_unc slot raises, one lost to a new parameter changes T.
    key = "C12:build_hank:positional-call"
    plan = [("cov_mm", True, 3), ("cov_mm", True, 4), ("cov_mm", True, 5), ("cov_mm", True, 2), ("cov_R", False, 7), ("cov_R", False, 7), ("dat", False, 7), ("dat", False, 7)]
    for n, (method, cu, nb) in enumerate(plan):
        l, r, br = [(3, 2, 2), (2, 1, 3), (4, 3, 1), (3, 1, 2)][n % 4]
        N = 3 * nb + 1 + int(rng.integers(0, 3)) + (3 * (br + 1) * (l + r) if method == "dat" else 0)
        Ndat = N + 2 * br + 1
        Y0 = dyad(rng, (l, Ndat))
        Y0[Y0 == 0] = 0.25
        ref = rng.permutation(l)[:r].tolist()
        Yr0 = Y0[ref] if n % 2 == 0 else dyad(rng, (r, Ndat)) + 0.125
        case = dict(kind="positional-call", entry="ssi.build_hank", order=list(BUILD_HANK_ORDER), method=method, l=l, r=r, br=br, Ndat=Ndat, calc_unc=cu, nb=nb,
                    Y=Y0.tolist(), Yref=Yr0.tolist())
        ctx.count(case)
        ctx.hist("positional-call", ("build_hank", method, cu, nb))
        Hk, Tk = ssi.build_hank(Y=Y0.copy(), Yref=Yr0.copy(), br=br, method=method, calc_unc=cu, nb=nb)
        what = "build_hank(Y, Yref, %d, %r, %r, %d) called positionally" % (br, method, cu, nb)
        try:
            out = ssi.build_hank(Y0.copy(), Yr0.copy(), br, method, cu, nb)
            Hp, Tp = out
        except Exception as e:
            ofail(ctx, key, "%s raised %s: %s (the keyword call returns a %s matrix)" % (what, type(e).__name__, str(e)[:200], Hk.shape), case)
            continue
        if not _same(Hk, Hp) or not _same(Tk, Tp):
            ofail(ctx, key, "%s does not return what the keyword call returns: Hankel %s against %s (max deviation %s), T %s against %s"
                  % (what, np.shape(Hp), np.shape(Hk), "%.3g" % np.abs(Hp - Hk).max() if np.shape(Hp) == np.shape(Hk) else "n/a",
                     None if Tp is None else np.shape(Tp), None if Tk is None else np.shape(Tk)), case)
            continue
        # (b) the property on the positional call: shape, the definition / projection Gram, T present exactly for calc_unc with nb columns
        want = ((br + 1) * l, (br + 1) * r)
        if np.shape(Hp) != want or (Tp is None) == cu or (cu and np.shape(Tp)[-1] != nb):
            ofail(ctx, key, "%s: Hankel matrix of shape %s (expected %s), T %s (expected %s)"
                  % (what, np.shape(Hp), want, None if Tp is None else np.shape(Tp), "%d columns" % nb if cu else None), case)
            continue
        if method == "dat":
            G, cond = projection_gram(Y0, Yr0, br)
            HH = Hp @ Hp.T
            if G is None:
                ctx.not_judged += 1
            elif not np.allclose(HH, np.trace(HH) / np.trace(G) * G, rtol=0, atol=1e-8 * np.abs(HH).max()):
                ofail(ctx, key, "%s: H H^T is not a positive multiple of the projection Gram" % what, case)
        else:
            conv = convention(ctx, method, br)
            if conv and conv[1]:
                Hdef = independent_vec(method, Y0, Yr0, br)
                if not np.allclose(Hp, Hdef, rtol=0, atol=1e-9 * max(1.0, np.abs(Hdef).max())):
                    ofail(ctx, key, "%s differs from the definition (independent construction), max deviation %.3g" % (what, np.abs(Hp - Hdef).max()), case)

    # ---- ssi.SSI_multi_setup(Y, fs, br, ordmax, method_hank, step): br != ordmax, step = 2; the per-setup Hankel matrices are
    #      observed by wrapping ssi.build_hank
    key = "C12:SSI_multi_setup:positional-call"
    orig = ssi.build_hank

    def observed(fn):
        calls = []

        def recorder(Y, Yref, br, method, *a, **k):
            out = orig(Y, Yref, br, method, *a, **k)
            calls.append(dict(Y=np.array(Y, copy=True), Yref=np.array(Yref, copy=True), br=br, method=method, H=np.array(out[0], copy=True)))
            return out
        ssi.build_hank = recorder
        try:
            return fn(), calls
        finally:
            ssi.build_hank = orig

    for n, (method, br, ordmax, n_ref, n_movs) in enumerate([("cov_mm", 3, 4, 2, (1, 3)), ("cov_R", 2, 3, 2, (3, 1, 2)), ("dat", 4, 2, 1, (2, 1))]):
        step = 2
        Ys = []
        for m in n_movs:
            d = dyad(rng, (int(rng.integers(150, 220)), n_ref + m))
            Ys.append({"ref": np.ascontiguousarray(d[:, :n_ref].T), "mov": np.ascontiguousarray(d[:, n_ref:].T)})
        case = dict(kind="positional-call", entry="ssi.SSI_multi_setup", order=list(SSI_MULTI_SETUP_ORDER), method=method, fs=12.5, br=br, ordmax=ordmax, step=step,
                    Y=[dict(ref=y["ref"].tolist(), mov=y["mov"].tolist()) for y in Ys])
        ctx.count(case)
        ctx.hist("positional-call", ("SSI_multi_setup", method, br, ordmax, step))
        fresh = lambda: [dict(ref=y["ref"].copy(), mov=y["mov"].copy()) for y in Ys]  # noqa: E731
        (Ok, Ak, Ck), calls_k = observed(lambda: ssi.SSI_multi_setup(Y=fresh(), fs=12.5, br=br, ordmax=ordmax, method_hank=method, step=step))
        what = "SSI_multi_setup(Y, 12.5, %d, %d, %r, %d) called positionally" % (br, ordmax, method, step)
        try:
            (Op, Ap, Cp), calls_p = observed(lambda: ssi.SSI_multi_setup(fresh(), 12.5, br, ordmax, method, step))
        except Exception as e:
            ofail(ctx, key, "%s raised %s: %s" % (what, type(e).__name__, str(e)[:200]), case)
            continue
        probs = []
        if len(calls_p) != len(calls_k) or not all(_same(a["H"], b["H"]) and a["br"] == b["br"] and a["method"] == b["method"] for a, b in zip(calls_p, calls_k)):
            probs.append("builds other Hankel matrices than the keyword call (%s against %s)"
                         % ([(c["br"], c["method"], c["H"].shape) for c in calls_p], [(c["br"], c["method"], c["H"].shape) for c in calls_k]))
        if not _same(Ok, Op) or len(Ap) != len(Ak) or len(Cp) != len(Ck) or not all(_same(a, b) for a, b in zip(list(Ap) + list(Cp), list(Ak) + list(Ck))):
            probs.append("returns other matrices than the keyword call (observability %s against %s, %d against %d orders)" % (np.shape(Op), np.shape(Ok), len(Ap), len(Ak)))
        # (b) hard-coded expectation
        n_dof = n_ref + sum(n_movs)
        if np.shape(Op) != (n_dof * br, ordmax) or len(Ap) != len(range(0, ordmax + 1, step)):
            probs.append("observability matrix %s for %d orders, expected %s for %d orders (br=%d, ordmax=%d, step=%d)"
                         % (np.shape(Op), len(Ap), (n_dof * br, ordmax), len(range(0, ordmax + 1, step)), br, ordmax, step))
        if len(calls_p) != len(Ys):
            probs.append("%d Hankel matrices built for %d setups" % (len(calls_p), len(Ys)))
        for k, (c, y) in enumerate(zip(calls_p, Ys)):
            Y_exp = np.vstack([y["ref"], y["mov"]])
            want = ((br + 1) * Y_exp.shape[0], (br + 1) * n_ref)
            if c["br"] != br or c["method"] != method or not np.array_equal(c["Y"], Y_exp) or not np.array_equal(c["Yref"], y["ref"]) or c["H"].shape != want:
                probs.append("setup %d: build_hank got br=%r, method=%r, data %s, references %s and returned %s; expected br=%d, method=%r, [ref; mov] %s, ref %s, H %s"
                             % (k, c["br"], c["method"], c["Y"].shape, c["Yref"].shape, c["H"].shape, br, method, Y_exp.shape, y["ref"].shape, want))
                continue
            if method == "dat":
                G, cond = projection_gram(Y_exp, y["ref"], br)
                HH = c["H"] @ c["H"].T
                if G is None:
                    ctx.not_judged += 1
                elif not np.allclose(HH, np.trace(HH) / np.trace(G) * G, rtol=0, atol=1e-8 * np.abs(HH).max()):
                    probs.append("setup %d: H H^T is not a positive multiple of the projection Gram" % k)
            else:
                conv = convention(ctx, method, br)
                if conv and conv[1]:
                    Hdef = independent_vec(method, Y_exp, y["ref"], br)
                    if not np.allclose(c["H"], Hdef, rtol=0, atol=1e-9 * max(1.0, np.abs(Hdef).max())):
                        probs.append("setup %d: the Hankel matrix differs from the definition, max deviation %.3g" % (k, np.abs(c["H"] - Hdef).max()))
        if probs:
            ofail(ctx, key, "%s: %s" % (what, "; ".join(probs)), case)

    # ---- SingleSetup(data, fs) [+ add_algorithms(alg), run_by_name(name): one parameter each, always called positionally here]
    for n, (cls, method) in enumerate(((SSIcov, "cov_mm"), (SSIcov, "cov_R"), (SSIdat, "dat"))):
        l = 3 + n % 2
        br = 2 + n
        data = dyad(rng, (240, l))
        ref = rng.permutation(l)[:2].tolist()
        conv = True if method == "dat" else convention(ctx, method, br)
        ok = bool(conv) and (conv is True or conv[1])
        Hk = glue_case(ctx, cls, method, data, ref, br, inst_ok=ok, tag="positional-call:keyword-form", setup_form="keyword")
        Hp = glue_case(ctx, cls, method, data, ref, br, inst_ok=ok, tag="positional-call:positional-form", setup_form="positional")
        ctx.hist("positional-call", ("SingleSetup", method))
        if Hk is not None and (Hp is None or not _same(Hk, Hp)):
            ofail(ctx, "C12:SingleSetup:positional-call", "SingleSetup(data, 10.0) built positionally + %s(ref_ind=%s, br=%d): result.H %s, with SingleSetup(data=..., fs=...) it is %s%s"
                  % (cls.__name__, ref, br, "not available" if Hp is None else np.shape(Hp), np.shape(Hk),
                     "" if Hp is None or np.shape(Hp) != np.shape(Hk) else ", max deviation %.3g" % np.abs(Hp - Hk).max()),
                  dict(kind="positional-call", entry="SingleSetup", order=["data", "fs"], cls=cls.__name__, method=method, ref_ind=ref, br=br, data=data.tolist()))

    # ---- MultiSetup_PreGER(fs, ref_ind, datasets)
    for n, (clsname, method) in enumerate((("SSIcov_MS", "cov_mm"), ("SSIcov_MS", "cov_R"), ("SSIdat_MS", "dat"))):
        n_ref, n_movs, br, ordmax = [(2, (1, 3), 3, 4), (1, (2, 1, 3), 2, 2), (2, (3, 1), 2, 3)][n]
        datasets = [dyad(rng, (int(rng.integers(200, 260)), n_ref + m)) for m in n_movs]
        ref_ind = [rng.permutation(d.shape[1])[:n_ref].tolist() for d in datasets]
        conv = True if method == "dat" else convention(ctx, method, br)
        ok = bool(conv) and (conv is True or conv[1])
        Hk = multi_case(ctx, clsname, method, datasets, ref_ind, br, ordmax, inst_ok=ok, tag="positional-call:keyword-form")
        Hp = multi_case(ctx, clsname, method, datasets, ref_ind, br, ordmax, inst_ok=ok, tag="positional-call:positional-form", positional=True)
        ctx.hist("positional-call", ("MultiSetup_PreGER", method))
        if len(Hk) != len(Hp) or not all(_same(a, b) for a, b in zip(Hk, Hp)):
            ofail(ctx, "C12:MultiSetup_PreGER:positional-call", "MultiSetup_PreGER(10.0, ref_ind, datasets) built positionally + %s(%s): the per-setup Hankel matrices %s differ from "
                  "those of the keyword form %s" % (clsname, method, [h.shape for h in Hp], [h.shape for h in Hk]),
                  dict(kind="positional-call", entry="MultiSetup_PreGER", order=["fs", "ref_ind", "datasets"], cls=clsname, method=method, br=br, ordmax=ordmax,
                       ref_ind=ref_ind, datasets=[d.tolist() for d in datasets]))


def run(ctx):
    rng = ctx.np_rng
    ctx.extra["rule"] = ("shapes (l,r,br,Ndat,method) x {impulse-basis measurement, random dyadic data}; a case is non-trivial when "
                         "the data are not all zero and l*r*(br+1)>1; distinct by hash of (shape, data); plus: every way of passing the "
                         "reference records (same object / view / fancy copy / independent) with two builds each, records of 32.8k..131k "
                         "samples (definition in O(N) + single product weights by indicator probes), class glue for ref_ind None / all / "
                         "permuted / subsets, ordmax swept to the largest legal order, multi-setup path (PreGER) with n_mov != n_ref observed "
                         "by wrapping ssi.build_hank; the calc_unc=True branch of cov_mm on a (Ndat, br, nb) grid covering N % nb in {0, 1, nb-1}, N < nb, N == nb (impulse basis + "
                         "exact model), class runs on tables wider than long / square / tall; integer-valued records stored as float64/int8..int64/uint8..uint64 (values up to the top of "
                         "each range) against the exact integer model; every build_hank call is followed by a bit-comparison of its arguments; "
                         "build_hank, SSI_multi_setup, SingleSetup and MultiSetup_PreGER are also called fully positionally in the pristine parameter order "
                         "(non-default calc_unc/nb/step) and must return what the keyword call returns")
    _CONV.clear()
    # ---- corpus first (failing inputs of changes that once slipped through)
    pending = ([], [])
    run_corpus(ctx, rng, pending)
    ctx.assumptions += [
        "oracle contract (Section hypothesis of C12_dat_gram): numpy.linalg.qr returns R with Ys^T = Q R, Q^T Q = I, leading block invertible",
        "window/weight tables of the executed parametric model are MEASURED from build_hank on the unit-impulse basis (the property leaves them free)",
        "C12_determined_by_impulses / C12_impl_equals_mm / C12_impl_equals_R: a map that is bilinear on the shape and agrees with the model on every impulse pair equals the "
        "model on ALL data of that shape; the check supplies the second premise exhaustively (whole basis) and tests the first (bilinearity) on random dyadic data",
    ]
    # ---- positional call forms of every driven entry point (pristine parameter order, hard-coded)
    positional_calls(ctx)
    # ---- shapes
    if ctx.quick():
        shapes = [(1, 1, 1, 8), (2, 1, 1, 9), (2, 2, 2, 12), (3, 2, 1, 10), (2, 1, 3, 14), (3, 1, 2, 13)]
    else:
        shapes = [(l, r, br, Ndat) for l in (1, 2, 3, 4) for r in range(1, l + 1) for br in (1, 2, 3, 4, 5)
                  for Ndat in (2 * br + 6, 2 * br + 11) if Ndat <= 40 and l * r * Ndat * Ndat <= 6000]
    exprs, meta = [], []
    inst = {"cov_mm": True, "cov_R": True, "dat": True}
    for method in ("cov_mm", "cov_R"):
        for (l, r, br, Ndat) in shapes:
            c, err = measure(ctx, method, l, r, br, Ndat)
            case0 = dict(method=method, l=l, r=r, br=br, Ndat=Ndat)
            ctx.hist("shape", (method, l, r, br))
            if err:
                ctx.fail("oracle", "build_hank %s: %s" % (method, err), case0, key="C12:%s:shape" % method)
                continue
            params, bad = structure(c, method, l, r, br, Ndat)
            ctx.count(dict(case0, kind="impulse-basis"), nontrivial=True)
            if bad:
                ctx.fail("oracle", "build_hank %s: %s" % (method, bad["what"]), dict(case0, **bad),
                         key="C12:%s:%s" % (method, "".join(ch for ch in bad["what"].split("[")[0] if ch.isalpha() or ch == " ").strip().replace(" ", "-")[:40]))
                continue
            # present instance expected by the code-shaped model (difference = note only)
            p0 = params[(0, 0)]
            N = Ndat - 2 * br - 1
            inst_ok = all(
                (params[(i, j)][0] == list(range(br + 1 - j, br + 1 - j + N - 1)) and abs(params[(i, j)][1] - 1.0 / N) < 1e-12 and params[(i, j)][3] == 0)
                if method == "cov_mm" else
                (params[(i, j)][0] == list(range(0, Ndat - (br + i - j))) and abs(params[(i, j)][1] - 1.0 / (Ndat - (br + i - j))) < 1e-12 and params[(i, j)][2] == 0)
                for i in range(br + 1) for j in range(br + 1))
            if not inst_ok:
                inst[method] = False
                ctx.note("measured window/weight of %s differ from the instance of C12_%s_is_gen (allowed by the property): %s" % (method, "mm" if method == "cov_mm" else "R", p0))
            # ---- random data, reference = subset rows or independent rows
            nrep = ctx.n(3, 4)
            for rep in range(nrep):
                Y = dyad(rng, (l, Ndat))
                if rep % 2 == 0 and r <= l:
                    ref = sorted(rng.choice(l, size=r, replace=False).tolist())
                    if rep % 4 == 2:
                        ref = ref[::-1]
                    Yr = Y[ref, :]
                else:
                    ref = None
                    Yr = dyad(rng, (r, Ndat))
                case = dict(case0, Y=Y.tolist(), Yref=Yr.tolist(), ref=ref)
                H = bh(ctx, Y, Yr, br, method, case)
                ctx.count(case, nontrivial=bool(np.any(Y) and np.any(Yr)))
                ctx.sample(dict(case0, Y=Y.tolist()[:1], note="first channel only shown"))
                # property text (independent construction), allowed to differ by the measured positive weights only
                Hind = independent(method, Y, Yr, br)
                win, wt, dl, rl = coq_params(params, br)
                exprs.append("showMat (hank_gen_l QcOps %s %s %s %s %d %d %d %s %s)" % (win, wt, dl, rl, l, r, br, qc_mat(Y), qc_mat(Yr)))
                meta.append((case, H, "gen", Hind if inst_ok else None))
                if inst_ok:
                    if method == "cov_mm":
                        exprs.append("showMat (hank_mm_l QcOps %s %d %d %d %d %s %s)" % (qc(Fraction(1, N)), l, r, br, Ndat, qc_mat(Y), qc_mat(Yr)))
                    else:
                        inv = "(fun n => Qcinv (Q2Qc (Z.of_nat n # 1)))"
                        exprs.append("showMat (hank_R_l QcOps %s %d %d %d %d %s %s)" % (inv, l, r, br, Ndat, qc_mat(Y), qc_mat(Yr)))
                    meta.append((case, H, "inst", None))
                # bilinearity beyond the basis
                Z = dyad(rng, (l, Ndat))
                Zr = dyad(rng, (r, Ndat))
                g, h = 1.5, -0.75
                H2 = bh(ctx, g * Y + Z, h * Yr + Zr, br, method)
                Hs = g * h * H + g * bh(ctx, Y, Zr, br, method) + h * bh(ctx, Z, Yr, br, method) + bh(ctx, Z, Zr, br, method)
                if not np.allclose(H2, Hs, rtol=1e-9, atol=1e-9 * (1 + np.abs(Hs).max())):
                    ctx.fail("oracle", "build_hank %s is not bilinear" % method, case, key="C12:%s:bilinear" % method)
    res = ctx.coq_eval(HEADER, exprs, shard=12)
    for (case, H, kind, Hind), s in zip(meta, res):
        M = np.array([[float(x) for x in row] for row in parse_mat(s)])
        scale = max(1.0, np.abs(M).max())
        if M.shape != H.shape or not np.allclose(M, H, rtol=0, atol=1e-9 * scale):
            ctx.fail("correspondence", "build_hank %s differs from model %s" % (case["method"], "hank_gen_l (measured parameters)" if kind == "gen" else "hank_mm_l/hank_R_l"),
                     case, key="C12:%s:corr-%s" % (case["method"], kind))
        if Hind is not None and not np.allclose(Hind, H, rtol=0, atol=1e-9 * scale):
            ctx.fail("oracle", "build_hank %s differs from the definition (independent construction)" % case["method"], case, key="C12:%s:def" % case["method"])

    # ---- data-driven method: layout + projection Gram identity
    exprs, meta = [], []
    dshapes = shapes if ctx.quick() else shapes[::3]
    for (l, r, br, Ndat0) in dshapes:
        for rep in range(ctx.n(2, 2)):
            Ndat = Ndat0 + (br + 1) * (r + l) + 6  # enough columns for a well-conditioned past
            Y = dyad(rng, (l, Ndat))
            ref = sorted(rng.choice(l, size=min(r, l), replace=False).tolist())
            Yr = Y[ref, :] if rep == 0 else dyad(rng, (r, Ndat))
            r_ = Yr.shape[0]
            case = dict(method="dat", l=l, r=r_, br=br, Ndat=Ndat, Y=Y.tolist(), Yref=Yr.tolist())
            H = bh(ctx, Y, Yr, br, "dat", case)
            ctx.count(case)
            ctx.hist("shape", ("dat", l, r_, br))
            if H.shape != ((br + 1) * l, (br + 1) * r_):
                ctx.fail("oracle", "build_hank dat: wrong shape %s" % (H.shape,), case, key="C12:dat:shape")
                continue
            exprs.append("showMat (dat_YfYpT_l QcOps %d %d %d %d %s %s) ++ \"|\" ++ showMat (dat_YpYpT_l QcOps %d %d %d %s)"
                         % (l, r_, br, Ndat, qc_mat(Y), qc_mat(Yr), r_, br, Ndat, qc_mat(Yr)))
            meta.append((case, H))
    res = ctx.coq_eval(HEADER, exprs, shard=6)
    for (case, H), s in zip(meta, res):
        a, b = s.split("|")
        P = np.array([[float(x) for x in row] for row in parse_mat(a)])
        S = np.array([[float(x) for x in row] for row in parse_mat(b)])
        if np.linalg.cond(S) > 1e8:
            ctx.not_judged += 1
            continue
        N = case["Ndat"] - 2 * case["br"] - 1
        G = P @ np.linalg.solve(S, P.T)
        HH = H @ H.T
        ratio = np.trace(HH) / np.trace(G)
        if not np.allclose(HH, ratio * G, rtol=0, atol=1e-8 * np.abs(HH).max()) or ratio <= 0:
            ctx.fail("oracle", "build_hank dat: H H^T is not the Gram matrix of the projection of the future on the past references", case, key="C12:dat:gram")
        elif abs(ratio * N - 1) > 1e-8:
            ctx.note("dat Gram differs from the model instance by the positive scalar %.6g (normalisation is not pinned by the property)" % (ratio * N))

    # ---- calc_unc=True branch of 'cov_mm': the returned Hankel matrix is the calc_unc=False one (impulse basis + exact model)
    cache = {}
    for n, (nb, N) in enumerate(unc_grid(ctx.quick())):
        for br in ((1, 2) if not ctx.quick() else ((1,) if n % 2 == 0 else (2,))):
            l, r = [(2, 1), (1, 1), (2, 2)][(n + br) % 3] if N <= 10 else (1, 1)
            unc_case(ctx, rng, l, r, br, N + 2 * br + 1, nb, pending, cache=cache)
    for N in ([100, 200, 99, 101, 150] if ctx.quick() else [100, 200, 300, 400, 99, 101, 199, 201, 150, 50, 1000]):  # default nb = 100
        br = int(rng.integers(1, 3))
        unc_case(ctx, rng, 2, 1, br, N + 2 * br + 1, None, pending, basis=False)

    # ---- storage dtype of the records: integer-valued records as float64 / int8..64 / uint8..64 give the matrix of the exact integer model
    dshp = [(2, [1], 1), (3, [2, 0], 2), (2, "same", 1)] if ctx.quick() else [(1, [0], 1), (2, [1], 1), (3, [2, 0], 2), (2, "same", 1), (3, "same", 2), (4, [3, 0, 1], 3)]
    for (name, lo, hi) in DTYPE_RANGES:
        for n, (l, ref, br) in enumerate(dshp):
            for method in ("cov_R", "cov_mm", "dat"):
                if ctx.quick() and n == 1 and method != "cov_R" and name.startswith("signed"):
                    continue
                r = l if ref == "same" else len(ref)
                Ndat = 2 * br + 6 + int(rng.integers(0, 6)) + (3 * (br + 1) * (l + r) if method == "dat" else 0)
                V = rng.integers(lo, hi + 1, size=(l, Ndat), dtype=np.int64)
                if lo >= 0 and rng.random() < 0.5:  # records hugging the top of the range (offset-binary counts near full scale)
                    V = np.maximum(V, hi - (hi - lo) // 4)
                dtype_case(ctx, method, V, ref, br, ALL_DTYPES, pending, inst_ok=inst[method])
    dtype_flush(ctx, pending)

    # ---- every way of passing the reference records, two builds each (all three methods)
    ashapes = [(2, 1, 1), (3, 2, 2), (4, 3, 1)] if ctx.quick() else [(l, r, br) for l in (1, 2, 3, 4) for r in range(1, l + 1) for br in (1, 2, 3)]
    for method in ("cov_mm", "cov_R", "dat"):
        for (l, r, br) in ashapes:
            for rep in range(ctx.n(1, 2)):
                Ndat = 2 * br + 6 + int(rng.integers(0, 8)) + (3 * (br + 1) * 2 * l if method == "dat" else 0)
                Y0 = dyad(rng, (l, Ndat))
                alias_case(ctx, method, Y0, br, r, list(ALIAS_FORMS), inst_ok=inst[method])

    # ---- long records (more than 2**15 samples)
    if ctx.quick():
        longs = [("cov_mm", 32772, 1, 1, 1, "same-object"), ("cov_mm", 32800, 2, 1, 1, "view-head"), ("cov_mm", 50000, 2, 1, 2, "fancy-head"),
                 ("cov_mm", 65600, 1, 1, 2, "independent-all"), ("cov_mm", 100003, 2, 2, 1, "same-object"), ("cov_mm", 131072, 2, 1, 2, "view-tail"),
                 ("cov_R", 32800, 2, 1, 1, "view-head"), ("cov_R", 50000, 1, 1, 2, "same-object"), ("cov_R", 131072, 2, 2, 1, "fancy-all"),
                 ("dat", 32800, 2, 1, 1, "view-head"), ("dat", 131072, 2, 2, 1, "same-object")]
    else:
        longs = []
        for method in ("cov_mm", "cov_R", "dat"):
            for Ndat in [32768 + 2 * 1 + 1, 32768 + 2 * 1 + 2, 32800, 50000, 65536 + 4, 65600, 98304 + 5, 100003, 131072, 200001, 262144 + 7, 500000] + \
                    [int(v) for v in rng.integers(32769, 400000, size=6)]:
                l = int(rng.integers(1, 3))
                br = int(rng.integers(1, 3)) if Ndat > 32775 else 1
                form = ["same-object", "view-head", "fancy-head", "independent-head", "view-tail", "fancy-all"][int(rng.integers(6))]
                longs.append((method, Ndat, l, int(rng.integers(1, l + 1)), br, form))
    for n, (method, Ndat, l, r, br, form) in enumerate(longs):
        long_case(ctx, rng, method, Ndat, l, r, br, form, [int(ctx.seed), 12, n])

    # ---- glue: result.H of the algorithm classes = Hankel matrix of (data.T, data.T[ref_ind]), ref_ind None = all channels
    from pyoma2.algorithms import SSIcov, SSIdat
    for k in range(ctx.n(2, 8)):
        l = int(rng.integers(3, 5)) if k % 2 == 0 else int(rng.integers(2, 5))
        br = int(rng.integers(2, 5))
        data = dyad(rng, (400, l))
        perm = rng.permutation(l).tolist()
        while perm == list(range(l)):
            perm = rng.permutation(l).tolist()
        sub = sorted(rng.choice(l, size=int(rng.integers(min(2, l - 1), l)), replace=False).tolist())
        refs = [None, list(range(l)), perm, sub[::-1], sub, list(range(l))[::-1]]
        if ctx.quick():
            refs = refs[:4] + [refs[4 + k % 2]]
        # the same subsets written with from-the-end (negative) channel indices, alone and mixed with non-negative ones
        refs += [[i - l for i in sub[::-1]], [0, -1] if l > 1 else [-1], [-1]]
        for ref in refs:
            for cls, method in ((SSIcov, "cov_mm"), (SSIcov, "cov_R"), (SSIdat, "dat")):
                glue_case(ctx, cls, method, data, ref, br, inst_ok=inst[method])

    # ---- glue: tables wider than long, square and tall (rows = samples, columns = channels, whatever the proportions), small sizes
    tables = [(9, 12, 1), (8, 11, 1), (14, 20, 2), (9, 9, 1), (10, 10, 1), (12, 9, 1), (30, 4, 2)] if ctx.quick() else \
        [(9, 12, 1), (8, 11, 1), (14, 20, 2), (9, 9, 1), (10, 10, 1), (12, 9, 1), (30, 4, 2), (60, 70, 3), (11, 12, 1), (16, 17, 2), (13, 13, 2), (25, 24, 3)]
    if ctx.quick():
        tables.append((60, 70, 3) if rng.random() < 0.5 else (int(rng.integers(12, 20)), int(rng.integers(20, 30)), 2))
    for (ns, nch, br) in tables:
        data = dyad(rng, (ns, nch))
        N = ns - 2 * br - 1
        for cls, method in ((SSIcov, "cov_mm"), (SSIcov, "cov_R"), (SSIdat, "dat")):
            nrmax = nch if method != "dat" else max(1, min(nch, (N - 1) // (br + 1)))  # 'dat': past reference rows must not outnumber the columns
            refs = [rng.permutation(nch)[:1].tolist(), rng.permutation(nch)[:min(2, nrmax)].tolist()]
            if method != "dat" and nch <= 30:
                refs.append(None)
            for ref in refs:
                glue_case(ctx, cls, method, data, ref, br, inst_ok=inst[method], tag="class-glue-table", ordmax=min(2, (br + 1) * (nch if ref is None else len(ref))))
    # ---- glue: SSIcov with calc_unc=True (N a multiple of nb, and not)
    for nb in (5, 79, 7):
        data = dyad(rng, (400, 3))
        glue_case(ctx, SSIcov, "cov_mm", data, rng.permutation(3)[:2].tolist(), 2, inst_ok=inst["cov_mm"], tag="class-glue-calc_unc", calc_unc=True, nb=nb)

    # ---- glue: ordmax swept up to the largest legal order min((br+1)*n_ref, br*n_channels) for proper reference subsets:
    #      result.H keeps br+1 block rows/columns for the br that was passed
    sweeps = [(3, [0], 2), (4, [2, 0], 2), (3, [1], 3)] if ctx.quick() else \
        [(l, rng.permutation(l)[:nr].tolist(), br) for l in (2, 3, 4, 5) for nr in range(1, l) for br in (1, 2, 3, 4)]
    if ctx.quick():
        l = int(rng.integers(3, 6))
        sweeps.append((l, rng.permutation(l)[:int(rng.integers(1, l))].tolist(), int(rng.integers(1, 4))))
    for (l, ref, br) in sweeps:
        data = dyad(rng, (300, l))
        top = min((br + 1) * len(ref), br * l)
        for cls, method in ((SSIcov, "cov_mm"), (SSIcov, "cov_R"), (SSIdat, "dat")):
            for ordmax in range(1, top + 1):
                if ordmax > br * len(ref) or ordmax in (1, top) or not ctx.quick() or rng.random() < 0.3:
                    glue_case(ctx, cls, method, data, ref, br, inst_ok=inst[method], tag="class-glue-ordmax", ordmax=ordmax)

    # ---- glue: multi-setup path with unequal numbers of reference and moving sensors
    for k in range(ctx.n(3, 12)):
        n_ref = [2, 1, 3][k % 3] if k < 3 else int(rng.integers(1, 4))
        nset = int(rng.integers(2, 4)) if k else 3
        n_mov = [max(1, n_ref - 1), n_ref + 1 + int(rng.integers(0, 2)), n_ref][:nset] if k < 3 else [int(rng.integers(1, 5)) for _ in range(nset)]
        if all(m == n_ref for m in n_mov):
            n_mov[0] = n_ref + 1
        if k % 2:
            n_mov = n_mov[::-1]
        br = int(rng.integers(2, 5))
        ordmax = int(rng.integers(2, min(4, br * n_ref) + 1)) if br * n_ref >= 2 else 1
        datasets = [dyad(rng, (int(rng.integers(200, 320)), n_ref + m)) for m in n_mov]
        ref_ind = [rng.permutation(d.shape[1])[:n_ref].tolist() for d in datasets]
        for clsname, method in (("SSIcov_MS", "cov_mm"), ("SSIcov_MS", "cov_R"), ("SSIdat_MS", "dat")):
            multi_case(ctx, clsname, method, datasets, ref_ind, br, ordmax, inst_ok=inst[method])
