"""C12 - Hankel/Toeplitz layout.  Model: coq/Model/M_hankel.v; theorems: coq/Properties/C12.v."""
import itertools
from fractions import Fraction

import numpy as np

from common import clist, parse_mat, qc, qc_mat
from pyoma2.functions import ssi

HEADER = "From PyOMA.Model Require Import M_hankel."


def dyad(rng, shape, bits=6):
    return rng.integers(-(2**bits), 2**bits + 1, size=shape) / float(2 ** (bits - 2))


def measure(method, l, r, br, Ndat):
    """Evaluate build_hank on every pair of unit impulses: coefficient tensor c[I,J,a,t1,b,t2]."""
    R, C = (br + 1) * l, (br + 1) * r
    c = np.zeros((R, C, l, Ndat, r, Ndat))
    for a in range(l):
        for t1 in range(Ndat):
            Y = np.zeros((l, Ndat))
            Y[a, t1] = 1.0
            for b in range(r):
                for t2 in range(Ndat):
                    Yr = np.zeros((r, Ndat))
                    Yr[b, t2] = 1.0
                    H, _ = ssi.build_hank(Y, Yr, br, method)
                    if H.shape != (R, C):
                        return None, "shape %s != %s" % (H.shape, (R, C))
                    c[:, :, a, t1, b, t2] = H
    return c, None


def structure(c, method, l, r, br, Ndat):
    """The property text on the measured bilinear form.  Returns (params, failure|None).
    params[(i,j)] = (win list (sample index t of the reference side... see below), wt, dl, rl)."""
    params = {}
    signs = set()
    for i in range(br + 1):
        for j in range(br + 1):
            blk = None
            for a in range(l):
                for b in range(r):
                    m = c[i * l + a, j * r + b]  # [a', t1, b', t2]
                    # only channel a and reference b may contribute
                    mask = np.ones((l, r), bool)
                    mask[a, b] = False
                    off = np.abs(m.transpose(0, 2, 1, 3)[mask]).max() if mask.any() else 0.0
                    if off > 0:
                        return None, dict(what="entry mixes other channels", i=i, j=j, a=a, b=b)
                    k = m[a, :, b, :]  # [t1, t2]
                    nz = np.argwhere(k != 0)
                    if len(nz) == 0:
                        return None, dict(what="entry is identically zero", i=i, j=j, a=a, b=b)
                    lags = set((t1 - t2) for t1, t2 in nz)
                    if len(lags) != 1:
                        return None, dict(what="entry mixes several lags %s" % sorted(lags), i=i, j=j, a=a, b=b)
                    vals = set(float(k[t1, t2]) for t1, t2 in nz)
                    if max(vals) - min(vals) > 1e-12 * max(abs(v) for v in vals):
                        return None, dict(what="weights not uniform inside an entry", i=i, j=j, a=a, b=b)
                    lag = lags.pop()
                    w = float(np.mean(list(vals)))
                    if w <= 0:
                        return None, dict(what="non-positive weight", i=i, j=j, a=a, b=b)
                    desc = (lag, tuple(sorted(int(min(t1, t2)) for t1, t2 in nz)), round(w, 15))
                    if blk is None:
                        blk = desc
                    elif blk != desc and not (blk[0] == desc[0] and blk[1] == desc[1] and abs(blk[2] - desc[2]) < 1e-12):
                        return None, dict(what="window/weight/lag differ between channel pairs of one block", i=i, j=j, a=a, b=b)
            lag, win, w = blk
            want = (i + j + 1) if method == "cov_mm" else (br + i - j)
            if abs(lag) != want:
                return None, dict(what="block lag is %d, property says %d" % (abs(lag), want), i=i, j=j)
            if lag != 0:
                signs.add(lag > 0)
            params[(i, j)] = (list(win), w, max(lag, 0), max(-lag, 0))
    if len(signs) > 1:
        return None, dict(what="lag sign convention differs between blocks")
    return params, None


def coq_params(params, br):
    """Coq functions win/wt/dl/rl as nested list lookups."""
    def tbl(f, default):
        rows = clist([clist([f(params[(i, j)]) for j in range(br + 1)]) for i in range(br + 1)])
        return "(fun i j => nth j (nth i %s []) %s)" % (rows, default)
    win = tbl(lambda p: clist(["%d%%nat" % t for t in p[0]]), "[]")
    wt = tbl(lambda p: qc(p[1]), "(q 0 1)")
    dl = tbl(lambda p: "%d%%nat" % p[2], "0%nat")
    rl = tbl(lambda p: "%d%%nat" % p[3], "0%nat")
    return win, wt, dl, rl


def independent(method, Y, Yr, br):
    """The definition written as nested loops (independent construction)."""
    l, Ndat = Y.shape
    r = Yr.shape[0]
    p, q = br, br + 1
    N = Ndat - p - q
    H = np.zeros(((br + 1) * l, (br + 1) * r))
    for i in range(br + 1):
        for j in range(br + 1):
            for a in range(l):
                for b in range(r):
                    if method == "cov_mm":
                        s = sum(Y[a, q - j + t + (i + j + 1)] * Yr[b, q - j + t] for t in range(N - 1)) / N
                    else:
                        k = br + i - j
                        s = sum(Y[a, t] * Yr[b, t + k] for t in range(Ndat - k)) / (Ndat - k)
                    H[i * l + a, j * r + b] = s
    return H


def run(ctx):
    rng = ctx.np_rng
    ctx.extra["rule"] = ("shapes (l,r,br,Ndat,method) x {impulse-basis measurement, random dyadic data}; a case is non-trivial when "
                         "the data are not all zero and l*r*(br+1)>1; distinct by hash of (shape, data)")
    ctx.assumptions += [
        "oracle contract (Section hypothesis of C12_dat_gram): numpy.linalg.qr returns R with Ys^T = Q R, Q^T Q = I, leading block invertible",
        "window/weight tables of the executed parametric model are MEASURED from build_hank on the unit-impulse basis (the property leaves them free)",
    ]
    # ---- shapes
    if ctx.quick():
        shapes = [(1, 1, 1, 8), (2, 1, 1, 9), (2, 2, 2, 12), (3, 2, 1, 10), (2, 1, 3, 14), (3, 1, 2, 13)]
    else:
        shapes = [(l, r, br, Ndat) for l in (1, 2, 3, 4) for r in range(1, l + 1) for br in (1, 2, 3, 4, 5)
                  for Ndat in (2 * br + 6, 2 * br + 11) if Ndat <= 40 and l * r * Ndat * Ndat <= 6000]
    exprs, meta = [], []
    for method in ("cov_mm", "cov_R"):
        for (l, r, br, Ndat) in shapes:
            c, err = measure(method, l, r, br, Ndat)
            case0 = dict(method=method, l=l, r=r, br=br, Ndat=Ndat)
            ctx.hist("shape", (method, l, r, br))
            if err:
                ctx.fail("oracle", "build_hank %s: %s" % (method, err), case0, key="C12:%s:shape" % method)
                continue
            params, bad = structure(c, method, l, r, br, Ndat)
            ctx.count(dict(case0, kind="impulse-basis"), nontrivial=True)
            if bad:
                ctx.fail("oracle", "build_hank %s: %s" % (method, bad["what"]), dict(case0, **bad), key="C12:%s:%s" % (method, bad["what"][:40]))
                continue
            # present instance expected by the code-shaped model (difference = note only)
            p0 = params[(0, 0)]
            N = Ndat - 2 * br - 1
            inst_ok = all(
                (params[(i, j)][0] == list(range(br + 1 - j, br + 1 - j + N - 1)) and abs(params[(i, j)][1] - 1.0 / N) < 1e-12 and params[(i, j)][3] == 0)
                if method == "cov_mm" else
                (params[(i, j)][0] == list(range(0, Ndat - (br + i - j))) and abs(params[(i, j)][1] - 1.0 / (Ndat - (br + i - j))) < 1e-12 and params[(i, j)][2] == 0)
                for i in range(br + 1) for j in range(br + 1))
            if not inst_ok:
                ctx.note("measured window/weight of %s differ from the instance of C12_%s_is_gen (allowed by the property): %s" % (method, "mm" if method == "cov_mm" else "R", p0))
            # ---- random data, reference = subset rows or independent rows
            nrep = ctx.n(3, 4)
            for rep in range(nrep):
                Y = dyad(rng, (l, Ndat))
                if rep % 2 == 0 and r <= l:
                    ref = sorted(rng.choice(l, size=r, replace=False).tolist())
                    if rep % 4 == 2:
                        ref = ref[::-1]
                    Yr = Y[ref, :]
                else:
                    ref = None
                    Yr = dyad(rng, (r, Ndat))
                H, _ = ssi.build_hank(Y, Yr, br, method)
                case = dict(case0, Y=Y.tolist(), Yref=Yr.tolist(), ref=ref)
                ctx.count(case, nontrivial=bool(np.any(Y) and np.any(Yr)))
                ctx.sample(dict(case0, Y=Y.tolist()[:1], note="first channel only shown"))
                # property text (independent construction), allowed to differ by the measured positive weights only
                Hind = independent(method, Y, Yr, br)
                win, wt, dl, rl = coq_params(params, br)
                exprs.append("showMat (hank_gen_l QcOps %s %s %s %s %d %d %d %s %s)" % (win, wt, dl, rl, l, r, br, qc_mat(Y), qc_mat(Yr)))
                meta.append((case, H, "gen", Hind if inst_ok else None))
                if inst_ok:
                    if method == "cov_mm":
                        exprs.append("showMat (hank_mm_l QcOps %s %d %d %d %d %s %s)" % (qc(Fraction(1, N)), l, r, br, Ndat, qc_mat(Y), qc_mat(Yr)))
                    else:
                        inv = "(fun n => Qcinv (Q2Qc (Z.of_nat n # 1)))"
                        exprs.append("showMat (hank_R_l QcOps %s %d %d %d %d %s %s)" % (inv, l, r, br, Ndat, qc_mat(Y), qc_mat(Yr)))
                    meta.append((case, H, "inst", None))
                # bilinearity beyond the basis
                Z = dyad(rng, (l, Ndat))
                Zr = dyad(rng, (r, Ndat))
                g, h = 1.5, -0.75
                H2, _ = ssi.build_hank(g * Y + Z, h * Yr + Zr, br, method)
                Hs = (g * h * H + g * ssi.build_hank(Y, Zr, br, method)[0] + h * ssi.build_hank(Z, Yr, br, method)[0]
                      + ssi.build_hank(Z, Zr, br, method)[0])
                if not np.allclose(H2, Hs, rtol=1e-9, atol=1e-9 * (1 + np.abs(Hs).max())):
                    ctx.fail("oracle", "build_hank %s is not bilinear" % method, case, key="C12:%s:bilinear" % method)
    res = ctx.coq_eval(HEADER, exprs, shard=12)
    for (case, H, kind, Hind), s in zip(meta, res):
        M = np.array([[float(x) for x in row] for row in parse_mat(s)])
        scale = max(1.0, np.abs(M).max())
        if M.shape != H.shape or not np.allclose(M, H, rtol=0, atol=1e-9 * scale):
            ctx.fail("correspondence", "build_hank %s differs from model %s" % (case["method"], "hank_gen_l (measured parameters)" if kind == "gen" else "hank_mm_l/hank_R_l"),
                     case, key="C12:%s:corr-%s" % (case["method"], kind))
        if Hind is not None and not np.allclose(Hind, H, rtol=0, atol=1e-9 * scale):
            ctx.fail("oracle", "build_hank %s differs from the definition (independent construction)" % case["method"], case, key="C12:%s:def" % case["method"])

    # ---- data-driven method: layout + projection Gram identity
    exprs, meta = [], []
    dshapes = shapes if ctx.quick() else shapes[::3]
    for (l, r, br, Ndat0) in dshapes:
        for rep in range(ctx.n(2, 2)):
            Ndat = Ndat0 + (br + 1) * (r + l) + 6  # enough columns for a well-conditioned past
            Y = dyad(rng, (l, Ndat))
            ref = sorted(rng.choice(l, size=min(r, l), replace=False).tolist())
            Yr = Y[ref, :] if rep == 0 else dyad(rng, (r, Ndat))
            r_ = Yr.shape[0]
            H, _ = ssi.build_hank(Y, Yr, br, "dat")
            case = dict(method="dat", l=l, r=r_, br=br, Ndat=Ndat, Y=Y.tolist(), Yref=Yr.tolist())
            ctx.count(case)
            ctx.hist("shape", ("dat", l, r_, br))
            if H.shape != ((br + 1) * l, (br + 1) * r_):
                ctx.fail("oracle", "build_hank dat: wrong shape %s" % (H.shape,), case, key="C12:dat:shape")
                continue
            exprs.append("showMat (dat_YfYpT_l QcOps %d %d %d %d %s %s) ++ \"|\" ++ showMat (dat_YpYpT_l QcOps %d %d %d %s)"
                         % (l, r_, br, Ndat, qc_mat(Y), qc_mat(Yr), r_, br, Ndat, qc_mat(Yr)))
            meta.append((case, H))
    res = ctx.coq_eval(HEADER, exprs, shard=6)
    for (case, H), s in zip(meta, res):
        a, b = s.split("|")
        P = np.array([[float(x) for x in row] for row in parse_mat(a)])
        S = np.array([[float(x) for x in row] for row in parse_mat(b)])
        if np.linalg.cond(S) > 1e8:
            ctx.not_judged += 1
            continue
        N = case["Ndat"] - 2 * case["br"] - 1
        G = P @ np.linalg.solve(S, P.T)
        HH = H @ H.T
        ratio = np.trace(HH) / np.trace(G)
        if not np.allclose(HH, ratio * G, rtol=0, atol=1e-8 * np.abs(HH).max()) or ratio <= 0:
            ctx.fail("oracle", "build_hank dat: H H^T is not the Gram matrix of the projection of the future on the past references", case, key="C12:dat:gram")
        elif abs(ratio * N - 1) > 1e-8:
            ctx.note("dat Gram differs from the model instance by the positive scalar %.6g (normalisation is not pinned by the property)" % (ratio * N))

    # ---- glue: result.H of the algorithm classes = build_hank(data.T, data.T[ref_ind])
    from pyoma2.algorithms import SSIcov, SSIdat
    from pyoma2.setup import SingleSetup
    for k in range(ctx.n(4, 16)):
        l = int(rng.integers(2, 5))
        ref = sorted(rng.choice(l, size=int(rng.integers(1, l + 1)), replace=False).tolist())
        if k % 2:
            ref = ref[::-1]
        br = int(rng.integers(2, 5))
        data = dyad(rng, (400, l))
        ordmax = min(4, (br + 1) * len(ref))
        for cls, method in ((SSIcov, "cov_mm"), (SSIcov, "cov_R"), (SSIdat, "dat")):
            ss = SingleSetup(data.copy(), fs=10.0)
            kw = dict(br=br, ordmax=ordmax, ref_ind=ref)
            alg = cls(name="a", method=method, **kw) if cls is SSIcov else cls(name="a", **kw)
            ss.add_algorithms(alg)
            ss.run_by_name("a")
            Hc = alg.result.H
            Hd, _ = ssi.build_hank(data.T, data.T[ref, :], br, method)
            case = dict(kind="class-glue", cls=cls.__name__, method=method, l=l, ref=ref, br=br)
            ctx.count(case)
            if Hc.shape != Hd.shape or not np.allclose(Hc, Hd, rtol=1e-12, atol=0):
                ctx.fail("oracle", "%s.result.H is not build_hank(all channels, reference channels in listed order)" % cls.__name__, case,
                         key="C12:glue:%s" % method)
