"""C20 - diagrams show exactly the identified poles (stab_plot, cluster_plot, CMIF_plot and the classes' plot methods).
Model: coq/Model/M_plot.v (marker / curve cores), coq/Model/M_plot_full.v (whole diagrams: error bars, limits, grid; the classes'
plot methods as forwarding functions); theorems: coq/Properties/C20.v.

Correspondence: the x/y data of the artists of the returned axes (Agg) vs the model evaluated in Coq (moved values: exact).
Oracle: the property text written directly in NumPy (independent of the model) + "the marker's y is the order mpe accepts".
"""
import glob
import json
import os
from fractions import Fraction

import matplotlib

matplotlib.use("Agg")
import matplotlib.pyplot as plt
import numpy as np
from matplotlib.collections import PathCollection
from matplotlib.container import ErrorbarContainer

from common import VERIF, clist, qq
from pyoma2.functions import plot
from pyoma2.functions import plscf as f_plscf
from pyoma2.functions import ssi as f_ssi

HEADER = "From PyOMA.Model Require Import M_plot M_plot_full."
NAN = float("nan")


# ----------------------------------------------------------------------------- Coq literals / parsers
def coq_tab(T):
    return clist([clist(["None" if v != v else "(Some %s)" % qq(v) for v in row]) for row in T])


def coq_lab(L):
    return clist([clist(["(%d)" % int(v) for v in row]) for row in L]) + "%Z"


def coq_cube(S):
    return clist([clist([clist([qq(v) for v in cell]) for cell in row]) for row in S])


def parse_pairs(s):
    out = []
    for tok in s.split(" "):
        if not tok:
            continue
        a, b = tok.split(",")
        fa = Fraction(int(a.split("/")[0]), int(a.split("/")[1]))
        fb = Fraction(int(b.split("/")[0]), int(b.split("/")[1])) if "/" in b else Fraction(int(b))
        out.append((fa, fb))
    return sorted(out)


def parse_two(s):
    a, b = s.split("|")
    return parse_pairs(a), parse_pairs(b)


def fr_pts(pts):
    return sorted((Fraction(float(x)), Fraction(float(y))) for x, y in pts)


def show_pts(p, limit=6):
    return [(float(a), float(b)) for a, b in p[:limit]]


# ----------------------------------------------------------------------------- reading the artists back
def read_axes(ax):
    """Point artists of an axes: [(kind, label, finite points)], the error-bar segments, and everything else that carries data."""
    cap_ids, segs = set(), []
    for c in ax.containers:
        if isinstance(c, ErrorbarContainer):
            _data, caps, bars = c.lines
            for ln in caps:
                cap_ids.add(id(ln))
            for bc in bars:
                for s in bc.get_segments():
                    s = np.asarray(s, float)
                    if s.shape == (2, 2) and np.all(np.isfinite(s)):
                        segs.append(s)
    arts = []
    for ln in ax.lines:
        if id(ln) in cap_ids:
            continue
        x = np.asarray(ln.get_xdata(orig=True), float).ravel()
        y = np.asarray(ln.get_ydata(orig=True), float).ravel()
        n = min(len(x), len(y))
        m = np.isfinite(x[:n]) & np.isfinite(y[:n])
        arts.append(("line", str(ln.get_label()), list(zip(x[:n][m].tolist(), y[:n][m].tolist()))))
    for c in ax.collections:
        if isinstance(c, PathCollection):
            off = c.get_offsets()
            mask = np.ma.getmaskarray(off)
            arr = np.array(np.ma.filled(off, NAN), float).reshape(-1, 2)
            mask = np.asarray(mask).reshape(-1, 2)
            ok = ~mask.any(axis=1) & np.isfinite(arr).all(axis=1)
            arts.append(("scatter", str(c.get_label()), [tuple(r) for r in arr[ok].tolist()]))
    return arts, segs


def split_families(arts, hide=False):
    """stable / unstable marker families.  By legend label when there is one ("Stable pole" / "Unstable pole"),
    otherwise Line2D = stable, PathCollection = unstable (with hide_poles=True every unlabelled family counts as
    stable: nothing else may be drawn anyway); colours and marker styles are not looked at."""
    st, un = [], []
    for kind, label, pts in arts:
        lab = label.lower()
        if "unstable" in lab:
            un += pts
        elif "stable" in lab:
            st += pts
        elif kind == "line" or hide:
            st += pts
        else:
            un += pts
    return st, un


def errbars_on_markers(segs, pts):
    """every finite error-bar segment is horizontal and centred on a marker of the diagram"""
    P = np.array(pts, float).reshape(-1, 2)
    for s in segs:
        (x0, y0), (x1, y1) = s
        if y0 != y1:
            return "error bar not horizontal: %s" % s.tolist()
        if len(P) == 0:
            return "error bar %s without any marker" % s.tolist()
        cx = 0.5 * (x0 + x1)
        d = np.abs(P[:, 0] - cx) + np.where(P[:, 1] == y0, 0.0, np.inf)
        if d.min() > 1e-9 * max(1.0, abs(cx)):
            return "error bar %s is not centred on a marker" % s.tolist()
    return None


def read_bars(segs, pts):
    """finite error-bar segments -> [(frequency of the marker the bar sits on, y, half-width)]; None when a bar is not on a marker"""
    out = []
    for s in segs:
        (x0, y0), (x1, y1) = s
        cands = [p[0] for p in pts if p[1] == y0]
        if y0 != y1 or not cands:
            return None
        cx = 0.5 * (x0 + x1)
        out.append((float(min(cands, key=lambda v: abs(v - cx))), float(y0), 0.5 * abs(x1 - x0)))
    return out


def oracle_bars(Fn, Lab, cov, step, hide):
    """one bar per DRAWN marker whose pole has a finite deviation: (frequency, order value, the pole's own |cov * f|)"""
    out = []
    if cov is None:
        return out
    rows, cols = Fn.shape
    for o in range(cols):
        for i in range(rows):
            f, c = Fn[i, o], cov[i, o]
            if f != f or c != c:
                continue  # rejected pole / no deviation: no bar
            if Lab[i, o] == 1 or not hide:
                out.append((float(f), float(o * step), abs(float(c) * float(f))))
    return out


def group_bars(bars):
    g = {}
    for f, y, e in bars:
        g.setdefault((Fraction(float(f)), Fraction(float(y))), []).append(float(e))
    return {k: sorted(v) for k, v in g.items()}


def bars_problem(got, want, exact_clip):
    """got: bars read from the axes; want: (f, y, own width).  Property level (exact_clip=None): exactly one bar per drawn marker with a
    finite deviation, on that marker, never wider than the pole's own |cov * f| and equal to it up to 0.5 (the diagram's clip is the
    code's business); model level (exact_clip=0.5 applied by the caller): widths equal."""
    if got is None:
        return "an error bar is not on a marker"
    G, W = group_bars(got), group_bars(want)
    for k in set(G) | set(W):
        g, w = G.get(k, []), W.get(k, [])
        if len(g) != len(w):
            return "%d error bar(s) at marker (%r, %r) where %d drawn pole(s) there have a finite deviation" % (len(g), float(k[0]), float(k[1]), len(w))
        tol = 1e-9 * max(1.0, abs(float(k[0])))
        for a, b in zip(g, w):
            if exact_clip:
                ok = abs(a - b) <= tol
            else:
                ok = a <= b + tol and (b > 0.5 or abs(a - b) <= tol) and (b <= 0.5 or a > 0)
            if not ok:
                return "error bar at marker (%r, %r) has half-width %r, the pole's own deviation gives %r" % (float(k[0]), float(k[1]), a, b)
    return None


def parse_bars(s):
    out = []
    for fam in s.split("|"):
        for tok in fam.split(" "):
            if tok:
                f, y, e = tok.split(",")
                out.append((Fraction(int(f.split("/")[0]), int(f.split("/")[1])), Fraction(int(y)), Fraction(int(e.split("/")[0]), int(e.split("/")[1]))))
    return out


def parse_lim(s):
    if s == "auto":
        return None
    a, b = s.split(",")
    fr = lambda t: Fraction(int(t.split("/")[0]), int(t.split("/")[1])) if "/" in t else Fraction(int(t))   # noqa: E731
    return (fr(a), fr(b))


def lim_problem(got, want):
    """axis limits read from the axes against the model's (None = left to Matplotlib: nothing to compare; equal ends are widened by Matplotlib)"""
    if want is None or want[0] == want[1]:
        return None
    if (Fraction(float(got[0])), Fraction(float(got[1]))) != want:
        return "limits are (%r, %r), model: (%r, %r)" % (float(got[0]), float(got[1]), float(want[0]), float(want[1]))
    return None


def coq_lim(lim):
    return "None" if lim is None else "(Some (%s, %s))" % (qq(float(lim[0])), qq(float(lim[1])))


def bars_out_estimate(Fn, cov):
    tot = 0
    for f, c in zip(np.asarray(Fn, float).ravel().tolist(), np.asarray(cov, float).ravel().tolist()):
        if f == f and c == c:
            a, b = Fraction(f).as_integer_ratio()
            p, q = Fraction(c).as_integer_ratio()
            tot += 2 * (len(str(a)) + len(str(b))) + len(str(p)) + len(str(q)) + 12
    return tot


# ----------------------------------------------------------------------------- option VALUE FORMS
# Established on the unchanged tree (probe): CMIF_plot accepts nSv as Python int, any NumPy integer (np.int64/np.int32/np.intp, an element of
# np.arange, the result of np.argmax) and "all" (a float or a numeric string raises TypeError: not generated); stab_plot / cluster_plot use
# hide_poles by truthiness (True/False, 1/0, np.True_/np.False_, np.bool_(0), results of np.all/np.any); step / ordmin / ordmax as int or
# np.int64; freqlim as tuple, list or ndarray (or None).  Every accepted form of one value must give the same diagram.
# CALL FORMS.  The documented positional call must mean the same as the keyword call.  Parameter orders of the PRISTINE signatures, written
# down here (never read from the tree at run time: a changed tree must not redefine the expected order):
#   stab_plot(Fn, Lab, step, ordmax, ordmin, freqlim, hide_poles, fig, ax, Fn_cov)     cluster_plot(Fn, Xi, Lab, ordmin, freqlim, hide_poles)
#   CMIF_plot(S_val, freq, freqlim, nSv, fig, ax)
#   <SSI / pLSCF class>.plot_stab(freqlim, hide_poles)  .plot_cluster(freqlim, hide_poles)        <FDD class>.plot_CMIF(freqlim, nSv)
# A positional case carries non-default values for every option (freqlim given, hide_poles=False, ordmin > 0, Fn_cov given, nSv a number).
def some_freqlim(rng, lo=0.0, hi=45.0):
    lim = None
    while lim is None:
        lim = gen_freqlim(rng, lo, hi)
    return lim


COUNT_FORMS = ["int", "int", "np.int64", "np.int32", "np.intp", "arange", "argmax"]
SWITCH_FORMS = ["bool", "bool", "int", "np.bool_", "np.bool_()", "np.all/any"]
STEP_FORMS = ["int", "int", "np.int64"]
LIM_FORMS = ["tuple", "tuple", "list", "ndarray"]


def count_form(v, tag):
    if v == "all":
        return "all"
    v = int(v)
    if tag == "np.int64":
        return np.int64(v)
    if tag == "np.int32":
        return np.int32(v)
    if tag == "np.intp":
        return np.intp(v)
    if tag == "arange":
        return np.arange(v - 2, v + 3)[2]
    if tag == "argmax" and v >= 0:
        a = np.zeros(v + 1)
        a[v] = 1.0
        return np.argmax(a)
    return v


def switch_form(b, tag):
    b = bool(b)
    if tag == "int":
        return 1 if b else 0
    if tag == "np.bool_":
        return np.True_ if b else np.False_
    if tag == "np.bool_()":
        return np.bool_(1 if b else 0)
    if tag == "np.all/any":
        return np.any(np.array([b, False])) if b else np.all(np.array([True, b]))
    return b


def step_form(v, tag):
    return np.int64(v) if tag == "np.int64" else int(v)


def lim_form(lim, tag):
    if lim is None:
        return None
    if tag == "list":
        return [float(lim[0]), float(lim[1])]
    if tag == "ndarray":
        return np.array([lim[0], lim[1]], float)
    return (lim[0], lim[1])


# ----------------------------------------------------------------------------- oracles (property text in NumPy)
def oracle_stab(Fn, Lab, step, hide):
    rows, cols = Fn.shape
    st, un = [], []
    for o in range(cols):
        for i in range(rows):
            f = Fn[i, o]
            if f != f:
                continue  # rejected pole: no marker
            if Lab[i, o] == 1:
                st.append((f, o * step))
            elif not hide:
                un.append((f, o * step))
    return st, un


def oracle_cluster(Fn, Xi, Lab, hide):
    rows, cols = Fn.shape
    st, un = [], []
    for o in range(cols):
        for i in range(rows):
            f, d = Fn[i, o], Xi[i, o]
            if f != f or d != d:
                continue
            if Lab[i, o] == 1:
                st.append((f, d))
            elif not hide:
                un.append((f, d))
    return st, un


def oracle_cmif(S, nSv):
    n = S.shape[1]
    m = n if nSv == "all" else int(nSv)
    ref = max(S[0, 0, f] for f in range(S.shape[2]))
    with np.errstate(divide="ignore"):   # an exact zero singular value is at -inf dB
        return [10.0 * np.log10(np.array([S[k, k, f] / ref for f in range(S.shape[2])])) for k in range(max(m, 0))]


def curve_match(y, w):
    """drawn dB levels y against the levels w the property states: as ratios 10**(y/10) (relative 1e-9) AND in dB (absolute 1e-6),
    -inf exactly where the exact ratio is 0 - so a floor / clip far below the peak is seen"""
    y, w = np.asarray(y, float), np.asarray(w, float)
    if y.shape != w.shape or np.isnan(y).any():
        return False
    ninf = np.isneginf(w)
    if not np.array_equal(np.isneginf(y), ninf):
        return False
    fin = ~ninf
    if not np.all(np.isfinite(y[fin])):
        return False
    return bool(np.allclose(10 ** (y[fin] / 10), 10 ** (w[fin] / 10), rtol=1e-9, atol=0) and np.all(np.abs(y[fin] - w[fin]) <= 1e-6))


# ----------------------------------------------------------------------------- caller-supplied axes / bystander figures
def _open_figures():
    from matplotlib import _pylab_helpers
    return [m.canvas.figure for m in _pylab_helpers.Gcf.get_all_fig_managers()]


def _n_artists(ax):
    return (len(ax.lines) + len(ax.collections) + len(ax.patches) + len(ax.texts) + len(ax.images) + len(ax.containers)
            + (1 if ax.get_legend() is not None else 0))


def foreign_axes(mode):
    """Axes handed to the plot function that are NOT pyplot's current axes.
    'panel': left panel of a two-panel figure, the right panel is current; 'otherfig': axes of one figure while another figure is current;
    'bystander': nothing is passed (fig=ax=None) but a two-panel figure is open and current.  -> (kwargs, passed axes or None)"""
    if mode == "panel":
        fig, (a, b) = plt.subplots(1, 2)
        plt.sca(b)
        return dict(fig=fig, ax=a), a
    if mode == "otherfig":
        fig, a = plt.subplots()
        _fig2, (_b, c) = plt.subplots(2, 1)
        plt.sca(c)
        return dict(fig=fig, ax=a), a
    if mode == "bystander":
        _fig2, (_b, c) = plt.subplots(1, 2)
        plt.sca(c)
    return {}, None


def census(target=None):
    """artist count of every axes of every open figure except the target axes (references kept so ids stay unique)"""
    return {id(ax): (ax, fig, _n_artists(ax)) for fig in _open_figures() for ax in fig.axes if ax is not target}


def census_problem(before, target, ret_fig, ret_ax):
    """nothing may be added to any axes / figure other than the one the diagram lives in"""
    passed = target is not None
    if passed and ret_ax is not target:
        return "the returned axes are not the axes that were passed"
    home = target if passed else ret_ax
    for key, (ax, fig, cnt) in census(home).items():
        if key not in before:
            if passed or fig is not ret_fig:
                return "a new axes / figure was created besides the diagram's own"
            return "a second axes was added to the diagram's figure" if ax is not ret_ax else None
        if cnt != before[key][2]:
            return "%d artist(s) were added to an axes other than the diagram's (%s)" % (cnt - before[key][2],
                                                                                    "passed axes were not pyplot's current axes" if passed else "another figure was open")
    return None



# ----------------------------------------------------------------------------- generators
def dy(rng, lo, hi, den=64):
    return float(rng.integers(int(lo * den), int(hi * den) + 1)) / den


SPECIAL_F = [0.0, 0.0, 0.0, -0.0, 2.0 ** -30, 1e-9, 1e6, 3e8, None]
SPECIAL_X = [0.0, 0.0, -0.0, 2.0 ** -40, 1e-12, 0.999, 1e3]


def gen_tables(ctx, rng, max_orders, degenerate):
    if degenerate:
        kind = str(rng.choice(["1x1", "1xn", "nx1", "allnan", "lab1_on_nan", "nostable", "allstable"]))
    else:
        kind = str(rng.choice(["random", "random", "ssi", "ssi", "sparse"]))
    cols = int(rng.integers(2, max_orders + 1))
    rows = int(rng.integers(2, max(3, min(max_orders, 2 * cols) + 1)))
    if rows == cols:
        rows += 1  # never square
    if kind == "1x1":
        rows, cols = 1, 1
    elif kind == "1xn":
        rows = 1
    elif kind == "nx1":
        cols = 1
    pool = [dy(rng, 0.5, 40.0) for _ in range(max(2, min(rows, 6)))]
    Fn = np.empty((rows, cols))
    Xi = np.empty((rows, cols))
    for i in range(rows):
        for o in range(cols):
            u = rng.random()
            if u < 0.55:
                Fn[i, o] = pool[int(rng.integers(len(pool)))]  # repeated frequencies: multiplicity matters
            elif u < 0.9:
                Fn[i, o] = pool[int(rng.integers(len(pool)))] + float(rng.integers(-8, 9)) / 256
            else:
                Fn[i, o] = float(rng.uniform(0.1, 45.0))  # arbitrary 53-bit float, moved exactly
            Xi[i, o] = float(rng.integers(1, 200)) / 1024 if rng.random() < 0.9 else float(rng.uniform(-0.05, 0.3))
    if kind in ("ssi",):
        mask = np.array([[i < o for o in range(cols)] for i in range(rows)]) & (rng.random((rows, cols)) > 0.25)
    elif kind == "sparse":
        mask = rng.random((rows, cols)) > 0.85
    elif kind in ("allnan", "lab1_on_nan"):
        mask = np.zeros((rows, cols), bool) if kind == "allnan" else rng.random((rows, cols)) > 0.6
    else:
        mask = rng.random((rows, cols)) > float(rng.choice([0.0, 0.2, 0.5]))
        if cols > 2 and rng.random() < 0.5:
            mask[:, int(rng.integers(cols))] = False  # a whole empty order
    Fn = np.where(mask, Fn, NAN)
    if rng.random() < 0.8:
        Xi = np.where(mask, Xi, NAN)  # usual case: same NaN pattern
    else:
        Xi = np.where(rng.random((rows, cols)) > 0.3, Xi, NAN)  # any NaN pattern
    p1 = float(rng.choice([0.3, 0.5, 0.8]))
    Lab = (rng.random((rows, cols)) < p1).astype(int)
    if kind == "lab1_on_nan":
        Lab = np.where(mask, 0, 1)
    elif kind == "nostable":
        Lab[:] = 0
    elif kind == "allstable":
        Lab[:] = 1
    elif rng.random() < 0.7:
        Lab = np.where(mask, Lab, 0)  # SC_apply leaves 0 on rejected poles; otherwise labels also sit on nan cells
    # special values at retained poles: exact 0.0 Hz (rigid-body / DC pole), -0.0, tiny / huge magnitudes, repeated values, 0.0 damping.
    # A retained pole is a retained pole whatever its value: sentinel idioms (x * mask, "== 0 -> nan") must not lose it.
    fin = np.argwhere(np.isfinite(Fn))
    if len(fin) and rng.random() < 0.5:
        nsp = int(rng.integers(1, min(6, len(fin)) + 1))
        for idx in rng.choice(len(fin), size=nsp, replace=False):
            i, o = int(fin[idx][0]), int(fin[idx][1])
            v = SPECIAL_F[int(rng.integers(len(SPECIAL_F)))]
            if v is None:  # repeat the value of another retained pole
                j = fin[int(rng.integers(len(fin)))]
                v = float(Fn[int(j[0]), int(j[1])])
            Fn[i, o] = v
            ctx.hist("special_frequency", repr(v) if v in SPECIAL_F else "repeated")
            if Xi[i, o] == Xi[i, o] and rng.random() < 0.6:
                Xi[i, o] = SPECIAL_X[int(rng.integers(len(SPECIAL_X)))]
                ctx.hist("special_damping", repr(float(Xi[i, o])))
            if v == 0.0:
                ctx.hist("zero_pole_label", int(Lab[i, o]))
    return kind, Fn, Xi, Lab


def gen_cov(rng, Fn):
    rows, cols = Fn.shape
    cov = rng.integers(0, 64, size=(rows, cols)) / 1024.0  # |cov*Fn| on both sides of 0.5
    cov = np.where(rng.random((rows, cols)) < 0.15, NAN, cov)
    return cov


def gen_freqlim(rng, lo=0.0, hi=45.0):
    if rng.random() < 0.5:
        return None
    a = dy(rng, lo, hi)
    b = dy(rng, lo, hi)
    if a == b:
        b = a + 1.0
    return (min(a, b), max(a, b))


def make_signal(rng, N, fs, nch, freqs=(3.0, 8.0, 14.0)):
    data = np.zeros((N, nch))
    for f in freqs:
        x = np.zeros(N)
        e = rng.standard_normal(N)
        r, w = 0.99, 2 * np.pi * f / fs
        c1, c2 = 2 * r * np.cos(w), r * r
        for k in range(2, N):
            x[k] = c1 * x[k - 1] - c2 * x[k - 2] + e[k]
        data += np.outer(x, rng.uniform(-1, 1, nch))
    return data + 0.05 * rng.standard_normal(data.shape)



# ----------------------------------------------------------------------------- large tables: own coqc files (short output strings)
MAX_OUT = 12000    # coqc (8 MB stack) overflows reading back a result string somewhere between 20k and 40k characters
CHUNK = 120        # markers per printed chunk (a marker is at most ~80 characters)


def out_estimate(Fn, Xi):
    """upper estimate of the length of the one-line model output of a table case"""
    tot = 0
    for f, d in zip(np.asarray(Fn, float).ravel().tolist(), np.asarray(Xi, float).ravel().tolist()):
        if f == f:
            a, b = Fraction(f).as_integer_ratio()
            tot += 2 * (len(str(a)) + len(str(b)) + 2) + 8
            if d == d:
                a, b = Fraction(d).as_integer_ratio()
                tot += len(str(a)) + len(str(b)) + 3
    return tot


def queue_tables(Fn, Xi, Lab, stab_expr, hide, pick_exprs, item, exprs, meta, big):
    """queue the model evaluation of one table case: one expression when the output is short, an own file otherwise"""
    rows, cols = Fn.shape
    hb = "true" if hide else "false"
    if out_estimate(Fn, Xi) > MAX_OUT:
        src, n, nch = c20_big_file(Fn, Xi, Lab, stab_expr, hide, pick_exprs)
        big.append((src, n, nch, item))
        return
    e = ("let Fn := %s in let Xi := %s in let Lab := %s in showB (rectb %d %d Fn && rectb %d %d Xi && rectb %d %d Lab)%%bool ++ \"#\" ++ "
         "show_stab (%s) ++ \"#\" ++ show_cluster (cluster_markers Fn Xi Lab %s)"
         % (coq_tab(Fn), coq_tab(Xi), coq_lab(Lab), rows, cols, rows, cols, rows, cols, stab_expr, hb))
    for pe in pick_exprs:
        e += " ++ \"#\" ++ " + pe
    exprs.append(e)
    meta.append((item, 1))


def queue_cmif(S, nSv, nexp, item, exprs, meta):
    """status line + one expression per expected curve (short strings)"""
    n, nf = S.shape[1], S.shape[2]
    z = "None" if nSv == "all" else "(Some (%d)%%Z)" % int(nSv)
    lit = coq_cube(S)
    L = max(len("%d/%d" % Fraction(float(v)).as_integer_ratio()) for v in np.asarray(S, float).ravel().tolist())
    freq = item[4]
    Lf = max([len("%d/%d" % Fraction(float(v)).as_integer_ratio()) for v in np.asarray(freq, float).ravel().tolist()] or [1])
    if nexp * nf * (2 * L + Lf + 3) <= MAX_OUT:   # the whole diagram: every curve with its grid, and the x-limits
        exprs.append("let S := %s in showB (cubeb %d %d S) ++ \"#\" ++ show_cmif_diag (cmif_diagram (fun v : Q => v) S %s %s %s)"
                     % (lit, n, nf, clist([qq(v) for v in np.asarray(freq, float).tolist()]), coq_lim(item[1].get("freqlim")), z))
        meta.append((item, 1))
        return
    exprs.append("let S := %s in showB (cubeb %d %d S) ++ \"#\" ++ match cmif_curves S %s with POk cs => \"O \" ++ showN (List.length cs) "
                 "| PErr e => \"E \" ++ show_perr e end" % (lit, n, nf, z))
    for k in range(nexp):
        exprs.append("let S := %s in match cmif_curves S %s with POk cs => showL showQ \" \" (nth %d cs []) | PErr e => \"E\" end" % (lit, z, k))
    meta.append((item, 1 + nexp))


def c20_big_file(Fn, Xi, Lab, stab_expr, hide, picks_exprs):
    """One .v per large case: tables parsed once, model evaluated once, markers printed in chunks of CHUNK."""
    rows, cols = Fn.shape
    hb = "true" if hide else "false"
    nfin = int(np.isfinite(Fn).sum())
    mx = 1
    for f, d in zip(Fn.ravel().tolist(), Xi.ravel().tolist()):
        if f == f:
            a, b = Fraction(f).as_integer_ratio()
            m = len(str(a)) + len(str(b)) + 8
            if d == d:
                a, b = Fraction(d).as_integer_ratio()
                m += len(str(a)) + len(str(b)) + 2
            mx = max(mx, m)
    chunk = max(5, min(CHUNK, 9000 // mx))   # every printed string stays well below the read-back limit
    nch = max(1, -(-nfin // chunk))
    src = ("From Coq Require Import List ZArith QArith Qcanon String Bool.\nFrom PyOMA.Base Require Import Carrier Show.\n" + HEADER +
           "\nImport ListNotations.\nOpen Scope string_scope.\nSet Printing Width 1000000000.\nSet Printing Depth 1000000000.\n")
    src += "Definition Fn : list (list (option Q)) := %s.\nDefinition Xi : list (list (option Q)) := %s.\nDefinition Lab : list (list Z) := %s.\n" % (
        coq_tab(Fn), coq_tab(Xi), coq_lab(Lab))
    src += "Definition RS := Eval vm_compute in (%s).\nDefinition RC := Eval vm_compute in (cluster_markers Fn Xi Lab %s).\n" % (stab_expr, hb)
    src += "Eval vm_compute in (showB (rectb %d %d Fn && rectb %d %d Xi && rectb %d %d Lab)%%bool).\n" % (rows, cols, rows, cols, rows, cols)
    n = 1
    for lst, shw in (("fst RS", "show_fz"), ("snd RS", "show_fz"), ("fst RC", "show_ff"), ("snd RC", "show_ff")):
        src += "Eval vm_compute in (showN (List.length (%s))).\n" % lst
        n += 1
        for j in range(nch):
            src += "Eval vm_compute in (%s (firstn %d (skipn %d (%s)))).\n" % (shw, chunk, chunk * j, lst)
            n += 1
    for pe in picks_exprs:
        src += "Eval vm_compute in (%s).\n" % pe
        n += 1
    return src, n, nch


def c20_big_assemble(out, nch):
    """-> the same one-line format as the small cases: ok#stable|unstable#cstable|cunstable#picks..."""
    pos = 1
    fams = []
    for _ in range(4):
        want = int(out[pos])
        toks = [t for c in out[pos + 1: pos + 1 + nch] for t in c.split(" ") if t]
        if len(toks) != want:
            from common import CoqError
            raise CoqError("chunked marker list incomplete: %d of %d" % (len(toks), want))
        fams.append(" ".join(toks))
        pos += 1 + nch
    return "#".join([out[0], fams[0] + "|" + fams[1], fams[2] + "|" + fams[3]] + list(out[pos:]))


def c20_run_files(ctx, files, workers=8, timeout=900):
    """files: [(source, n_results)] -> [[result strings]]; same protocol as Ctx.coq_eval, one coqc per file."""
    import re
    import subprocess
    from concurrent.futures import ThreadPoolExecutor

    from common import COQ, CoqError

    items = []
    for k, (src, n) in enumerate(files):
        path = os.path.join(ctx.work, "c20big_%d.v" % k)
        with open(path, "w") as f:
            f.write(src)
        items.append((path, n))

    def one(item):
        path, cnt = item
        p = subprocess.run(["timeout", str(timeout), "coqc", "-R", COQ, "PyOMA", path], capture_output=True, text=True, cwd=ctx.work)
        if p.returncode != 0:
            raise CoqError("coqc failed on %s: %s" % (path, (p.stderr or p.stdout)[-1500:]))
        out = re.findall(r'^\s*= "(.*)"\s*$', p.stdout, re.M)
        if len(out) != cnt:
            raise CoqError("coqc printed %d results for %d evaluations in %s" % (len(out), cnt, path))
        return out

    with ThreadPoolExecutor(max_workers=workers) as ex:
        return list(ex.map(one, items))


# ----------------------------------------------------------------------------- function level: stab_plot / cluster_plot
def table_case(ctx, case, exprs, meta, big):
    """Run stab_plot and cluster_plot on one case (dict with lists), apply the oracle, queue the model evaluation."""
    Fn = np.array([[NAN if v is None else v for v in r] for r in case["Fn"]], float)
    Xi = np.array([[NAN if v is None else v for v in r] for r in case["Xi"]], float)
    Lab = np.array(case["Lab"])
    if case.get("lab_float"):
        Lab = Lab.astype(float)
    cov = None if case.get("Fn_cov") is None else np.array([[NAN if v is None else v for v in r] for r in case["Fn_cov"]], float)
    step, hide, freqlim = int(case["step"]), bool(case["hide"]), case.get("freqlim")
    freqlim = None if freqlim is None else tuple(freqlim)
    hide_arg = switch_form(hide, case.get("hide_form", "bool"))          # the option value FORMS handed to the functions
    step_arg = step_form(step, case.get("step_form", "int"))
    lim_arg = lim_form(freqlim, case.get("freqlim_form", "tuple"))
    ctx.hist("hide_form", "%s=%s" % (case.get("hide_form", "bool"), hide))
    ctx.hist("step_form", case.get("step_form", "int"))
    ctx.hist("freqlim_form", "None" if freqlim is None else case.get("freqlim_form", "tuple"))
    Fn_w, Xi_w, Lab_w = Fn.copy(), Xi.copy(), Lab.copy()                 # ONE set of caller arrays for all diagrams of the case
    rows, cols = Fn.shape
    ordmax = (cols - 1) * step if cols > 1 else step
    stab_o, stab_u = oracle_stab(Fn, Lab, step, hide)
    clu_o, clu_u = oracle_cluster(Fn, Xi, Lab, hide)
    nontriv = len(stab_o) + len(stab_u) > 0 and rows * cols > 1
    ctx.count(case, nontrivial=nontriv)
    ctx.sample(dict(kind=case.get("kind"), shape=[rows, cols], step=step, hide=hide, freqlim=freqlim, cov=cov is not None,
                    Fn_first_row=case["Fn"][0][:6]))
    ctx.hist("orders", min(cols // 10 * 10, 60))
    ctx.hist("table_kind", case.get("kind"))
    ctx.hist("hide", hide)
    ctx.hist("step", step)
    ctx.hist("label_dtype", str(Lab.dtype))
    ctx.hist("exact_zero_retained_pole", bool(np.any(Fn == 0.0)))
    res = {}
    # ---- stab_plot
    try:
        amode = case.get("axes_mode") or ("panel" if case.get("own_axes") else "none")
        ctx.hist("stab_axes_mode", amode)
        kw, ax0 = foreign_axes(amode)
        before = census(ax0)
        cov_w = None if cov is None else cov.copy()
        positional = case.get("call_form") == "positional"
        ctx.hist("call_form:stab_plot/cluster_plot", "positional" if positional else "keyword")
        if positional:
            fig, ax = plot.stab_plot(Fn_w, Lab_w, step_arg, step_form(ordmax, case.get("step_form", "int")), step_form(int(case.get("ordmin", 0)), case.get("step_form", "int")),
                                     lim_arg, hide_arg, kw.get("fig"), kw.get("ax"), cov_w)
        else:
            fig, ax = plot.stab_plot(Fn_w, Lab_w, step_arg, step_form(ordmax, case.get("step_form", "int")), ordmin=step_form(int(case.get("ordmin", 0)), case.get("step_form", "int")),
                                     freqlim=lim_arg, hide_poles=hide_arg, Fn_cov=cov_w, **kw)
        prob = census_problem(before, ax0, fig, ax)
        if prob:
            ctx.fail("oracle", "stab_plot (axes mode %s): %s - every marker must land in the diagram's own axes" % (amode, prob), case,
                     key="C20:stab_plot:foreign-axes")
        arts, segs = read_axes(ax0 if ax0 is not None else ax)   # the PASSED axes are the diagram
        st, un = split_families(arts, hide)
        res["stab"] = (fr_pts(st), fr_pts(un))
        if res["stab"][0] != fr_pts(stab_o):
            ctx.fail("oracle", "stab_plot: stable markers are not exactly the poles labelled stable at (frequency, order): got %s.. want %s.."
                     % (show_pts(res["stab"][0]), show_pts(fr_pts(stab_o))), case, key="C20:stab_plot:stable")
        if res["stab"][1] != fr_pts(stab_u):
            ctx.fail("oracle", "stab_plot: unstable markers are not exactly the other retained poles (hide_poles=%s): got %d markers %s.. want %d %s.."
                     % (hide, len(res["stab"][1]), show_pts(res["stab"][1]), len(stab_u), show_pts(fr_pts(stab_u))), case,
                     key="C20:stab_plot:unstable")
        bad = errbars_on_markers(segs, st + un)
        if bad:
            ctx.fail("oracle", "stab_plot: " + bad, case, key="C20:stab_plot:errorbar")
        else:   # exactly one bar per drawn marker with a finite deviation, with that pole's own width; none without a deviation table
            res["bars"] = read_bars(segs, st + un)
            bad = bars_problem(res["bars"], oracle_bars(Fn, Lab, cov, step, hide), False)
            if bad:
                ctx.fail("oracle", "stab_plot (Fn_cov %s): %s" % ("given" if cov is not None else "not given", bad), case, key="C20:stab_plot:errorbar-per-marker")
        axd = ax0 if ax0 is not None else ax
        res["xlim"], res["ylim"] = tuple(axd.get_xlim()), tuple(axd.get_ylim())
        ctx.hist("stab_errorbars_drawn", min(len(segs) // 10 * 10, 50) if cov is not None else "no Fn_cov")
    except Exception as e:  # noqa: BLE001
        ctx.fail("oracle", "stab_plot raised %s: %s" % (type(e).__name__, str(e)[:200]), case, key="C20:stab_plot:raised")
    finally:
        plt.close("all")
    # ---- cluster_plot
    try:
        _kw, _ = foreign_axes("bystander" if (case.get("axes_mode") or "none") != "none" else "none")
        before = census(None)
        if case.get("call_form") == "positional":
            fig, ax = plot.cluster_plot(Fn_w, Xi_w, Lab_w, int(case.get("ordmin", 0)), lim_arg, hide_arg)
        else:
            fig, ax = plot.cluster_plot(Fn_w, Xi_w, Lab_w, ordmin=int(case.get("ordmin", 0)), freqlim=lim_arg, hide_poles=hide_arg)   # same arrays, same option forms
        prob = census_problem(before, None, fig, ax)
        if prob:
            ctx.fail("oracle", "cluster_plot: %s" % prob, case, key="C20:cluster_plot:foreign-axes")
        arts, _ = read_axes(ax)
        st, un = split_families(arts, hide)
        res["cluster"] = (fr_pts(st), fr_pts(un))
        res["cxlim"] = tuple(ax.get_xlim())
        if res["cluster"][0] != fr_pts(clu_o):
            ctx.fail("oracle", "cluster_plot: stable markers are not exactly the stable poles at (frequency, damping): got %s.. want %s.."
                     % (show_pts(res["cluster"][0]), show_pts(fr_pts(clu_o))), case, key="C20:cluster_plot:stable")
        if res["cluster"][1] != fr_pts(clu_u):
            ctx.fail("oracle", "cluster_plot: unstable markers are not exactly the other retained poles at (frequency, damping) (hide_poles=%s): got %s.. want %s.."
                     % (hide, show_pts(res["cluster"][1]), show_pts(fr_pts(clu_u))), case, key="C20:cluster_plot:unstable")
    except Exception as e:  # noqa: BLE001
        ctx.fail("oracle", "cluster_plot raised %s: %s" % (type(e).__name__, str(e)[:200]), case, key="C20:cluster_plot:raised")
    finally:
        plt.close("all")
    # ---- a later diagram drawn from the same caller arrays equals a first drawing (the arrays went through stab_plot and cluster_plot)
    if case.get("redraw"):
        try:
            fig, ax = plot.stab_plot(Fn_w, Lab_w, step, ordmax, ordmin=0, freqlim=None, hide_poles=hide, Fn_cov=None if cov is None else cov_w)
            arts, _ = read_axes(ax)
            st, un = split_families(arts, hide)
            if (fr_pts(st), fr_pts(un)) != (fr_pts(stab_o), fr_pts(stab_u)):
                ctx.fail("oracle", "stab_plot: a second diagram drawn from the same arrays (after stab_plot and cluster_plot used them) no longer shows the table's poles: "
                         "%d+%d markers, want %d+%d" % (len(st), len(un), len(stab_o), len(stab_u)), case, key="C20:stab_plot:later-diagram-from-same-arrays")
        except Exception as e:  # noqa: BLE001
            ctx.fail("oracle", "stab_plot raised on a second drawing from the same arrays: %s: %s" % (type(e).__name__, str(e)[:200]), case,
                     key="C20:stab_plot:later-diagram-from-same-arrays")
        finally:
            plt.close("all")
    # ---- the two diagrams draw the same poles (damping finite exactly where frequency is)
    if "stab" in res and "cluster" in res and np.array_equal(np.isnan(Fn), np.isnan(Xi)):
        for k, fam in ((0, "stable"), (1, "unstable")):
            a = sorted(p[0] for p in res["stab"][k])
            b = sorted(p[0] for p in res["cluster"][k])
            if a != b:
                miss = [float(v) for v in (set(a) ^ set(b))][:4] or "multiplicities differ"
                ctx.fail("oracle", "the stabilisation and the cluster diagram do not draw the same %s poles: %d vs %d markers, differing at frequencies %s"
                         % (fam, len(a), len(b), miss), case, key="C20:diagrams:same-poles-%s" % fam)
    # ---- extraction accepts the marker's order value (function level, step 1: what the classes draw)
    picks = []
    if step == 1 and stab_o:
        Phi = np.arange(rows * cols * 2, dtype=float).reshape(rows, cols, 2) + 1.0
        rtol = float(case.get("rtol", 0.05))
        idx = sorted(set(int(k) for k in case.get("pick_idx", [0])))
        for k in idx:
            f, y = stab_o[k % len(stab_o)]
            for name, fun in (("SSI_mpe", f_ssi.SSI_mpe), ("pLSCF_mpe", f_plscf.pLSCF_mpe)):
                try:
                    out = fun([float(f)], Fn.copy(), Xi.copy(), Phi, int(y), None, rtol=rtol)
                    got = (out[0].tolist(), out[1].tolist(), np.asarray(out[2]).T.tolist())
                except Exception as e:  # noqa: BLE001
                    got = "raised %s" % type(e).__name__
                cand = [i for i in range(rows) if Fn[i, int(y)] == f] if int(y) < cols else []
                ok = (not isinstance(got, str) and got[0] == [f] and len(got[1]) == 1
                      and any((got[1][0] == Xi[i, int(y)] or (got[1][0] != got[1][0] and Xi[i, int(y)] != Xi[i, int(y)]))
                              and got[2][0] == Phi[i, int(y)].tolist() for i in cand))
                if not ok:
                    ctx.fail("oracle", "%s(sel_freq=[%r], order=%d) does not return the pole drawn at that marker: %s" % (name, f, int(y), got),
                             case, key="C20:%s:marker-order-not-accepted" % name)
                picks.append((f, int(y), name, got))
    # ---- model
    seen, pick_exprs = set(), []
    for f, y, _name, _got in picks:
        if (f, y) in seen:
            continue
        seen.add((f, y))
        pick_exprs.append("show_pick (mpe_pick Fn %s %s (%d))" % (qq(f), qq(float(case.get("rtol", 0.05))), y))
    # the WHOLE diagram of the model (markers, error bars, limits): stab_diagram / cluster_diagram with every argument the functions got
    hb = "true" if hide else "false"
    diag = "stab_diagram Fn Lab (%d) (%d) (%d) %s %s " % (step, ordmax, int(case.get("ordmin", 0)), coq_lim(freqlim), hb)
    if cov is None or bars_out_estimate(Fn, cov) <= 9000:
        res["extras"] = True
        pick_exprs.append("show_stab_extras (%s) ++ \"!\" ++ show_lim (cd_xlim (cluster_diagram Fn Xi Lab (%d) %s %s))"
                          % (diag + ("None" if cov is None else "(Some %s)" % coq_tab(cov)), int(case.get("ordmin", 0)), coq_lim(freqlim), hb))
    else:
        ctx.hist("error_bars_too_long_for_one_model_string", True)
    # (the markers do not depend on the deviation table - C20_limits_only_limits - so the long literal is written once, in the extras)
    queue_tables(Fn, Xi, Lab, "(let d := %sNone in (sd_stable d, sd_unstable d))" % diag, hide, pick_exprs,
                 ("tables", case, res, picks, (Fn, Xi)), exprs, meta, big)


def compare_extras(ctx, case, res, tok, site):
    """bars ! xlim ! ylim ! cluster xlim of the model against what was read from the axes"""
    mb, mx, my, mcx = tok.split("!")
    if res.get("bars") is not None:
        bad = bars_problem(res["bars"], [(float(f), float(y), float(e)) for f, y, e in parse_bars(mb)], True)
        if bad:
            ctx.fail("correspondence", "%s error bars differ from stab_diagram (model): %s" % (site, bad), case, key="C20:%s:errorbar-corr" % site)
    for what, got, want, key in (("x-limits", res.get("xlim"), parse_lim(mx), "xlim"), ("y-limits", res.get("ylim"), parse_lim(my), "ylim"),
                                 ("cluster x-limits", res.get("cxlim"), parse_lim(mcx), "cluster-xlim")):
        bad = None if got is None else lim_problem(got, want)
        if bad:
            ctx.fail("correspondence", "%s %s: %s" % ("cluster_plot" if key == "cluster-xlim" else site, what.replace("cluster ", ""), bad), case, key="C20:%s:%s" % (site, key))


def compare_tables(ctx, m, s):
    _, case, res, picks, (Fn, Xi) = m
    parts = s.split("#")
    if parts[0] != "T":
        ctx.fail("correspondence", "model hypotheses (rectangular tables of one shape) do not hold on a generated case", case, key="C20:harness:rect")
        return
    ms = parse_two(parts[1])
    mc = parse_two(parts[2])
    if "stab" in res and res["stab"] != ms:
        ctx.fail("correspondence", "stab_plot markers differ from stab_markers (model): impl %d+%d markers, model %d+%d"
                 % (len(res["stab"][0]), len(res["stab"][1]), len(ms[0]), len(ms[1])), case, key="C20:stab_plot:corr")
    if "cluster" in res and res["cluster"] != mc:
        ctx.fail("correspondence", "cluster_plot markers differ from cluster_markers (model): impl %d+%d markers, model %d+%d"
                 % (len(res["cluster"][0]), len(res["cluster"][1]), len(mc[0]), len(mc[1])), case, key="C20:cluster_plot:corr")
    # extraction: model row/frequency vs the functions
    uniq = []
    for f, y, name, got in picks:
        if (f, y) not in [u[:2] for u in uniq]:
            uniq.append((f, y))
    for k, (f, y) in enumerate(uniq):
        tok = parts[3 + k]
        if tok == "none":
            ctx.fail("correspondence", "model mpe_pick rejects a stable marker (%r, %d) (contradicts C20_marker_accepted)" % (f, y), case, key="C20:mpe_pick:corr")
            continue
        r, v = tok.split(",")
        r = int(r)
        v = Fraction(int(v.split("/")[0]), int(v.split("/")[1]))
        for f2, y2, name, got in picks:
            if (f2, y2) != (f, y) or isinstance(got, str):
                continue
            xi_r = Xi[r, y]
            same_xi = got[1] and (got[1][0] == xi_r or (got[1][0] != got[1][0] and xi_r != xi_r))
            if not (got[0] and Fraction(got[0][0]) == v and same_xi):
                ctx.fail("correspondence", "%s picks another row than the model (model row %d) for marker (%r, %d)" % (name, r, f, y), case,
                         key="C20:%s:corr" % name)
    if res.get("extras"):
        compare_extras(ctx, case, res, parts[3 + len(uniq)], case.get("site") or "stab_plot")


# ----------------------------------------------------------------------------- function level: CMIF_plot
def read_curves(ax):
    return [(np.asarray(ln.get_xdata(orig=True), float), np.asarray(ln.get_ydata(orig=True), float)) for ln in ax.lines]


def check_curves(ctx, curves, freq, want_db, case, site):
    """one curve per requested singular value over the whole grid, at the dB level the property states"""
    if len(curves) != len(want_db):
        ctx.fail("oracle", "%s: %d curves drawn for %d requested singular values" % (site, len(curves), len(want_db)), case, key="C20:%s:ncurves" % site)
        return False
    used = set()
    for k, w in enumerate(want_db):
        hit = None
        order = [k] + [j for j in range(len(curves)) if j != k]
        for j in order:
            if j in used:
                continue
            x, y = curves[j]
            if len(x) == len(freq) and np.array_equal(x, freq) and curve_match(y, w):
                hit = j
                break
        if hit is None:
            x, y = curves[k]
            if not (len(x) == len(freq) and np.array_equal(x, freq)):
                why = "not over the whole frequency grid"
            else:
                with np.errstate(invalid="ignore"):
                    d = np.where(np.asarray(y) == np.asarray(w), 0.0, np.abs(np.asarray(y, float) - np.asarray(w, float))) if len(y) == len(w) else np.array([np.inf])
                d = np.where(np.isnan(d), np.inf, d)
                i = int(np.argmax(d))
                why = "not 10 log10 (sigma_%d / max sigma_0): at line %d got %r dB, want %r dB" % (k, i, float(y[i]) if i < len(y) else None, float(w[i]))
            ctx.fail("oracle", "%s: curve of singular value %d is %s" % (site, k, why), case, key="C20:%s:curve" % site)
            return False
        used.add(hit)
    return True


def cmif_case(ctx, case, exprs, meta):
    S = np.array(case["S"], float)
    freq = np.array(case["freq"], float)
    nSv = case["nSv"]
    freqlim = case.get("freqlim")
    n, nf = S.shape[1], S.shape[2]
    grid_ok = len(freq) == nf   # a grid of another length than the array: Matplotlib refuses the first curve (C20_cmif_full, second clause)
    admissible = (nSv == "all" or int(nSv) < n) and grid_ok
    ctx.hist("cmif_grid", "same length" if grid_ok else "other length")
    ctx.count(case, nontrivial=admissible and (nSv == "all" or int(nSv) > 0))
    ctx.hist("cmif_nSv", "all" if nSv == "all" else ("inadmissible" if not admissible else "k<n"))
    dg = np.array([S[k, k] for k in range(min(S.shape[0], n))])
    with np.errstate(divide="ignore"):
        lv = 10 * np.log10(dg / S[0, 0].max()) if S[0, 0].max() > 0 else np.zeros(1)
    ctx.hist("cmif_exact_zero_singular_value", bool(np.isneginf(lv).any()))
    ctx.hist("cmif_finite_level_below_-156.5dB", bool((np.isfinite(lv) & (lv < -156.6)).any()))
    ctx.sample(dict(kind="cmif", shape=list(S.shape), nSv=nSv, freqlim=freqlim), limit=5)
    res, xlim = None, None
    try:
        amode = case.get("axes_mode") or "none"
        ctx.hist("cmif_axes_mode", amode)
        kw, ax0 = foreign_axes(amode)
        before = census(ax0)
        nSv_arg = count_form(nSv, case.get("nSv_form", "int"))
        ctx.hist("nSv_form", "all" if nSv == "all" else case.get("nSv_form", "int"))
        S_w, freq_w = S.copy(), freq.copy()
        ctx.hist("call_form:CMIF_plot", case.get("call_form", "keyword"))
        if case.get("call_form") == "positional":
            fig, ax = plot.CMIF_plot(S_w, freq_w, lim_form(freqlim, case.get("freqlim_form", "tuple")), nSv_arg, kw.get("fig"), kw.get("ax"))
        else:
            fig, ax = plot.CMIF_plot(S_w, freq_w, freqlim=lim_form(freqlim, case.get("freqlim_form", "tuple")), nSv=nSv_arg, **kw)
        prob = census_problem(before, ax0, fig, ax)
        if prob:
            ctx.fail("oracle", "CMIF_plot (axes mode %s): %s - every curve must land in the diagram's own axes" % (amode, prob), case,
                     key="C20:CMIF_plot:foreign-axes")
        res = read_curves(ax0 if ax0 is not None else ax)
        xlim = tuple((ax0 if ax0 is not None else ax).get_xlim())
    except ValueError:
        res = "ValueError"
    except Exception as e:  # noqa: BLE001
        res = "raised %s: %s" % (type(e).__name__, str(e)[:120])
    finally:
        plt.close("all")
    if admissible:
        if isinstance(res, str):
            ctx.fail("oracle", "CMIF_plot raised for an admissible number of curves nSv=%r (%s, n=%d): %s" % (nSv, case.get("nSv_form", "int"), n, res), case,
                     key="C20:CMIF_plot:raised")
        else:
            check_curves(ctx, res, freq, oracle_cmif(S, nSv), case, "CMIF_plot")
            if case.get("redraw"):   # a later diagram from the same caller arrays equals a first drawing
                try:
                    fig, ax = plot.CMIF_plot(S_w, freq_w, nSv="all")
                    check_curves(ctx, read_curves(ax), freq, oracle_cmif(S, "all"), dict(case, second_drawing=True), "CMIF_plot")
                except Exception as e:  # noqa: BLE001
                    ctx.fail("oracle", "CMIF_plot raised on a second drawing from the same arrays: %s: %s" % (type(e).__name__, str(e)[:200]), case,
                             key="C20:CMIF_plot:later-diagram-from-same-arrays")
                finally:
                    plt.close("all")
    nexp = (n if nSv == "all" else max(int(nSv), 0)) if admissible else 0
    queue_cmif(S, nSv, nexp, ("cmif", case, res, S, freq, xlim), exprs, meta)


def compare_cmif(ctx, m, strs):
    _, case, res, S, freq = m[:5]
    head = strs[0].split("#")
    ok, body = head[0], head[1]
    if ok != "T":
        ctx.fail("correspondence", "model hypothesis (n x n x nf array) does not hold on a generated case", case, key="C20:harness:cube")
        return
    n, nSv = S.shape[1], case["nSv"]
    if body.startswith("E "):
        if isinstance(res, str) and res == "ValueError":
            return
        if nSv != "all" and int(nSv) == n and not isinstance(res, str):
            # nSv = n: the code's own admissibility test rejects it; drawing all n curves correctly is not a violation of the property
            if check_curves(ctx, res, freq, oracle_cmif(S, "all"), case, "CMIF_plot"):
                ctx.not_judged += 1
                ctx.note("nSv = n is now accepted and draws the n curves: outside what the property constrains (model says ValueError)")
            return
        ctx.fail("correspondence", "CMIF_plot: model says %s for nSv=%r (n=%d), implementation: %s" % (body, nSv, n, res if isinstance(res, str) else "%d curves" % len(res)),
                 case, key="C20:CMIF_plot:corr-error")
        return
    if isinstance(res, str):
        ctx.fail("correspondence", "CMIF_plot raised (%s) where the model draws curves" % res, case, key="C20:CMIF_plot:corr-error")
        return
    grids = None
    if len(strs) == 1:   # short output: the whole diagram in one line "O grid@c0;grid@c1;...#xlim"
        rows = [r for r in body[2:].split(";")] if body[2:].strip() else []
        grids = [r.split("@")[0] for r in rows]
        rows = [r.split("@")[1] for r in rows]
        ncurves = len(rows)
        if len(m) > 5 and m[5] is not None and len(head) > 2:
            badlim = lim_problem(m[5], parse_lim(head[2]))
            if badlim:
                ctx.fail("correspondence", "%s x-%s" % (case.get("site", "CMIF_plot"), badlim), case, key="C20:CMIF_plot:xlim")
    else:                # long output: "O <count>" then one line per curve
        rows = list(strs[1:])
        ncurves = int(body[2:])
    fr = lambda t: float(Fraction(int(t.split("/")[0]), int(t.split("/")[1])))   # noqa: E731
    want = [np.array([fr(t) for t in r.split(" ") if t]) for r in rows if r != "E"]
    bad = len(want) != len(res) or ncurves != len(res)
    for k in range(min(len(want), len(res))):
        x, y = res[k]
        with np.errstate(divide="ignore"):
            wdb = 10.0 * np.log10(want[k])
        wx = freq if grids is None else np.array([fr(t) for t in grids[k].split(" ") if t])   # the model's own grid of that curve
        if not (np.array_equal(x, wx) and curve_match(y, wdb)):
            bad = True
    if bad:
        ctx.fail("correspondence", "CMIF_plot curves differ from cmif_curves (model): %d vs %d curves or a ratio off by more than 1e-9" % (len(res), len(want)),
                 case, key="C20:CMIF_plot:corr")



# ----------------------------------------------------------------------------- diagrams are independent objects
def _arr(t):
    return np.array([[NAN if v is None else v for v in r] for r in t], float)


def ax_labels(ax):
    leg = ax.get_legend()
    return (ax.get_title(), ax.get_xlabel(), ax.get_ylabel(), tuple(t.get_text() for t in leg.get_texts()) if leg is not None else None)


def extract_diagram(fn, ax, hide):
    """what a diagram shows now: marker families (stab / cluster) or curves (cmif)"""
    if fn == "cmif":
        return read_curves(ax)
    arts, _ = read_axes(ax)
    st, un = split_families(arts, hide)
    return (fr_pts(st), fr_pts(un))


def check_still_shows(ctx, site, k, n_later, fig, ax, fn, hide, want, shown0, labels0, case):
    """diagram k, re-read after n_later further diagrams were drawn (none of them on axes passed by the caller)"""
    fam = "curves" if fn == "cmif" else "markers"
    if ax.figure is not fig or ax not in fig.axes:
        now = extract_diagram(fn, ax, hide)
        nexp = len(want[1]) if fn == "cmif" else len(want[0]) + len(want[1])
        ngot = len(now) if fn == "cmif" else len(now[0]) + len(now[1])
        ctx.fail("oracle", "%s: diagram %d after %d later diagram(s) were drawn: its axes are no longer part of its figure (figure re-used and cleared); expected %d %s, got %d"
                 % (site, k, n_later, nexp, fam, ngot), case, key="C20:%s:overwritten-by-later-diagram" % site)
        return None
    now = extract_diagram(fn, ax, hide)
    if fn == "cmif":
        freq, want_db = want
        ok = len(now) == len(want_db) and all(np.array_equal(x, freq) and curve_match(y, w) for (x, y), w in zip(now, want_db))
        if not ok:
            ctx.fail("oracle", "%s: diagram %d after %d later diagram(s) were drawn: expected %d curves at their levels, got %d" % (site, k, n_later, len(want_db), len(now)),
                     case, key="C20:%s:overwritten-by-later-diagram" % site)
        return now
    ws, wu = fr_pts(want[0]), fr_pts(want[1])
    if now[0] != ws or now[1] != wu:
        ctx.fail("oracle", "%s: diagram %d after %d later diagram(s) were drawn: expected %d stable + %d unstable %s, got %d + %d (%s..)"
                 % (site, k, n_later, len(ws), len(wu), fam, len(now[0]), len(now[1]), show_pts(now[0], 3)), case, key="C20:%s:overwritten-by-later-diagram" % site)
    elif shown0 is not None and now != shown0:
        ctx.fail("oracle", "%s: diagram %d changed after later diagrams were drawn" % (site, k), case, key="C20:%s:overwritten-by-later-diagram" % site)
    if labels0 is not None and ax_labels(ax) != labels0:
        ctx.fail("oracle", "%s: title / axis labels / legend of diagram %d changed after later diagrams were drawn: %s -> %s" % (site, k, labels0, ax_labels(ax)), case,
                 key="C20:%s:labels-changed-by-later-diagram" % site)
    return now


def check_distinct(ctx, drawn, case):
    """neither fig nor ax was passed in: every call must hand back its own figure and axes"""
    for a in range(len(drawn)):
        for b in range(a + 1, len(drawn)):
            if drawn[a]["fig"] is drawn[b]["fig"] or drawn[a]["ax"] is drawn[b]["ax"]:
                ctx.fail("oracle", "diagrams %d (%s) and %d (%s), both drawn without fig/ax, share the same %s object" % (
                    a, drawn[a]["site"], b, drawn[b]["site"], "figure" if drawn[a]["fig"] is drawn[b]["fig"] else "axes"), case,
                    key="C20:%s:shared-figure" % drawn[b]["site"])
                return


def sequence_case(ctx, case, exprs, meta, big):
    """draw several diagrams one after the other (no fig/ax passed), keep every (fig, ax), then re-read ALL of them"""
    items = case["items"]
    ctx.count(case, nontrivial=len(items) >= 2)
    ctx.hist("sequence_length", len(items))
    ctx.sample(dict(kind="sequence", fns=[it["fn"] for it in items]), limit=6)
    drawn = []
    try:
        for k, it in enumerate(items):
            src = items[it["same_as"]] if it.get("same_as") is not None else it   # A': the table of an earlier item, other options
            fn, hide = it["fn"], bool(it.get("hide", True))
            freqlim = None if it.get("freqlim") is None else tuple(it["freqlim"])
            d = dict(fn=fn, hide=hide, site=dict(stab="stab_plot", cluster="cluster_plot", cmif="CMIF_plot")[fn])
            ctx.hist("sequence_item", fn)
            if fn == "cmif":
                S, freq = np.array(src["S"], float), np.array(src["freq"], float)
                d["fig"], d["ax"] = plot.CMIF_plot(S.copy(), freq.copy(), freqlim=freqlim, nSv=count_form(it.get("nSv", "all"), it.get("nSv_form", "int")))
                d["want"] = (freq, oracle_cmif(S, it.get("nSv", "all")))
            else:
                Fn, Xi, Lab = _arr(src["Fn"]), _arr(src["Xi"]), np.array(src["Lab"])
                step = int(it.get("step", 1))
                d.update(Fn=Fn, Xi=Xi, Lab=Lab, step=step)
                if fn == "stab":
                    cols = Fn.shape[1]
                    d["fig"], d["ax"] = plot.stab_plot(Fn.copy(), Lab.copy(), step, (cols - 1) * step if cols > 1 else step, ordmin=0, freqlim=freqlim,
                                                       hide_poles=switch_form(hide, it.get("hide_form", "bool")))
                    d["want"] = oracle_stab(Fn, Lab, step, hide)
                else:
                    d["fig"], d["ax"] = plot.cluster_plot(Fn.copy(), Xi.copy(), Lab.copy(), ordmin=0, freqlim=freqlim, hide_poles=switch_form(hide, it.get("hide_form", "bool")))
                    d["want"] = oracle_cluster(Fn, Xi, Lab, hide)
            d["shown0"] = extract_diagram(fn, d["ax"], hide) if fn != "cmif" else None
            d["labels0"] = ax_labels(d["ax"])
            drawn.append(d)
        check_distinct(ctx, drawn, case)
        for k, d in enumerate(drawn):
            sub = dict(case, reread_item=k)
            now = check_still_shows(ctx, d["site"], k, len(drawn) - 1 - k, d["fig"], d["ax"], d["fn"], d["hide"], d["want"], d["shown0"], d["labels0"], sub)
            if now is not None and d["fn"] in ("stab", "cluster"):   # the model's expectation for diagram k, again
                res = {d["fn"]: now}
                queue_tables(d["Fn"], d["Xi"], d["Lab"], "stab_markers Fn Lab (%d) %s" % (d["step"], "true" if d["hide"] else "false"), d["hide"], [],
                             ("tables", dict(sub, site="sequence"), res, [], (d["Fn"], d["Xi"])), exprs, meta, big)
    except Exception as e:  # noqa: BLE001
        ctx.fail("oracle", "a diagram of a sequence raised %s: %s" % (type(e).__name__, str(e)[:200]), case, key="C20:sequence:raised")
    finally:
        plt.close("all")


def class_sequence_case(ctx, case):
    """the classes' plot methods one after the other on several algorithms of one setup; every returned diagram is re-read at the end"""
    from pyoma2.algorithms import FDD, SSIcov, SSIdat, pLSCF
    from pyoma2.setup import SingleSetup

    rng = np.random.default_rng(int(case["seed"]))
    fs = float(case.get("fs", 50.0))
    data = make_signal(rng, int(case.get("N", 1500)), fs, int(case.get("nch", 3)))
    ctx.count(case, nontrivial=True)
    ss = SingleSetup(data.copy(), fs=fs)
    algs = {}
    for name, (cls_name, p) in case["algs"].items():
        algs[name] = (cls_name, dict(SSIcov=SSIcov, SSIdat=SSIdat, pLSCF=pLSCF, FDD=FDD)[cls_name](name=name, **p))
        ss.add_algorithms(algs[name][1])
    try:
        for name in algs:
            ss.run_by_name(name)
    except Exception as e:  # noqa: BLE001
        ctx.fail("correspondence", "class sequence: run raised %s: %s (harness configuration?)" % (type(e).__name__, str(e)[:200]), case, key="C20:class-sequence:run")
        return
    drawn = []
    try:
        for k, (name, what, hide) in enumerate(case["calls"]):
            cls_name, alg = algs[name]
            r = alg.result
            d = dict(hide=bool(hide), site="%s.plot_%s" % (cls_name, what))
            ctx.hist("class_sequence_item", d["site"])
            if what == "CMIF":
                d["fn"] = "cmif"
                d["fig"], d["ax"] = alg.plot_CMIF(nSv="all")
                d["want"] = (np.array(r.freq, float), oracle_cmif(np.array(r.S_val, float), "all"))
            else:
                Fn, Xi, Lab = np.array(r.Fn_poles, float), np.array(r.Xi_poles, float), np.array(r.Lab)
                step = int(alg.run_params.step) if cls_name.startswith("SSI") else 1
                if what == "stab":
                    d["fn"] = "stab"
                    d["fig"], d["ax"] = alg.plot_stab(hide_poles=switch_form(hide, SWITCH_FORMS[(k + 1) % len(SWITCH_FORMS)]))
                    d["want"] = oracle_stab(Fn, Lab, step, bool(hide))
                else:
                    d["fn"] = "cluster"
                    d["fig"], d["ax"] = alg.plot_cluster(hide_poles=switch_form(hide, SWITCH_FORMS[(k + 1) % len(SWITCH_FORMS)]))
                    d["want"] = oracle_cluster(Fn, Xi, Lab, bool(hide))
            d["shown0"] = extract_diagram(d["fn"], d["ax"], d["hide"]) if d["fn"] != "cmif" else None
            d["labels0"] = ax_labels(d["ax"])
            drawn.append(d)
        check_distinct(ctx, drawn, case)
        for k, d in enumerate(drawn):
            check_still_shows(ctx, d["site"], k, len(drawn) - 1 - k, d["fig"], d["ax"], d["fn"], d["hide"], d["want"], d["shown0"], d["labels0"], dict(case, reread_item=k))
    except Exception as e:  # noqa: BLE001
        ctx.fail("oracle", "a plot method of a class sequence raised %s: %s" % (type(e).__name__, str(e)[:200]), case, key="C20:class-sequence:raised")
    finally:
        plt.close("all")


# ----------------------------------------------------------------------------- class level: what the plot methods hand to the plot functions
POLE_FIELDS = ["Fn_poles", "Xi_poles", "Lab", "Fn_poles_cov"]
SPEC_FIELDS = ["S_val", "freq"]
SSI_FAMILY = ["SSIdat", "SSIcov", "SSIdat_MS", "SSIcov_MS"]
PLSCF_FAMILY = ["pLSCF", "pLSCF_MS"]
FDD_FAMILY = ["FDD", "EFDD", "FSDD", "FDD_MS", "EFDD_MS"]


class PlotSpy:
    """records the effective arguments (defaults applied) with which the classes reach plot.stab_plot / cluster_plot / CMIF_plot"""
    NAMES = ("stab_plot", "cluster_plot", "CMIF_plot")

    def __init__(self):
        self.calls = []
        self.orig = {}

    def __enter__(self):
        import functools
        import inspect

        for nm in self.NAMES:
            orig = getattr(plot, nm)
            self.orig[nm] = orig

            def wrapped(*a, __nm=nm, __orig=orig, **k):
                try:
                    ba = inspect.signature(__orig).bind(*a, **k)
                    ba.apply_defaults()
                    self.calls.append((__nm, dict(ba.arguments)))
                except TypeError:
                    self.calls.append((__nm, None))   # the call does not fit the signature: the function itself raises
                return __orig(*a, **k)

            setattr(plot, nm, functools.wraps(orig)(wrapped))
        return self

    def __exit__(self, *exc):
        for nm, orig in self.orig.items():
            setattr(plot, nm, orig)
        return False

    def take(self):
        c, self.calls = self.calls, []
        return c


def field_of(v, result, fields):
    """name of the result field an argument is (identity first, then an equal copy)"""
    if v is None:
        return "None"
    for nm in fields:
        if getattr(result, nm, None) is v:
            return nm
    for nm in fields:
        w = getattr(result, nm, None)
        if w is not None and np.shape(w) == np.shape(v) and np.array_equal(np.asarray(w, float), np.asarray(v, float), equal_nan=True):
            return nm
    return "<not a field of the result>"


def show_lim_py(lim):
    if lim is None:
        return "auto"
    return ",".join("%d/%d" % Fraction(float(v)).as_integer_ratio() for v in (lim[0], lim[1]))


def show_args_py(fn, a, result):
    """the same line the model prints (show_stab_args / show_clus_args / show_cmif_args), from the captured arguments"""
    try:
        if fn == "stab_plot":
            return "C Fn=%s;Lab=%s;step=%d;ordmax=%d;ordmin=%d;freqlim=%s;hide_poles=%s;Fn_cov=%s" % (
                field_of(a["Fn"], result, POLE_FIELDS), field_of(a["Lab"], result, POLE_FIELDS), int(a["step"]), int(a["ordmax"]), int(a["ordmin"]),
                show_lim_py(a["freqlim"]), "T" if a["hide_poles"] else "F", field_of(a["Fn_cov"], result, POLE_FIELDS))
        if fn == "cluster_plot":
            return "C Fn=%s;Xi=%s;Lab=%s;ordmin=%d;freqlim=%s;hide_poles=%s" % (
                field_of(a["Fn"], result, POLE_FIELDS), field_of(a["Xi"], result, POLE_FIELDS), field_of(a["Lab"], result, POLE_FIELDS), int(a["ordmin"]),
                show_lim_py(a["freqlim"]), "T" if a["hide_poles"] else "F")
        return "C S_val=%s;freq=%s;freqlim=%s;nSv=%s" % (field_of(a["S_val"], result, SPEC_FIELDS), field_of(a["freq"], result, SPEC_FIELDS),
                                                        show_lim_py(a["freqlim"]), "all" if isinstance(a["nSv"], str) and a["nSv"] == "all" else "%d" % int(a["nSv"]))
    except Exception as e:  # noqa: BLE001
        return "unreadable arguments (%s: %s)" % (type(e).__name__, str(e)[:80])


def coq_names(has_cov):
    return ('{| pr_Fn := "Fn_poles"; pr_Xi := "Xi_poles"; pr_Lab := "Lab"; pr_cov := %s |}' % ('Some "Fn_poles_cov"' if has_cov else "None"),
            '{| sr_S := "S_val"; sr_freq := "freq" |}')


def coq_runset(step, ordmin, ordmax):
    return "{| rs_step := (%d)%%Z; rs_ordmin := (%d)%%Z; rs_ordmax := (%d)%%Z |}" % (step, ordmin, ordmax)


def coq_nsv(nSv):
    return "None" if nSv == "all" else "(Some (%d)%%Z)" % int(nSv)


def forwarding_expr(cls_name, has_cov, rs, lim, hide, nSv, run):
    """one model line: what the three plot methods of the class hand on (tables by field NAME); run=False: before any result exists"""
    pn, sn = coq_names(has_cov)
    hb = "true" if hide else "false"
    pres = "(Some %s)" % pn if run else "None"
    sres = "(Some %s)" % sn if run else "None"
    return ("show_call show_stab_args (class_plot_stab (T:=string) (L:=string) %s %s %s %s %s) ++ \"$\" ++ "
            "show_call show_clus_args (class_plot_cluster (T:=string) (L:=string) %s %s %s %s %s) ++ \"$\" ++ "
            "show_call show_cmif_args (class_plot_cmif (V:=string) (F:=string) %s %s %s %s)"
            % (cls_name, pres, rs, lim, hb, cls_name, pres, rs, lim, hb, cls_name, sres, lim, coq_nsv(nSv)))


def call_method(ctx, alg, spy, meth, kwargs, positional=False):
    """-> (status, fig, ax, captured) ; status 'nomethod' | 'raises' | 'ok'"""
    if not hasattr(alg, meth):
        return "nomethod", None, None, []
    try:
        if positional:   # pristine order: (freqlim, hide_poles) / (freqlim, nSv)
            fig, ax = getattr(alg, meth)(kwargs["freqlim"], kwargs["nSv" if meth == "plot_CMIF" else "hide_poles"])
        else:
            fig, ax = getattr(alg, meth)(**kwargs)
        return "ok", fig, ax, spy.take()
    except Exception as e:  # noqa: BLE001
        return "raises %s: %s" % (type(e).__name__, str(e)[:120]), None, None, spy.take()


def class_synth_case(ctx, case, exprs, meta):
    """A class's plot methods on a HAND-MADE result (any table, any NaN pattern, any step, with / without deviations): no algorithm is run.
    Compared: the keyword arguments the plot function receives (which result field / run setting goes where) with class_plot_* of the model,
    the returned diagram with class_*_diagram of the model, and the property text on the returned diagram."""
    import pyoma2.algorithms as algs

    cls_name = case["cls"]
    cls = getattr(algs, cls_name)
    fam = "ssi" if cls_name in SSI_FAMILY else ("plscf" if cls_name in PLSCF_FAMILY else "fdd")
    step, ordmin, ordmax = int(case["step"]), int(case["ordmin"]), int(case["ordmax"])
    hide, nSv = bool(case["hide"]), case["nSv"]
    freqlim = None if case.get("freqlim") is None else tuple(case["freqlim"])
    hform, lform, nform = case.get("hide_form", "bool"), case.get("freqlim_form", "tuple"), case.get("nSv_form", "int")
    ctx.count(case, nontrivial=True)
    ctx.hist("synthetic_result_class", cls_name)
    ctx.hist("call_form:class plot methods", case.get("call_form", "keyword"))
    ctx.sample(dict(kind="class on hand-made result", cls=cls_name, step=step, ordmin=ordmin, ordmax=ordmax, hide=hide, freqlim=freqlim, nSv=nSv), limit=8)
    if fam == "ssi":
        alg = cls(name="s", br=4, ordmax=ordmax, ordmin=ordmin, step=step)
    elif fam == "plscf":
        alg = cls(name="s", ordmax=ordmax, ordmin=ordmin)
    else:
        alg = cls(name="s")
    kw = dict(plot_stab=dict(freqlim=lim_form(freqlim, lform), hide_poles=switch_form(hide, hform)),
              plot_cluster=dict(freqlim=lim_form(freqlim, lform), hide_poles=switch_form(hide, hform)),
              plot_CMIF=dict(freqlim=lim_form(freqlim, lform), nSv=count_form(nSv, nform)))
    rs = coq_runset(step, ordmin, ordmax)
    lim = coq_lim(freqlim)
    got = dict(before={}, after={})
    with PlotSpy() as spy:
        try:
            # ---- before any result exists: every plot method raises, no plot function is reached
            for meth in kw:
                st, _f, _a, cap = call_method(ctx, alg, spy, meth, kw[meth])
                got["before"][meth] = "nomethod" if st == "nomethod" else ("raises" if st.startswith("raises") and not cap else "reached a plot function")
                plt.close("all")
            # ---- the hand-made result
            if fam == "fdd":
                S, freq = np.array(case["S"], float), np.array(case["freq"], float)
                alg.result = alg.ResultCls(freq=freq, S_val=S)
                has_cov = False
            else:
                Fn, Xi, Lab = _arr(case["Fn"]), _arr(case["Xi"]), np.array(case["Lab"])
                cov = None if case.get("Fn_cov") is None else _arr(case["Fn_cov"])
                has_cov = cov is not None and fam == "ssi"
                if fam == "ssi":
                    alg.result = alg.ResultCls(Fn_poles=Fn, Xi_poles=Xi, Lab=Lab, Fn_poles_cov=cov)
                else:
                    alg.result = alg.ResultCls(Fn_poles=Fn, Xi_poles=Xi, Lab=Lab)
                cstep = step if fam == "ssi" else 1
            r = alg.result
            for meth, fn in (("plot_stab", "stab_plot"), ("plot_cluster", "cluster_plot"), ("plot_CMIF", "CMIF_plot")):
                st, fig, ax, cap = call_method(ctx, alg, spy, meth, kw[meth], positional=case.get("call_form") == "positional")
                site = "%s.%s" % (cls_name, meth)
                if st == "nomethod":
                    got["after"][meth] = dict(line="nomethod")
                    continue
                if st != "ok":
                    got["after"][meth] = dict(line=st)
                    if not (meth == "plot_CMIF" and nSv != "all" and int(nSv) >= np.shape(r.S_val)[1] and st.startswith("raises ValueError")):
                        ctx.fail("oracle", "%s on a result with tables raised: %s" % (site, st), case, key="C20:%s:raised" % site)
                    plt.close("all")
                    continue
                mine = [c for c in cap if c[0] == fn]
                d = dict(line=show_args_py(fn, mine[0][1], r) if len(mine) == 1 and mine[0][1] is not None else None, ncalls=len(cap))
                if meth == "plot_CMIF" and fam != "fdd":
                    pass
                elif meth == "plot_CMIF":
                    d["curves"] = read_curves(ax)
                    d["xlim"] = tuple(ax.get_xlim())
                    check_curves(ctx, d["curves"], freq, oracle_cmif(S, nSv), case, site)
                elif fam == "fdd":
                    pass
                else:
                    arts, segs = read_axes(ax)
                    stp, unp = split_families(arts, hide)
                    d["markers"] = (fr_pts(stp), fr_pts(unp))
                    d["xlim"] = tuple(ax.get_xlim())
                    if meth == "plot_stab":
                        d["ylim"] = tuple(ax.get_ylim())
                        ws, wu = oracle_stab(Fn, Lab, cstep, hide)
                        if d["markers"] != (fr_pts(ws), fr_pts(wu)):
                            ctx.fail("oracle", "%s (hand-made result, class step %d, hide_poles=%s): markers are not the retained poles of result.Fn_poles/Lab at (frequency, column * step): "
                                     "got %d+%d %s.. want %d+%d %s.." % (site, cstep, hide, len(d["markers"][0]), len(d["markers"][1]), show_pts(d["markers"][0], 3),
                                                                          len(ws), len(wu), show_pts(fr_pts(ws), 3)), case, key="C20:%s:%s" % (site, "stable" if d["markers"][0] != fr_pts(ws) else "unstable"))
                        bad = errbars_on_markers(segs, stp + unp)
                        if not bad:
                            d["bars"] = read_bars(segs, stp + unp)
                            bad = bars_problem(d["bars"], oracle_bars(Fn, Lab, cov if fam == "ssi" else None, cstep, hide), False)
                        if bad:
                            ctx.fail("oracle", "%s (result.Fn_poles_cov %s): %s" % (site, "given" if has_cov else "absent", bad), case, key="C20:%s:errorbar" % site)
                    else:
                        ws, wu = oracle_cluster(Fn, Xi, Lab, hide)
                        if d["markers"] != (fr_pts(ws), fr_pts(wu)):
                            ctx.fail("oracle", "%s (hand-made result, hide_poles=%s): markers are not the retained poles of the result at (frequency, damping): got %d+%d want %d+%d"
                                     % (site, hide, len(d["markers"][0]), len(d["markers"][1]), len(ws), len(wu)), case, key="C20:%s:markers" % site)
                got["after"][meth] = d
                plt.close("all")
            a, b = got["after"].get("plot_stab", {}), got["after"].get("plot_cluster", {})
            if "markers" in a and "markers" in b and np.array_equal(np.isnan(Fn), np.isnan(Xi)):
                if any(sorted(q[0] for q in a["markers"][kk]) != sorted(q[0] for q in b["markers"][kk]) for kk in (0, 1)):
                    ctx.fail("oracle", "%s on one result (hide_poles=%s): plot_stab and plot_cluster do not show the same poles: %d+%d vs %d+%d markers"
                             % (cls_name, hide, len(a["markers"][0]), len(a["markers"][1]), len(b["markers"][0]), len(b["markers"][1])), case, key="C20:%s:same-poles" % cls_name)
        finally:
            plt.close("all")
    # ---- model: forwarding (by field name) before / after, then the diagrams
    es = [forwarding_expr(cls_name, False, rs, lim, hide, nSv, run=False), forwarding_expr(cls_name, has_cov, rs, lim, hide, nSv, run=True)]
    hb = "true" if hide else "false"
    if fam == "fdd":
        es.append("let S := %s in showB (cubeb %d %d S) ++ \"$\" ++ show_call show_cmif_diag (class_cmif_diagram (fun v : Q => v) %s (Some {| sr_S := S; sr_freq := %s |}) %s %s)"
                  % (coq_cube(S), S.shape[1], S.shape[2], cls_name, clist([qq(v) for v in freq.tolist()]), lim, coq_nsv(nSv)))
    else:
        rows, cols = Fn.shape
        es.append("let r := {| pr_Fn := %s; pr_Xi := %s; pr_Lab := %s; pr_cov := %s |} in showB (rectb %d %d (pr_Fn r) && rectb %d %d (pr_Xi r) && rectb %d %d (pr_Lab r))%%bool ++ \"$\" ++ "
                  "show_call show_stab_diag (class_stab_diagram %s (Some r) %s %s %s) ++ \"$\" ++ show_call show_clus_diag (class_cluster_diagram %s (Some r) %s %s %s)"
                  % (coq_tab(Fn), coq_tab(Xi), coq_lab(Lab), "None" if cov is None else "(Some %s)" % coq_tab(cov), rows, cols, rows, cols, rows, cols,
                     cls_name, rs, lim, hb, cls_name, rs, lim, hb))
    exprs += es
    meta.append((("synth", case, got, fam), len(es)))


def unused_dropped(meth, line):
    """cluster_plot accepts ordmin and never uses it: whatever a class hands on there cannot show in the diagram, so it is not compared"""
    import re
    return re.sub(r";ordmin=-?\d+", "", line) if meth == "plot_cluster" else line


def compare_synth(ctx, m, strs):
    _, case, got, fam = m
    cls_name = case["cls"]
    meths = ["plot_stab", "plot_cluster", "plot_CMIF"]
    # ---- before a run
    for meth, tok in zip(meths, strs[0].split("$")):
        g = got["before"].get(meth)
        if g is None:
            continue
        if tok == "nomethod":
            if g != "nomethod":
                ctx.note("%s has a method %s the model does not know (not compared)" % (cls_name, meth))
        elif tok != g:
            ctx.fail("correspondence", "%s.%s before any result exists: model says %r, implementation: %s" % (cls_name, meth, tok, g), case, key="C20:%s.%s:not-run" % (cls_name, meth))
    # ---- forwarding
    for meth, tok in zip(meths, strs[1].split("$")):
        d = got["after"].get(meth)
        if d is None or tok == "nomethod":
            if d is not None and d.get("line") != "nomethod":
                ctx.note("%s has a method %s the model does not know (not compared)" % (cls_name, meth))
            continue
        if d.get("line") == "nomethod":
            ctx.fail("correspondence", "%s has no method %s (model: %s)" % (cls_name, meth, tok), case, key="C20:%s.%s:missing" % (cls_name, meth))
        elif d.get("line") is None:
            if "ncalls" in d:
                ctx.note("%s.%s did not reach the plot function through pyoma2.functions.plot exactly once (%d calls seen): forwarded arguments not compared" % (cls_name, meth, d["ncalls"]))
        elif d["line"].startswith("C ") and unused_dropped(meth, d["line"]) != unused_dropped(meth, tok):
            ctx.fail("correspondence", "%s.%s hands other arguments to the plot function than the model: implementation %s ; model %s" % (cls_name, meth, d["line"][2:], tok[2:]),
                     case, key="C20:%s.%s:forwarded-arguments" % (cls_name, meth))
    # ---- diagrams
    parts = strs[2].split("$")
    if parts[0] != "T":
        ctx.fail("correspondence", "model hypotheses (rectangular tables / n x n x nf array) do not hold on a generated class case", case, key="C20:harness:rect")
        return
    if fam == "fdd":
        d = got["after"].get("plot_CMIF", {})
        body = parts[1]
        if "curves" not in d:
            if body.startswith("C O"):
                ctx.fail("correspondence", "%s.plot_CMIF gave no diagram (%s) where the model draws curves" % (cls_name, d.get("line")), case, key="C20:%s.plot_CMIF:corr" % cls_name)
            return
        if not body.startswith("C O "):
            n, nSv = np.shape(case["S"])[1], case["nSv"]
            if nSv != "all" and int(nSv) == n:
                ctx.not_judged += 1   # nSv = n accepted and drawn: outside what the property constrains (see compare_cmif)
                return
            ctx.fail("correspondence", "%s.plot_CMIF drew %d curves where the model says %s" % (cls_name, len(d["curves"]), body), case, key="C20:%s.plot_CMIF:corr" % cls_name)
            return
        cur, mlim = body[4:].split("#")
        rows = [c for c in cur.split(";")] if cur.strip() else []
        bad = len(rows) != len(d["curves"])
        fr = lambda t: float(Fraction(int(t.split("/")[0]), int(t.split("/")[1])))   # noqa: E731
        for (x, y), row in zip(d["curves"], rows):
            mx, my = row.split("@")
            wx = np.array([fr(t) for t in mx.split(" ") if t])
            with np.errstate(divide="ignore"):
                wy = 10.0 * np.log10(np.array([fr(t) for t in my.split(" ") if t]))
            if not (np.array_equal(x, wx) and curve_match(y, wy)):
                bad = True
        if bad:
            ctx.fail("correspondence", "%s.plot_CMIF curves differ from class_cmif_diagram (model): %d vs %d curves, or a grid value / ratio differs" % (cls_name, len(d["curves"]), len(rows)),
                     case, key="C20:%s.plot_CMIF:corr" % cls_name)
        bad = lim_problem(d["xlim"], parse_lim(mlim))
        if bad:
            ctx.fail("correspondence", "%s.plot_CMIF x-%s" % (cls_name, bad), case, key="C20:%s.plot_CMIF:xlim" % cls_name)
        return
    ds, dc = got["after"].get("plot_stab", {}), got["after"].get("plot_cluster", {})
    if "markers" in ds and parts[1].startswith("C "):
        mk, bars, mx, my = parts[1][2:].split("#")
        if parse_two(mk) != ds["markers"]:
            ctx.fail("correspondence", "%s.plot_stab markers differ from class_stab_diagram (model): impl %d+%d, model %d+%d"
                     % (cls_name, len(ds["markers"][0]), len(ds["markers"][1]), len(parse_two(mk)[0]), len(parse_two(mk)[1])), case, key="C20:%s.plot_stab:corr" % cls_name)
        compare_extras(ctx, case, dict(bars=ds.get("bars"), xlim=ds["xlim"], ylim=ds["ylim"]), "%s!%s!%s!auto" % (bars, mx, my), "%s.plot_stab" % cls_name)
    if "markers" in dc and parts[2].startswith("C "):
        mk, mx = parts[2][2:].split("#")
        if parse_two(mk) != dc["markers"]:
            ctx.fail("correspondence", "%s.plot_cluster markers differ from class_cluster_diagram (model)" % cls_name, case, key="C20:%s.plot_cluster:corr" % cls_name)
        bad = lim_problem(dc["xlim"], parse_lim(mx))
        if bad:
            ctx.fail("correspondence", "%s.plot_cluster x-%s" % (cls_name, bad), case, key="C20:%s.plot_cluster:xlim" % cls_name)


# ----------------------------------------------------------------------------- class level
def class_case(ctx, case, exprs, meta, big):
    from pyoma2.algorithms import FDD, SSIcov, SSIdat, pLSCF
    from pyoma2.setup import SingleSetup

    rng = np.random.default_rng(int(case["seed"]))
    fs = float(case.get("fs", 50.0))
    data = make_signal(rng, int(case.get("N", 1500)), fs, int(case.get("nch", 3)))
    if case.get("demean"):
        data = data - data.mean(axis=0)             # (nearly) zero spectral density at DC
    if case.get("rankdef") == "dead":
        data[:, -1] = 0.0                           # dead sensor: exactly rank-deficient spectral matrix, last singular value exactly 0 (-inf dB)
    elif case.get("rankdef"):
        data[:, -1] = data[:, -1] * 1e-20           # nearly dead sensor: last singular value 200 dB or more below the first one's maximum
    cls_name = case["cls"]
    p = dict(case.get("params", {}))
    cls = dict(SSIcov=SSIcov, SSIdat=SSIdat, pLSCF=pLSCF, FDD=FDD)[cls_name]
    ctx.count(case, nontrivial=True)
    ctx.hist("class", cls_name)
    ss = SingleSetup(data.copy(), fs=fs)
    alg = cls(name="a", **p)
    ss.add_algorithms(alg)
    try:
        ss.run_by_name("a")
    except Exception as e:  # noqa: BLE001
        ctx.fail("correspondence", "%s.run raised %s: %s (harness configuration?)" % (cls_name, type(e).__name__, str(e)[:200]), case, key="C20:%s:run" % cls_name)
        return
    r = alg.result
    if cls_name == "FDD":
        S, freq = np.array(r.S_val, float), np.array(r.freq, float)
        n = S.shape[1]
        with np.errstate(divide="ignore"):
            lv = 10 * np.log10(np.array([S[k, k] for k in range(n)]) / S[0, 0].max())
        ctx.hist("fdd_exact_zero_singular_value", bool(np.isneginf(lv).any()))
        ctx.hist("fdd_finite_level_below_-156.5dB", bool((np.isfinite(lv) & (lv < -156.6)).any()))
        nforms = case.get("nSv_forms")
        for q, nSv in enumerate(case.get("nSv", ["all", 1, n - 1])):
            for freqlim in (None, (1.0, fs / 4)):
                nform = nforms[q % len(nforms)] if nforms else COUNT_FORMS[int(rng.integers(len(COUNT_FORMS)))]
                lform = LIM_FORMS[int(rng.integers(len(LIM_FORMS)))]
                sub = dict(case, nSv=nSv, freqlim=freqlim, nSv_form=nform, freqlim_form=lform)
                ctx.hist("class_nSv_form", "all" if nSv == "all" else nform)
                try:
                    if freqlim is not None and nSv != "all":   # positional call form, non-default values: plot_CMIF(freqlim, nSv)
                        fig, ax = alg.plot_CMIF(lim_form(freqlim, lform), count_form(nSv, nform))
                    else:
                        fig, ax = alg.plot_CMIF(freqlim=lim_form(freqlim, lform), nSv=count_form(nSv, nform))
                    curves = read_curves(ax)
                    check_curves(ctx, curves, freq, oracle_cmif(S, nSv), sub, "FDD.plot_CMIF")
                except Exception as e:  # noqa: BLE001
                    ctx.fail("oracle", "FDD.plot_CMIF(nSv=%r as %s) raised %s: %s" % (nSv, nform, type(e).__name__, str(e)[:200]), sub, key="C20:FDD.plot_CMIF:raised")
                    curves = None
                finally:
                    plt.close("all")
                if freqlim is None and curves is not None:
                    queue_cmif(S, nSv, n if nSv == "all" else int(nSv), ("cmif", dict(sub, site="FDD.plot_CMIF"), curves, S, freq), exprs, meta)
        return
    Fn, Xi, Lab = np.array(r.Fn_poles, float), np.array(r.Xi_poles, float), np.array(r.Lab)
    rows, cols = Fn.shape
    step = int(alg.run_params.step) if cls_name.startswith("SSI") else 1
    cov = np.array(r.Fn_poles_cov, float) if cls_name.startswith("SSI") and getattr(r, "Fn_poles_cov", None) is not None else None
    ctx.hist("class_result_has_Fn_poles_cov", cov is not None)
    ctx.hist("class_stable_poles", min(int(((Lab == 1) & np.isfinite(Fn)).sum()) // 5 * 5, 50))
    hforms = case.get("hide_forms")
    for hide in (True, False):
        for freqlim in (None, (2.0, 12.0)):
            hform = (hforms[int(freqlim is not None) % len(hforms)] if hforms else SWITCH_FORMS[1 + int(rng.integers(len(SWITCH_FORMS) - 1))])
            lform = LIM_FORMS[int(rng.integers(len(LIM_FORMS)))]
            hide_arg, lim_arg = switch_form(hide, hform), lim_form(freqlim, lform)     # the same forms go to plot_stab and plot_cluster
            ctx.hist("class_hide_form", "%s=%s" % (hform, hide))
            sub = dict(case, hide=hide, freqlim=freqlim, hide_form=hform, freqlim_form=lform)
            want_s, want_u = oracle_stab(Fn, Lab, step, hide)
            got = None
            try:
                if freqlim is not None and not hide:   # positional call form, non-default values: plot_stab(freqlim, hide_poles)
                    fig, ax = alg.plot_stab(lim_arg, hide_arg)
                else:
                    fig, ax = alg.plot_stab(freqlim=lim_arg, hide_poles=hide_arg)
                arts, segs = read_axes(ax)
                st, un = split_families(arts, hide)
                got = (fr_pts(st), fr_pts(un))
                if got[0] != fr_pts(want_s):
                    ctx.fail("oracle", "%s.plot_stab: stable markers are not the stable poles of result.Fn_poles/Lab at (frequency, order): got %s.. want %s.."
                             % (cls_name, show_pts(got[0]), show_pts(fr_pts(want_s))), sub, key="C20:%s.plot_stab:stable" % cls_name)
                if got[1] != fr_pts(want_u):
                    ctx.fail("oracle", "%s.plot_stab(hide_poles=%s): unstable markers: got %d, want %d" % (cls_name, hide, len(got[1]), len(want_u)), sub,
                             key="C20:%s.plot_stab:unstable" % cls_name)
                bad = errbars_on_markers(segs, st + un)
                bars = None
                if not bad:   # one bar per drawn marker whose pole has a finite deviation in result.Fn_poles_cov, none otherwise
                    bars = read_bars(segs, st + un)
                    bad = bars_problem(bars, oracle_bars(Fn, Lab, cov, step, hide), False)
                if bad:
                    ctx.fail("oracle", "%s.plot_stab: %s" % (cls_name, bad), sub, key="C20:%s.plot_stab:errorbar" % cls_name)
                lims = (tuple(ax.get_xlim()), tuple(ax.get_ylim()))
            except Exception as e:  # noqa: BLE001
                ctx.fail("oracle", "%s.plot_stab raised %s: %s" % (cls_name, type(e).__name__, str(e)[:200]), sub, key="C20:%s.plot_stab:raised" % cls_name)
            finally:
                plt.close("all")
            want_cs, want_cu = oracle_cluster(Fn, Xi, Lab, hide)
            gotc = None
            try:
                if freqlim is not None and not hide:
                    fig, ax = alg.plot_cluster(lim_arg, hide_arg)
                else:
                    fig, ax = alg.plot_cluster(freqlim=lim_arg, hide_poles=hide_arg)
                arts, _ = read_axes(ax)
                st, un = split_families(arts, hide)
                gotc = (fr_pts(st), fr_pts(un))
                if gotc[0] != fr_pts(want_cs) or gotc[1] != fr_pts(want_cu):
                    ctx.fail("oracle", "%s.plot_cluster(hide_poles=%s): markers are not the poles of result at (frequency, damping): got %d+%d want %d+%d"
                             % (cls_name, hide, len(gotc[0]), len(gotc[1]), len(want_cs), len(want_cu)), sub, key="C20:%s.plot_cluster:markers" % cls_name)
            except Exception as e:  # noqa: BLE001
                ctx.fail("oracle", "%s.plot_cluster raised %s: %s" % (cls_name, type(e).__name__, str(e)[:200]), sub, key="C20:%s.plot_cluster:raised" % cls_name)
            finally:
                plt.close("all")
            if got is not None and gotc is not None and np.array_equal(np.isnan(Fn), np.isnan(Xi)):
                if any(sorted(q[0] for q in got[kk]) != sorted(q[0] for q in gotc[kk]) for kk in (0, 1)):
                    ctx.fail("oracle", "%s with hide_poles=%r (%s): the two diagrams do not show the same poles: plot_stab %d stable / %d unstable, plot_cluster %d / %d"
                             % (cls_name, hide_arg, hform, len(got[0]), len(got[1]), len(gotc[0]), len(gotc[1])), sub, key="C20:%s:same-poles" % cls_name)
            if freqlim is None:
                # the model's class-level diagram on the result record (run settings as the class holds them)
                hb = "true" if hide else "false"
                rs = coq_runset(step, int(alg.run_params.ordmin), int(alg.run_params.ordmax))
                call = "class_stab_diagram %s (Some {| pr_Fn := Fn; pr_Xi := Xi; pr_Lab := Lab; pr_cov := COV |}) %s None %s" % (cls_name, rs, hb)
                fam = "(match %s with Called d => (sd_stable d, sd_unstable d) | _ => ([], []) end)" % call.replace("COV", "None")
                res, extra = {}, []
                if got is not None:
                    res["stab"] = got
                    if cov is None or bars_out_estimate(Fn, cov) <= 9000:
                        res.update(extras=True, bars=bars, xlim=lims[0], ylim=lims[1])
                        extra = ["match %s with Called d => show_stab_extras d | _ => \"raises!auto!auto\" end ++ \"!auto\"" % call.replace("COV", "None" if cov is None else "(Some %s)" % coq_tab(cov))]
                if gotc is not None:
                    res["cluster"] = gotc
                queue_tables(Fn, Xi, Lab, fam, hide, extra, ("tables", dict(sub, site="%s.plot_stab" % cls_name), res, [], (Fn, Xi)), exprs, meta, big)
            # the marker's order value is what mpe accepts for that pole
            if hide and freqlim is None and got is not None:
                marks = got[0]
                if len(marks) > 30:
                    sel = sorted(set(int(k) for k in rng.choice(len(marks), size=30, replace=False)))
                    marks = [marks[k] for k in sel]
                acc = ctx.extra.setdefault("markers_fed_back_to_mpe", {})
                for f, y in marks:
                    f, y = float(f), float(y)
                    why = None
                    acc[cls_name] = acc.get(cls_name, 0) + 1
                    try:
                        if y != int(y):
                            raise ValueError("marker order value %r is not an integer" % y)
                        alg.mpe(sel_freq=[f], order=int(y))
                        rr = alg.result
                        fo = np.asarray(rr.Fn, float).ravel()
                        xo = np.asarray(rr.Xi, float).ravel()
                        o = int(y)
                        cand = [i for i in range(rows) if 0 <= o < cols and Fn[i, o] == f and Lab[i, o] == 1]
                        if not (len(fo) == 1 and fo[0] == f):
                            why = "returned Fn=%s" % fo.tolist()
                        elif not cand:
                            why = "no stable pole with that frequency in column %d of result.Fn_poles" % o
                        elif not any(xo[0] == Xi[i, o] for i in [i for i in range(rows) if Fn[i, o] == f]):
                            why = "returned damping %s belongs to another pole" % xo.tolist()
                    except Exception as e:  # noqa: BLE001
                        why = "raised %s: %s" % (type(e).__name__, str(e)[:120])
                    if why:
                        ctx.fail("oracle", "%s: stable marker (%r, %r) of plot_stab is not accepted by mpe(sel_freq=[f], order=int(y)): %s" % (cls_name, f, y, why),
                                 dict(sub, marker=[f, y]), key="C20:%s.plot_stab:marker-order-not-accepted" % cls_name)
                        break


# ----------------------------------------------------------------------------- driver
def jl(a):
    return [[None if v != v else float(v) for v in r] for r in np.asarray(a, float)]


def run(ctx):
    rng = ctx.np_rng
    ctx.extra["rule"] = ("function level: random non-square pole/label tables (repeated frequencies, NaN patterns random / SSI-triangular / sparse, ~15 % degenerate), "
                         "step 1-5, hide on/off, freqlim, Fn_cov; CMIF: n x n x nf arrays with non-zero off-diagonals, nSv all / -1..n+1; class level: SSIcov/SSIdat/pLSCF/FDD "
                         "through SingleSetup; every class (SSIdat/SSIcov/pLSCF/FDD/EFDD/FSDD and the *_MS ones) on hand-made results (any table, step 1-3, with / without "
                         "deviation table) with the arguments reaching the plot functions recorded; ~25-35 % of the calls fully positional in the pristine parameter order.  "
                         "Non-trivial = at least one marker (or one curve) is due; distinct by hash of the whole case")
    ctx.assumptions += [
        "Matplotlib data accessors (Line2D.get_xdata/get_ydata, PathCollection.get_offsets, ErrorbarContainer.lines, LineCollection.get_segments) return the data handed to the artists",
        "stable/unstable families are told apart by legend label when present, else Line2D = stable, PathCollection = unstable (colour/marker style never inspected)",
        "10*log10 is applied outside the model (DESIGN 3.4): 10**(y/10) is compared with the model's exact ratio at relative 1e-9",
        "C20_marker_accepted models the explicit-order branch of SSI_mpe/pLSCF_mpe by mpe_pick (column = order argument); tied to the functions on the drawn markers of step-1 cases",
        "error bars are read from the LineCollection segments of the ErrorbarContainers: centre = segment midpoint snapped to the nearest drawn marker of that order value, half-width = half the "
        "segment length, compared at 1e-9 * max(1, |f|); property level: one bar per drawn marker with a finite deviation, never wider than the pole's own |cov*f| and equal to it up to 0.5; the clip "
        "at 0.5 itself is compared with the model only (colours never inspected)",
        "axis limits (x-limits = freqlim, y-limits = (ordmin, ordmax+1) when unstable poles are shown) are compared with the model only (correspondence), never judged against the property text",
        "class level on hand-made results: alg.result is assigned a ResultCls instance built from generated tables (no algorithm run); the arguments reaching plot.stab_plot / cluster_plot / CMIF_plot are "
        "recorded by wrapping those three attributes of pyoma2.functions.plot and mapped to result fields by identity (then equality); cluster_plot's unused ordmin is not compared",
        "class level: SSI classes can only produce a result with step = 1 (SSI_poles raises IndexError for step > 1 unless ordmax = step, where no pole can be labelled stable), pLSCF passes step = 1",
    ]
    exprs, meta, big = [], [], []
    # ---- corpus first (repaired defect: pLSCF.plot_cluster TypeError; minimal layout cases)
    for path in sorted(glob.glob(os.path.join(VERIF, "corpus", "C20", "*.json"))):
        case = json.load(open(path))
        case["corpus"] = os.path.basename(path)
        if case["type"] == "class":
            class_case(ctx, case, exprs, meta, big)
        elif case["type"] == "tables":
            table_case(ctx, case, exprs, meta, big)
        elif case["type"] == "cmif":
            cmif_case(ctx, case, exprs, meta)
        elif case["type"] == "sequence":
            sequence_case(ctx, case, exprs, meta, big)
        elif case["type"] == "class_sequence":
            class_sequence_case(ctx, case)
        elif case["type"] == "class_synth":
            class_synth_case(ctx, case, exprs, meta)
    # ---- function level: tables
    n_tab = ctx.n(100, 450)
    for k in range(n_tab):
        if ctx.quick():
            max_orders = 12
        else:
            max_orders = 60 if k % 5 == 0 else (30 if k % 5 == 1 else 12)
        kind, Fn, Xi, Lab = gen_tables(ctx, rng, max_orders, degenerate=rng.random() < 0.15)
        cov = gen_cov(rng, Fn) if rng.random() < 0.45 else None
        nst = max(1, int(((Lab == 1) & np.isfinite(Fn)).sum()))
        case = dict(type="tables", kind=kind, Fn=jl(Fn), Xi=jl(Xi), Lab=Lab.tolist(), lab_float=bool(rng.random() < 0.4),
                    step=int(rng.choice([1, 1, 1, 2, 3, 5])), hide=bool(rng.random() < 0.5), freqlim=gen_freqlim(rng),
                    hide_form=str(rng.choice(SWITCH_FORMS)), step_form=str(rng.choice(STEP_FORMS)), freqlim_form=str(rng.choice(LIM_FORMS)),
                    redraw=bool(rng.random() < 0.25),
                    Fn_cov=None if cov is None else jl(cov), ordmin=int(rng.integers(0, 3)), axes_mode=str(rng.choice(["none", "none", "none", "bystander", "panel", "panel", "otherfig"])),
                    pick_idx=[int(v) for v in rng.integers(0, nst, size=2)], rtol=float(rng.choice([0.05, 0.01, 0.0])))
        if rng.random() < 0.25:   # the documented positional call, every option at a non-default value
            if cov is None:
                cov = gen_cov(rng, Fn)
            case.update(call_form="positional", freqlim=some_freqlim(rng), hide=False, ordmin=int(rng.integers(1, 3)), Fn_cov=jl(cov))
        table_case(ctx, case, exprs, meta, big)
    # ---- function level: CMIF
    for k in range(ctx.n(40, 240)):
        n = int(rng.integers(2, 6))
        nf = int(rng.integers(3, 12 if ctx.quick() else 40))
        S = rng.integers(1, 4096, size=(n, n, nf)) / 64.0
        for j in range(1, n):
            if rng.random() < 0.7:
                S[j, j] = S[j, j] / 2 ** int(rng.integers(1, 5))  # usually below the first singular value, not always
        if rng.random() < 0.45:   # wide INTERNAL dynamic range: ratios down to 1e-20..1e-30, exact zeros (rank-deficient matrix, zero at DC)
            for j in range(1, n):
                u = rng.random()
                if u < 0.45:
                    S[j, j] = S[j, j] * 2.0 ** -int(rng.integers(64, 101))
                elif u < 0.6:
                    S[j, j] = 0.0
                if rng.random() < 0.5:
                    S[j, j, int(rng.integers(nf))] = 0.0
            line = int(rng.integers(nf))
            if rng.random() < 0.5 and nf > 1:
                keep = int(np.argmax(S[0, 0]))
                line = line if line != keep else (keep + 1) % nf
                S[0, 0, line] = 0.0 if rng.random() < 0.5 else S[0, 0, line] * 2.0 ** -90   # the first singular value itself dips (DC line)
        freq = np.cumsum(rng.integers(1, 9, size=nf)) / 16.0
        nSv = "all" if rng.random() < 0.4 else int(rng.integers(-1, n + 2))
        case = dict(type="cmif", S=S.tolist(), freq=freq.tolist(), nSv=nSv, freqlim=gen_freqlim(rng, 0.0, float(freq[-1])),
                    nSv_form=str(rng.choice(COUNT_FORMS)), freqlim_form=str(rng.choice(LIM_FORMS)), redraw=bool(rng.random() < 0.3),
                    axes_mode=str(rng.choice(["none", "none", "bystander", "panel", "otherfig"])))
        if rng.random() < 0.25:
            case.update(call_form="positional", freqlim=some_freqlim(rng, 0.0, float(freq[-1])), nSv=int(rng.integers(1, n)))
        elif rng.random() < 0.1:   # malformed: the grid has one line less than the array
            case.update(freq=freq[:-1].tolist(), redraw=False)
        cmif_case(ctx, case, exprs, meta)
    # ---- diagrams are independent objects: sequences A, B, A', ... with every returned (fig, ax) kept and re-read at the end
    for k in range(ctx.n(12, 60)):
        base = []
        for _ in range(2):
            kind, Fn, Xi, Lab = gen_tables(ctx, rng, 8, degenerate=False)
            base.append(dict(Fn=jl(Fn), Xi=jl(Xi), Lab=Lab.tolist()))
        n = int(rng.integers(2, 5))
        Sq = (rng.integers(1, 4096, size=(n, n, 6)) / 64.0).tolist()
        fq = (np.cumsum(rng.integers(1, 9, size=6)) / 16.0).tolist()
        first = str(rng.choice(["cluster", "cluster", "stab"]))
        items = [dict(base[0], fn=first, hide=bool(rng.random() < 0.5), hide_form=str(rng.choice(SWITCH_FORMS)), step=int(rng.choice([1, 2])), freqlim=gen_freqlim(rng))]
        for j in range(int(rng.integers(2, 5))):
            fn = str(rng.choice(["cluster", "cluster", "stab", "stab", "cmif"]))
            if fn == "cmif":
                items.append(dict(fn="cmif", S=Sq, freq=fq, nSv=("all" if rng.random() < 0.5 else int(rng.integers(1, n))), nSv_form=str(rng.choice(COUNT_FORMS))))
            elif rng.random() < 0.4:   # A': an earlier table drawn again with other options
                items.append(dict(fn=fn, same_as=0, hide=bool(rng.random() < 0.5), step=int(rng.choice([1, 3])), freqlim=gen_freqlim(rng)))
            else:
                items.append(dict(base[1], fn=fn, hide=bool(rng.random() < 0.5), hide_form=str(rng.choice(SWITCH_FORMS)), step=int(rng.choice([1, 2])), freqlim=gen_freqlim(rng)))
        items.append(dict(base[1] if rng.random() < 0.5 else base[0], fn=first, hide=bool(rng.random() < 0.5), step=1, freqlim=None))   # the first kind once more
        sequence_case(ctx, dict(type="sequence", items=items), exprs, meta, big)
    loose = dict(sc=dict(err_fn=0.05, err_xi=0.8, err_phi=0.3), hc=dict(conj=True, xi_max=0.2, mpc_lim=0.5, mpd_lim=0.5))
    for k in range(ctx.n(2, 6)):
        a2 = ("SSIdat", dict(br=6, ordmax=8)) if k % 2 else ("pLSCF", dict(ordmax=7, nxseg=256, **loose))
        class_sequence_case(ctx, dict(type="class_sequence", seed=int(rng.integers(1, 10**6)), nch=3,
                                      algs=dict(a=("SSIcov", dict(br=7, ordmax=9)), b=a2, c=("FDD", dict(nxseg=64))),
                                      calls=[["a", "cluster", True], ["a", "stab", False], ["b", "cluster", False], ["c", "CMIF", True],
                                             ["b", "stab", True], ["a", "cluster", False], ["b", "cluster", True]]))
    # ---- class level on hand-made results: every class (also the multi-setup and derived ones), any table / step / deviations, no algorithm run
    for k in range(ctx.n(22, 110)):
        cls_name = (SSI_FAMILY + PLSCF_FAMILY + FDD_FAMILY + SSI_FAMILY + PLSCF_FAMILY + FDD_FAMILY)[k] if k < 22 else str(rng.choice(SSI_FAMILY + SSI_FAMILY + PLSCF_FAMILY + FDD_FAMILY))
        case = dict(type="class_synth", cls=cls_name, step=int(rng.choice([1, 2, 3])), ordmin=int(rng.choice([0, 4, 6])), ordmax=int(rng.integers(9, 15)),
                    hide=bool(rng.random() < 0.5), freqlim=gen_freqlim(rng), hide_form=str(rng.choice(SWITCH_FORMS)), freqlim_form=str(rng.choice(LIM_FORMS)),
                    nSv_form=str(rng.choice(COUNT_FORMS)), nSv="all")
        if cls_name in FDD_FAMILY:
            n, nf = int(rng.integers(2, 5)), int(rng.integers(3, 9))
            S = rng.integers(1, 4096, size=(n, n, nf)) / 64.0
            for j in range(1, n):
                S[j, j] = S[j, j] / 2 ** int(rng.integers(0, 5))
            case.update(S=S.tolist(), freq=(np.cumsum(rng.integers(1, 9, size=nf)) / 16.0).tolist(), nSv=("all" if rng.random() < 0.4 else int(rng.integers(-1, n + 1))))
        else:
            kind, Fn, Xi, Lab = gen_tables(ctx, rng, 7, degenerate=rng.random() < 0.1)
            cov = gen_cov(rng, Fn) if rng.random() < 0.65 else None
            case.update(Fn=jl(Fn), Xi=jl(Xi), Lab=Lab.tolist(), Fn_cov=None if cov is None else jl(cov))
        if rng.random() < 0.35:
            case.update(call_form="positional", freqlim=some_freqlim(rng), hide=False)
            if cls_name in FDD_FAMILY:
                case.update(nSv=int(rng.integers(1, n)))
        class_synth_case(ctx, case, exprs, meta)
    # ---- class level
    configs = []
    for d in range(ctx.n(2, 8)):
        seed = int(rng.integers(1, 10**6))
        nch = int(rng.integers(2, 5))
        om = int(rng.integers(8, 13))
        configs += [
            dict(type="class", cls="SSIcov", seed=seed, nch=nch, params=dict(br=int(rng.integers(6, 10)), ordmax=om, ordmin=int(rng.choice([0, 2])))),
            dict(type="class", cls="SSIcov", seed=seed, nch=nch, params=dict(br=int(rng.integers(6, 9)), ordmax=int(rng.integers(6, 9)), calc_unc=True, nb=20)),
            dict(type="class", cls="SSIdat", seed=seed, nch=nch, params=dict(br=int(rng.integers(6, 9)), ordmax=int(rng.integers(7, 11)))),
            dict(type="class", cls="pLSCF", seed=seed, nch=nch, params=dict(ordmax=int(rng.integers(5, 10)), ordmin=int(rng.choice([0, 1, 2])), nxseg=256,
                                                                       sc=dict(err_fn=0.05, err_xi=0.8, err_phi=0.3),     # loose criteria: enough stable poles
                                                                       hc=dict(conj=True, xi_max=0.2, mpc_lim=0.5, mpd_lim=0.5))),
            dict(type="class", cls="FDD", seed=seed, nch=nch, params=dict(nxseg=int(rng.choice([64, 128])))),
            dict(type="class", cls="FDD", seed=seed, nch=max(nch, 3), rankdef=("dead" if d % 2 == 0 else "tiny"), demean=bool(d % 4 < 2), nSv=["all", 1],
                 params=dict(nxseg=64, method_SD=str(rng.choice(["per", "cor"])))),
        ]
    for case in configs:
        class_case(ctx, case, exprs, meta, big)
    # ---- model evaluation and comparison
    out = ctx.coq_eval(HEADER, exprs, shard=ctx.n(14, 24))
    pos = 0
    for item, nout in meta:
        strs = out[pos: pos + nout]
        pos += nout
        if item[0] == "tables":
            compare_tables(ctx, item, strs[0])
        elif item[0] == "synth":
            compare_synth(ctx, item, strs)
        else:
            compare_cmif(ctx, item, strs)
    acc = ctx.extra.get("markers_fed_back_to_mpe", {})
    for fam in ("SSI", "pLSCF"):
        if not any(v > 0 for k, v in acc.items() if k.startswith(fam)):
            ctx.fail("correspondence", "harness: no stable %s marker was fed back to mpe (the order-acceptance oracle would be vacuous)" % fam, None,
                     key="C20:harness:vacuous-%s" % fam)
    if big:
        ctx.hist("large_output_own_file", len(big))
        for (src, n, nch, item), res in zip(big, c20_run_files(ctx, [(b[0], b[1]) for b in big])):
            compare_tables(ctx, item, c20_big_assemble(res, nch))
