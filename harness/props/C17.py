"""C17 - frequency variance = first-order propagation of the Hankel covariance factor.
Model: coq/Model/M_unc.v; theorems: coq/Properties/C17.v.

Parts (corpus cases of the two repaired defects are run first, through the same functions):
  F  build_hank(cov_mm, calc_unc=True): factor vs the Coq model (exact layout / order / scale) and vs the property text
     (Gram matrix = sample covariance of the mean of independently computed block-wise estimates, column-stacked).
  P  SSI_fast + SSI_poles (calc_unc=True): Fn_cov vs sum over factor columns of squared central finite differences of
     the identification itself, two step sizes that must agree (oracle = property text).
  M  model chain in Qc on witness values (harness SVD / eig): Q1..Q3 (modulo changes of the state basis) and Fn_cov as
     returned by the functions; the model of the code's singular-vector sensitivity vs classical perturbation theory.
  A  the uncertainty reaches the user aligned: ssi.SSI_mpe with covariance tables and SSIcov / SSIdat(cov_mm).mpe after a calc_unc
     run, order as int / list / "find_min", request lists with missed requests before / between / after found ones: one variance
     per extracted frequency, and it is the table entry of the pole that produced that frequency.
  I  input forms the property does not restrict: every array input read-only, option values as NumPy scalars / 0-d arrays,
     records stored as integers of any width or float32 - the same variances as the plain form of the same values.
  C  call forms: build_hank, SSI_fast, SSI_poles, SSI_mpe, SSIdat/SSIcov.mpe, SingleSetup(...) and SingleSetup.mpe also called with
     EVERY argument by position, in the documented parameter order (written out in this file), optional parameters at values that
     are not their defaults: the same result as with keywords, and the oracles of parts F / P / A on that result.
  G  SSIcov(calc_unc=True) through SingleSetup (hard criteria loosened so nothing is masked): result.Fn_poles_cov identical to
     SSI_fast + SSI_poles on build_hank's own H, T, and judged against the finite-difference oracle; includes the small edge of
     the quantifier (l in {1,2}, br in {2,3}) with 2..30 factor columns, below / at / above the number of Hankel entries.
"""
import glob
import json
import math
import os
from fractions import Fraction

import numpy as np
import scipy.linalg

from common import VERIF, clist, parse_mat, parse_q, qc, qc_c, qc_mat, qc_row
from pyoma2.functions import ssi

HEADER = "From PyOMA.Base Require Import Cplx.\nFrom PyOMA.Model Require Import M_unc."
RTOL = 1e-3          # the property's tolerance: reported variance vs finite differences
AGREE = 1e-4         # the step sizes must agree this well (tighter than the property's 1e-3: the finite-difference noise
                     # must stay well below the tolerance it is used to judge, otherwise a rounding fluke could raise an alarm)
STEPS = (2e-6, 6.3e-7, 2e-7)  # relative size of the perturbation  eps*|D|/|H|  (coarse -> fine)
SV_GAP = 1e-3
EIG_SEP = 0.05


# ----------------------------------------------------------------------------------------------------------------
# helpers
# ----------------------------------------------------------------------------------------------------------------
def dyad(rng, shape, bits=5, frac=3):
    return rng.integers(-(2**bits), 2**bits + 1, size=shape) / float(2**frac)


def unvec_col(t, shape):
    return np.asarray(t).reshape(shape, order="F")


def identify(H, br, ordmax, dt):
    Obs, A, C, _, _, _, _ = ssi.SSI_fast(H, br, ordmax)
    Fn, _, _, Lam, _, _, _ = ssi.SSI_poles(Obs, A, C, ordmax, dt)
    return Fn, Lam


def identify_unc(H, T, br, ordmax, dt, positional=False):
    if positional:  # every argument by position, in the order of the documented signatures (see part C)
        Obs, A, C, Q1, Q2, Q3, Q4 = ssi.SSI_fast(H, br, ordmax, 1, True, T, T.shape[1])
        Fn, Xi, Phi, Lam, Fc, Xc, Pc = ssi.SSI_poles(Obs, A, C, ordmax, dt, 1, True, Q1, Q2, Q3, Q4)
    else:
        Obs, A, C, Q1, Q2, Q3, Q4 = ssi.SSI_fast(H, br, ordmax, calc_unc=True, T=T, nb=T.shape[1])
        Fn, Xi, Phi, Lam, Fc, Xc, Pc = ssi.SSI_poles(Obs, A, C, ordmax, dt, calc_unc=True, Q1=Q1, Q2=Q2, Q3=Q3, Q4=Q4)
    return dict(Obs=Obs, A=A, C=C, Q=(Q1, Q2, Q3, Q4), Fn=Fn, Lam=Lam, Fn_cov=Fc)


# ----------------------------------------------------------------------------------------------------------------
# part C helpers: the same call with every argument given BY POSITION.  The parameter orders are those of the documented
# signatures, written out literally at each call site below (never read from the code under test):
#   build_hank(Y, Yref, br, method, calc_unc, nb)
#   SSI_fast(H, br, ordmax, step, calc_unc, T, nb)
#   SSI_poles(Obs, AA, CC, ordmax, dt, step, calc_unc, Q1, Q2, Q3, Q4)
#   SSI_mpe(freq_ref, Fn_pol, Xi_pol, Phi_pol, order, Lab, rtol, Fn_cov, Xi_cov, Phi_cov)
#   SSIdat.mpe / SSIcov.mpe(sel_freq, order, rtol);  SingleSetup(data, fs);  SingleSetup.mpe(name, sel_freq, order, rtol)
# (step stays 1: other steps are outside this property's domain; every other optional parameter gets a value that is not its default)
# ----------------------------------------------------------------------------------------------------------------
def same_out(a, b, rtol=1e-12):
    """Two results of the same call agree: same structure, same blank cells, values within rtol of the largest entry."""
    if a is None or b is None:
        return a is None and b is None
    if isinstance(a, (list, tuple)) or isinstance(b, (list, tuple)):
        return (isinstance(a, (list, tuple)) and isinstance(b, (list, tuple)) and len(a) == len(b)
                and all(same_out(x, y, rtol) for x, y in zip(a, b)))
    if isinstance(a, str) or isinstance(b, str):
        return isinstance(a, str) and isinstance(b, str) and a == b
    a, b = np.asarray(a), np.asarray(b)
    if a.shape != b.shape:
        return False
    if a.dtype.kind not in "fc" and b.dtype.kind not in "fc":
        return bool(np.array_equal(a, b))
    fa, fb = np.isfinite(a), np.isfinite(b)
    if not np.array_equal(fa, fb):
        return False
    if not fa.any():
        return True
    return bool(np.all(np.abs(a[fa] - b[fa]) <= rtol * np.abs(a[fa]).max()))


def both_forms(ctx, case, entry, pos_call, kw_call):
    """Runs one call in the form used everywhere else in this harness (optional parameters by keyword) and fully positionally.
    Returns (status, result of the positional call or None); status 'ok' / 'differs' / 'both-raise'."""
    ctx.hist("positional calls", entry)
    res = []
    for call in (kw_call, pos_call):
        try:
            res.append((call(), None))
        except Exception as e:
            res.append((None, e))
    (kw, kw_err), (pos, pos_err) = res
    if kw_err is not None and pos_err is not None and type(kw_err) is type(pos_err):
        return "both-raise", None
    if kw_err is not None or pos_err is not None:
        def d(e):
            return "a result" if e is None else "%s: %s" % (type(e).__name__, str(e)[:100])
        ctx.fail("oracle", "%s called with every argument by position (documented parameter order) gives %s, the same values by keyword give %s"
                 % (entry, d(pos_err), d(kw_err)), dict(case, positional_entry=entry), key="C17:%s:positional-call" % entry)
        return "differs", pos
    if not same_out(pos, kw):
        ctx.fail("oracle", "%s called with every argument by position (documented parameter order) returns something else than the same "
                 "values given by keyword" % entry, dict(case, positional_entry=entry), key="C17:%s:positional-call" % entry)
        return "differs", pos
    return "ok", pos


def guards(H, A, ordmax):
    """The property's quantifier: simple singular values / eigenvalues.  Returns (ok, min gap, min separation)."""
    s = np.linalg.svd(H, compute_uv=False)
    s = np.concatenate([s, [0.0]])
    gaps = [(s[i] - s[i + 1]) / s[i] if s[i] > 0 else 0.0 for i in range(min(ordmax, len(s) - 1))]
    gap = min(gaps) if gaps else 0.0
    sep = np.inf
    for n in range(2, ordmax + 1):
        w = scipy.linalg.eigvals(A[n])
        d = np.abs(w[:, None] - w[None, :]) + np.eye(n) * 1e9
        sep = min(sep, d.min())
        if np.abs(w).min() < 1e-6 or np.abs(np.abs(np.log(w.astype(complex)))).min() < 1e-6:
            sep = 0.0
    return (gap >= SV_GAP and sep >= EIG_SEP), gap, sep


def fd_variances(H, T, br, ordmax, dt, Lam0, h):
    """sum_k ( central finite difference of every frequency along unvec(T[:,k]) )^2, perturbation of relative size h."""
    tot = np.zeros((ordmax, ordmax + 1))
    nH = np.linalg.norm(H)
    for k in range(T.shape[1]):
        D = unvec_col(T[:, k], H.shape)
        nD = np.linalg.norm(D)
        if nD == 0:
            continue
        eps = h * nH / nD
        Fp, Lp = identify(H + eps * D, br, ordmax, dt)
        Fm, Lm = identify(H - eps * D, br, ordmax, dt)
        for n in range(2, ordmax + 1):
            for j in range(n):
                jp = int(np.argmin(np.abs(Lp[:n, n] - Lam0[j, n])))
                jm = int(np.argmin(np.abs(Lm[:n, n] - Lam0[j, n])))
                tot[j, n] += ((Fp[jp, n] - Fm[jm, n]) / (2 * eps)) ** 2
    return tot


def check_propagation(ctx, case, H, T, br, ordmax, dt, src, reported=None, positional=False):
    """Part P on one input.  Returns the implementation's outputs (for part M) or None when the case is outside the guards.
    With `reported` (a variance table obtained elsewhere, e.g. result.Fn_poles_cov of the class) that table is judged against
    the finite differences instead of the one SSI_poles returns here.  With `positional` the judged table comes from SSI_fast and
    SSI_poles called with every argument by position."""
    H = np.asarray(H, float)
    T = np.asarray(T, float).reshape(H.size, -1)
    try:
        out = identify_unc(H, T, br, ordmax, dt, positional)
    except Exception as e:  # the property promises a variance on guarded inputs
        ok, gap, sep = guards(H, ssi.SSI_fast(H, br, ordmax)[1], ordmax)
        if ok:
            ctx.fail("oracle", "uncertainty propagation raised %s on a guarded input" % type(e).__name__, case, key="C17:prop:raises")
        return None
    ok, gap, sep = guards(H, out["A"], ordmax)
    if not ok:
        ctx.hist("outside_guards", src)
        return None
    ctx.hist("ordmax", ordmax)
    ctx.hist("factor_columns", T.shape[1])
    ctx.hist("shape(rows,cols,br)", (H.shape[0], H.shape[1], br))
    ctx.hist("min_sv_gap_decade", int(math.floor(math.log10(max(gap, 1e-12)))))
    Fc = out["Fn_cov"] if reported is None else reported
    fkey = "C17:prop:fn_cov" if reported is None else "C17:glue:fn_cov"
    if Fc is None or np.shape(Fc) != (ordmax, ordmax + 1):
        ctx.fail("oracle", "Fn_cov missing or of the wrong shape", case, key="C17:prop:shape")
        return None
    fds = [fd_variances(H, T, br, ordmax, dt, out["Lam"], h) for h in STEPS]
    judged = 0
    for n in range(2, ordmax + 1):
        for j in range(n):
            v = [f[j, n] for f in fds]
            vc = Fc[j, n]
            if reported is not None and not np.isfinite(vc):
                continue  # a cell the class blanked
            # two step sizes must agree.  Of the two adjacent pairs the one that agrees better is used (truncation error falls,
            # rounding noise grows with a finer step); the finer value of that pair is the reference.
            best = None
            for p in range(len(STEPS) - 1):
                x, y = v[p], v[p + 1]
                if np.isfinite(x) and np.isfinite(y) and y > 1e-280:
                    d = abs(x - y) / y
                    if best is None or d < best[0]:
                        best = (d, x, y)
            if best is None or best[0] > AGREE:
                ctx.not_judged += 1
                continue
            _, va, vb = best
            judged += 1
            if np.isfinite(vc) and abs(vc - vb) / vb > ctx.extra.get("max_rel_dev_judged", -1.0):
                ctx.extra["max_rel_dev_judged"] = float(abs(vc - vb) / vb)
                ctx.extra["max_rel_dev_where"] = dict(order=n, pole=j, reported=float(vc), fd=[float(x) for x in v], sv_gap=float(gap),
                                                      eig_sep=float(sep), shape=list(H.shape), columns=int(T.shape[1]), src=src)
            if not np.isfinite(vc) or abs(vc - vb) > RTOL * vb:
                ctx.fail("oracle", "Fn_cov differs from the sum of squared finite-difference directional derivatives "
                         "(order %d, pole %d: reported %.6g, finite differences %.6g / %.6g)" % (n, j, vc, va, vb),
                         dict(case, order=n, pole=j, reported=float(vc), fd=[float(va), float(vb)]),
                         key=fkey + ("-single" if T.shape[1] == 1 else ""))
                ctx.count(case, nontrivial=True)
                return out
    ctx.count(case, nontrivial=judged > 0)
    return out


# ----------------------------------------------------------------------------------------------------------------
# part F: the covariance factor
# ----------------------------------------------------------------------------------------------------------------
def loops_estimates(Y, Yr, br, nb):
    """Full estimate and block-wise estimates from the definition (nested loops over lags and samples)."""
    l, Ndat = Y.shape
    r = Yr.shape[0]
    q = br + 1
    N = Ndat - br - q
    Nb = N // nb
    ncol = N - 1

    def est(lo, hi, w):
        M = np.zeros(((br + 1) * l, (br + 1) * r))
        for i in range(br + 1):
            for j in range(br + 1):
                for a in range(l):
                    for b in range(r):
                        M[i * l + a, j * r + b] = w * sum(Y[a, q + 1 + i + t] * Yr[b, q - j + t] for t in range(lo, hi))
        return M
    full = est(0, ncol, 1.0 / N)
    blocks = [est(min(k * Nb, ncol), min((k + 1) * Nb, ncol), 1.0 / Nb) for k in range(nb)]
    return full, blocks, N, Nb


def canon_cols(M):
    """Columns up to order and sign (the property does not pin either)."""
    cols = []
    for k in range(M.shape[1]):
        c = M[:, k]
        nz = np.flatnonzero(np.abs(c) > 1e-9 * max(1.0, np.abs(M).max()))
        if len(nz) and c[nz[0]] < 0:
            c = -c
        cols.append(c)
    cols.sort(key=lambda c: tuple(np.round(c, 6)))
    return np.array(cols).T if cols else M


def check_factor(ctx, case, Y, Yr, br, nb, exprs, meta, positional=False):
    """exprs None: oracle only (no model evaluation).  positional: the judged H, T come from build_hank called with every argument
    by position, and must be what the keyword form returns."""
    Y = np.asarray(Y, float)
    Yr = np.asarray(Yr, float)
    l, Ndat = Y.shape
    r = Yr.shape[0]
    ctx.count(case, nontrivial=bool(np.any(Y)))
    if positional:
        st, out = both_forms(ctx, case, "build_hank", lambda: ssi.build_hank(Y, Yr, br, "cov_mm", True, nb),
                             lambda: ssi.build_hank(Y, Yr, br, "cov_mm", calc_unc=True, nb=nb))
        if st == "both-raise":
            ctx.fail("oracle", "build_hank(calc_unc=True) raised", case, key="C17:factor:raises")
        if out is None or not isinstance(out, tuple) or len(out) != 2:
            return
        H, T = out
    else:
        try:
            H, T = ssi.build_hank(Y, Yr, br, "cov_mm", calc_unc=True, nb=nb)
        except Exception as e:
            ctx.fail("oracle", "build_hank(calc_unc=True) raised %s" % type(e).__name__, case, key="C17:factor:raises")
            return
    full, blocks, N, Nb = loops_estimates(Y, Yr, br, nb)
    rows, cols = full.shape
    if T is None or np.shape(T) != (rows * cols, nb):
        ctx.fail("oracle", "covariance factor missing or of shape %s, expected %s" % (np.shape(T), (rows * cols, nb)), case, key="C17:factor:shape")
        return
    scale = max(np.abs(full).max(), max(np.abs(b).max() for b in blocks), 1e-300)
    if not np.allclose(H, full, rtol=0, atol=1e-9 * scale):
        ctx.fail("oracle", "full Hankel estimate differs from the definition", case, key="C17:factor:H")
    dev = np.array([(b - full).reshape(-1, order="F") for b in blocks]).T  # column-stacked deviations
    gram = dev @ dev.T / (nb * (nb - 1))
    G = T @ T.T
    if not np.allclose(G, gram, rtol=0, atol=1e-9 * max(np.abs(gram).max(), scale**2 * 1e-6)):
        devr = np.array([(b - full).reshape(-1) for b in blocks]).T
        what = "Gram matrix of the factor is not the sample covariance of the mean of the block-wise estimates (column-stacked)"
        if np.allclose(G, devr @ devr.T / (nb * (nb - 1)), rtol=0, atol=1e-9 * np.abs(gram).max()) and rows * cols > 1:
            what += " - it is the row-major one"
        ctx.fail("oracle", what, case, key="C17:factor:gram")
    if exprs is None:
        return
    exprs.append("showMat (unc_factor_l QcOps %s %s %d %d %d %d %d %s %s)"
                 % (qc(Fraction(1, N)), qc(Fraction(1, Nb)), l, r, br, Ndat, nb, qc_mat(Y), qc_mat(Yr)))
    meta.append((case, T * math.sqrt(nb * (nb - 1)), scale))


def compare_factor(ctx, res, meta):
    for (case, Tn, scale), s in zip(meta, res):
        M = np.array([[float(x) for x in row] for row in parse_mat(s)])
        if M.shape != Tn.shape or not np.allclose(canon_cols(M), canon_cols(Tn), rtol=0, atol=1e-9 * scale):
            ctx.fail("correspondence", "build_hank covariance factor differs from the model unc_factor_l "
                     "(column-stacked deviations of block estimates; up to column order and sign)", case, key="C17:factor:corr")


# ----------------------------------------------------------------------------------------------------------------
# part M: the model chain on witnesses
# ----------------------------------------------------------------------------------------------------------------
def du_independent(U, s, Vt, D, i):
    """Sensitivity of the i-th left singular vector (normalisation u^T du = 0) from classical perturbation theory -
    written from the SVD equations, not from the code's K_i / B_i formulation."""
    m, n = D.shape
    V = Vt.T
    du = np.zeros(m)
    for j in range(m):
        if j == i:
            continue
        sj = s[j] if j < len(s) else 0.0
        num = s[i] * (U[:, j] @ D @ V[:, i])
        if j < n and j < len(s):
            num += sj * (U[:, i] @ D @ V[:, j])
        du += num / (s[i] ** 2 - sj**2) * U[:, j]
    return du


def chain_exprs(ctx, case, H, T, br, ordmax, dt, out, exprs, meta):
    rows, cols = H.shape
    l = rows // (br + 1)
    U, s, Vt = np.linalg.svd(H)
    Obs = out["Obs"]
    # witness consistency: Obs as returned must be U sqrt(S) of the same LAPACK call, else skip the realisation layer
    rs = np.sqrt(s[:ordmax])
    same_basis = Obs.shape == (rows, ordmax) and np.allclose(Obs, U[:, :ordmax] * rs, rtol=0, atol=1e-12 * max(1.0, np.abs(Obs).max()))
    Q1, Q2, Q3, Q4 = out["Q"]
    nbc = T.shape[1]
    if same_basis:
        for k in range(nbc):
            D = unvec_col(T[:, k], H.shape)
            dU = np.array([du_independent(U, s, Vt, D, i) for i in range(ordmax)]).T
            exprs.append("showMat (q_layer_l QcOps %d %d %d %d %s %s %s %s %s %s)"
                         % (l, br, cols, ordmax, qc_row(rs), qc_mat(Obs), qc_mat(U[:, :ordmax]), qc_mat(Vt[:ordmax, :].T), qc_mat(dU), qc_mat(D)))
            meta.append(("Q", case, k, ([Q1[:, k], Q2[:, k], Q3[:, k]], Obs, l)))
            if k == 0:  # the model of the code's eqs 28-34 (du_code, proved to solve the linearised SVD equations) on the same witnesses
                for i in (sorted({0, ordmax - 1}) if ctx.quick() else range(ordmax)):
                    isg = 1.0 / s[i]
                    v = Vt[i, :]
                    Karg = np.eye(cols) - (H.T @ H) * isg * isg
                    Karg[cols - 1, :] += 2 * v
                    if np.linalg.cond(Karg) > 1e8:
                        continue
                    exprs.append("showRow (du_code_l QcOps %d %d %s %s %s %s %s %s)"
                                 % (rows, cols, qc(isg), qc_mat(H), qc_mat(D), qc_row(U[:, i]), qc_row(v), qc_mat(np.linalg.inv(Karg))))
                    meta.append(("U", case, i, dU[:, i]))
    else:
        ctx.note("Obs returned by SSI_fast is not U*sqrt(S) of numpy.linalg.svd(H): realisation-layer witnesses skipped for such cases")
    # pole layer: witnesses from scipy.linalg.eig on the returned A[n], Q1..Q3 as returned
    pl = rows - l
    for n in (sorted({2, ordmax}) if ctx.quick() else range(2, ordmax + 1)):
        A = out["A"][n]
        w, vl, vr = scipy.linalg.eig(A, left=True)
        Op = Obs[:pl, :n]
        OO = np.linalg.inv(Op.T @ Op)
        lam_c = np.log(w) / dt
        for j in range(n):
            jj = int(np.argmin(np.abs(out["Lam"][:n, n] - lam_c[j])))
            q1c = clist([qc_row(Q1[:, k]) for k in range(nbc)])
            q2c = clist([qc_row(Q2[:, k]) for k in range(nbc)])
            q3c = clist([qc_row(Q3[:, k]) for k in range(nbc)])
            exprs.append("(let p := fn_var_parts_l QcOps %d %d %s %s %s %s %s %s %s %s %s %s in showQc (fst p) ++ \"|\" ++ showQc (snd p))"
                         % (ordmax, n, qc(dt), qc(abs(lam_c[j])), qc_c(lam_c[j]), qc_c(w[j]), q1c, q2c, q3c,
                            qc_mat(OO), clist([qc_c(z) for z in vl[:, j]]), clist([qc_c(z) for z in vr[:, j]])))
            meta.append(("F", case, (n, jj), out["Fn_cov"][jj, n]))


def gauge_basis(Obs, l):
    """Changes of the state basis that keep every truncated model (upper-triangular G): dObs -> dObs + Obs G.  They move
    Q1..Q3 but cannot move any eigenvalue sensitivity at any order (theorem C17_gauge_invariant), so the property does
    not pin them.  Returns the columns  [vec(Op^T Op G); vec(Om^T Op G); vec(Op^T Om G)]  for the elementary G."""
    n = Obs.shape[1]
    Op, Om = Obs[:-l, :], Obs[l:, :]
    cols = []
    for a in range(n):
        for b in range(a, n):
            G = np.zeros((n, n))
            G[a, b] = 1.0
            cols.append(np.concatenate([(Op.T @ Op @ G).reshape(-1, order="F"), (Om.T @ Op @ G).reshape(-1, order="F"),
                                        (Op.T @ Om @ G).reshape(-1, order="F")]))
    return np.array(cols).T


def compare_chain(ctx, res, meta):
    for (kind, case, where, impl), s in zip(meta, res):
        if kind == "Q":
            qs, Obs, l = impl
            got = [np.array([float(x) for x in row]) for row in parse_mat(s)][:3]  # Q4 does not enter any frequency
            if [g.shape for g in got] != [np.shape(q) for q in qs]:
                ctx.fail("correspondence", "Q1..Q3 returned by SSI_fast have the wrong shape", case, key="C17:chain:Qshape")
                continue
            g, q = np.concatenate(got), np.concatenate(qs)
            sc = max(np.abs(g).max(), 1e-300)
            r = q - g
            if np.abs(r).max() <= 1e-6 * sc:
                continue
            B = gauge_basis(Obs, l)
            coef = np.linalg.lstsq(B, r, rcond=None)[0]
            if np.abs(r - B @ coef).max() <= 1e-6 * sc:
                ctx.note("Q1..Q3 returned by SSI_fast differ from the model by a change of state basis (dObs + Obs G, G upper "
                         "triangular), which leaves every eigenvalue sensitivity unchanged: accepted")
                continue
            ctx.fail("correspondence", "Q1..Q3 returned by SSI_fast differ from the model (first-order sensitivity of the observability "
                     "matrix, column-stacked; compared modulo changes of the state basis) for factor column %d" % where, case, key="C17:chain:Q")
        elif kind == "U":
            got = np.array([float(x) for x in parse_mat(s)[0]])
            if got.shape != impl.shape or np.abs(got - impl).max() > 1e-6 * max(np.abs(impl).max(), 1e-300):
                ctx.fail("correspondence", "model du_code (the code's eqs 28-34 for the singular-vector sensitivity) differs from classical "
                         "perturbation theory for singular vector %d" % where, case, key="C17:chain:du_code")
        else:
            S, D = [parse_q(t) for t in s.split("|")]
            v = float(Fraction(1 / (2 * np.pi)) ** 2 * S / (D * D)) if D != 0 else float("nan")
            if not np.isfinite(impl) or abs(v - impl) > 1e-6 * max(abs(v), 1e-300):
                ctx.fail("correspondence", "Fn_cov returned by SSI_poles differs from the model chain (order %d, pole %d: %.9g vs %.9g)"
                         % (where[0], where[1], impl, v), case, key="C17:chain:fn_cov")


# ----------------------------------------------------------------------------------------------------------------
# generators
# ----------------------------------------------------------------------------------------------------------------
def gen_system(rng, n):
    A = np.zeros((n, n))
    k = 0
    nm = n // 2
    fr = np.sort(rng.uniform(0.04, 0.46, size=nm + 1))
    for m in range(nm):
        rho = rng.uniform(0.88, 0.995)
        th = 2 * np.pi * fr[m]
        A[k:k + 2, k:k + 2] = rho * np.array([[np.cos(th), np.sin(th)], [-np.sin(th), np.cos(th)]])
        k += 2
    if k < n:
        A[k, k] = rng.uniform(0.4, 0.9) * (1 if rng.random() < 0.7 else -1)
    return A


def gen_lowrank(rng, l, r, br, n, noise):
    A = gen_system(rng, n)
    Cm = rng.standard_normal((l, n))
    G = rng.standard_normal((n, r))
    Ob = np.vstack([Cm @ np.linalg.matrix_power(A, i) for i in range(br + 1)])
    Co = np.hstack([np.linalg.matrix_power(A, j) @ G for j in range(br + 1)])
    H = Ob @ Co
    return H + noise * np.abs(H).max() * rng.standard_normal(H.shape)


def mode_block(w, xi):
    """2x2 real block of the discrete pole exp(lam_c dt), lam_c dt = -xi w + i w sqrt(1 - xi^2)  (w = 2 pi f dt)."""
    z = np.exp(complex(-xi * w, w * math.sqrt(1 - xi * xi)))
    return np.array([[z.real, z.imag], [-z.imag, z.real]])


def gen_special(rng, which, extra):
    """EXACT low-rank Hankel product of a system with two distinct modes that share the natural frequency (different damping)
    or share the damping ratio (different frequency); optionally a third, unrelated mode.  Returns (A, n)."""
    w = rng.uniform(0.3, 2.2)
    if which == "equal_fn":
        modes = [(w, rng.uniform(0.003, 0.03)), (w, rng.uniform(0.08, 0.3))]
    else:
        xi = rng.uniform(0.005, 0.12)
        modes = [(w, xi), (min(w * rng.uniform(1.15, 2.0), 2.9), xi)]
    if rng.random() < 0.5:
        modes = modes[::-1]
    if extra:
        modes.insert(int(rng.integers(0, 3)), (rng.uniform(0.2, 2.9), rng.uniform(0.01, 0.2)))
    n = 2 * len(modes)
    A = np.zeros((n, n))
    for k, (wk, xk) in enumerate(modes):
        A[2 * k:2 * k + 2, 2 * k:2 * k + 2] = mode_block(wk, xk)
    return A, n


def special_cases(ctx, count):
    """Part P on inputs where distinct poles coincide in ONE modal quantity (frequency or damping) but are simple and well
    separated as eigenvalues - legal under the property's guards."""
    rng = ctx.np_rng
    made = tries = 0
    while made < count and tries < 60 * count:
        tries += 1
        which = "equal_fn" if made % 3 != 2 else "equal_xi"
        l = int(rng.integers(1, 4))
        refs = sorted(rng.choice(l, size=int(rng.integers(1, l + 1)), replace=False).tolist())
        r = len(refs)
        br = int(rng.integers(2, 6))
        cap = min(br * l, (br + 1) * r)
        if cap < 4:
            continue
        A, n = gen_special(rng, which, extra=(cap >= 6 and rng.random() < 0.4))
        Cm = rng.standard_normal((l, n))
        G = rng.standard_normal((n, r))
        Ob = np.vstack([Cm @ np.linalg.matrix_power(A, i) for i in range(br + 1)])
        Co = np.hstack([np.linalg.matrix_power(A, j) @ G for j in range(br + 1)])
        H = Ob @ Co
        sv = np.linalg.svd(H, compute_uv=False)
        if sv[n - 1] < 1e-4 * sv[0] or min((sv[i] - sv[i + 1]) / sv[i] for i in range(n - 1)) < 10 * SV_GAP:
            continue
        w = np.linalg.eigvals(A)
        if (np.abs(w[:, None] - w[None, :]) + np.eye(n) * 9).min() < 1.5 * EIG_SEP:
            continue
        nbc = int(rng.integers(1, 7))
        T = rng.standard_normal((H.size, nbc)) * 10.0 ** rng.uniform(-4, -2) * np.abs(H).max()
        made += 1
        yield dict(kind="prop", src=which, br=br, ordmax=n, dt=float(rng.choice([0.01, 0.02, 0.05])), H=H.tolist(), T=T.tolist())


def gen_data(rng, l, n, Ndat):
    A = gen_system(rng, n)
    Cm = rng.standard_normal((l, n))
    x = np.zeros(n)
    Y = np.zeros((l, Ndat))
    Bn = rng.standard_normal((n, 2))
    for t in range(Ndat):
        x = A @ x + Bn @ rng.standard_normal(2)
        Y[:, t] = Cm @ x
    Y += 0.05 * np.abs(Y).std() * rng.standard_normal(Y.shape)
    return np.round(Y / np.abs(Y).max() * 64) / 8.0  # short dyadics


def propagation_cases(ctx, count, small):
    rng = ctx.np_rng
    made = 0
    tries = 0
    while made < count and tries < 40 * count:
        tries += 1
        l = int(rng.integers(1, 3 if small else 4))
        refs = sorted(rng.choice(l, size=int(rng.integers(1, l + 1)), replace=False).tolist())
        if rng.random() < 0.3:
            refs = refs[::-1]
        r = len(refs)
        br = int(rng.integers(2, 4 if small else 6))
        omax_cap = min(br * l, (br + 1) * r, 4 if small else 8)
        if omax_cap < 2:
            continue
        ordmax = int(rng.integers(2, omax_cap + 1))
        dt = float(rng.choice([0.01, 0.02, 0.005, 0.1]))
        u = rng.random()
        kind = "data" if u < 0.3 else ("degenerate" if u < 0.4 else "lowrank")
        if kind != "data":
            H = gen_lowrank(rng, l, r, br, ordmax, float(rng.choice([1e-3, 1e-2, 3e-2])))
            if kind == "degenerate":  # outside the quantifier: a repeated singular value (never judged, only counted)
                Uh, sh, Vh = np.linalg.svd(H, full_matrices=False)
                sh[1] = sh[0] * (1 - 1e-6)
                H = (Uh * sh) @ Vh
            nbc = int(rng.integers(1, 4 if small else 21)) if rng.random() < 0.8 else 1
            T = rng.standard_normal((H.size, nbc)) * 10.0 ** rng.uniform(-4, -1) * np.abs(H).max()
            if rng.random() < 0.25:  # structured single directions: one entry, one row, one column of H
                T[:] = 0
                for k in range(nbc):
                    D = np.zeros(H.shape)
                    w = rng.integers(0, 3)
                    if w == 0:
                        D[rng.integers(H.shape[0]), rng.integers(H.shape[1])] = 1
                    elif w == 1:
                        D[rng.integers(H.shape[0]), :] = rng.standard_normal(H.shape[1])
                    else:
                        D[:, rng.integers(H.shape[1])] = rng.standard_normal(H.shape[0])
                    T[:, k] = 1e-2 * np.abs(H).max() * D.reshape(-1, order="F")
            case = dict(kind="prop", src=kind, br=br, ordmax=ordmax, dt=dt, H=H.tolist(), T=T.tolist())
        else:
            Ndat = int(rng.integers(300, 900))
            nb = int(rng.integers(2, 4 if small else 21))
            Y = gen_data(rng, l, max(ordmax, 2), Ndat)
            Yr = Y[refs, :]
            try:
                H, T = ssi.build_hank(Y, Yr, br, "cov_mm", calc_unc=True, nb=nb)
            except Exception as e:
                ctx.fail("oracle", "build_hank(calc_unc=True) raised %s" % type(e).__name__,
                         dict(kind="factor", br=br, nb=nb, Y=Y.tolist(), Yref=Yr.tolist(), refs=refs), key="C17:factor:raises")
                continue
            if T is None or not np.all(np.isfinite(T)):
                continue
            case = dict(kind="prop", src=kind, br=br, ordmax=ordmax, dt=dt, H=np.asarray(H).tolist(), T=np.asarray(T).tolist(),
                        note="H, T = build_hank(Y, Y[%s], %d, cov_mm, calc_unc=True, nb=%d) of simulated data" % (refs, br, nb))
        made += 1
        yield case


def factor_cases(ctx, count):
    rng = ctx.np_rng
    k = 0
    while k < count:
        l = int(rng.integers(1, 3))
        refs = sorted(rng.choice(l, size=int(rng.integers(1, l + 1)), replace=False).tolist())
        if k % 5 == 4:
            refs = refs[::-1]
        br = int(rng.integers(1, 4))
        nb = int(rng.integers(2, 6))
        mode = k % 4
        N = nb * int(rng.integers(1, 5)) + (0 if mode == 0 else int(rng.integers(0, nb)))  # mode 0: nb divides N (cut last block)
        if N // nb < 1:
            N = nb
        Ndat = N + 2 * br + 1
        Y = dyad(rng, (l, Ndat))
        if k % 11 == 10:
            Y[:] = 1.0  # constant record: all block estimates coincide up to the cut block
        indep = (k % 3 == 2)
        Yr = dyad(rng, (len(refs), Ndat)) if indep else Y[refs, :]
        k += 1
        yield dict(kind="factor", br=br, nb=nb, Y=Y.tolist(), Yref=Yr.tolist(), refs=None if indep else refs)


def fn_cov_equal(a, b):
    """Two variance tables (orders >= 2) agree: same NaN pattern, relative 1e-5."""
    a, b = np.asarray(a, float)[:, 2:], np.asarray(b, float)[:, 2:]
    if a.shape != b.shape or not np.array_equal(np.isfinite(a), np.isfinite(b)):
        return False
    m = np.isfinite(a)
    return bool(np.all(np.abs(a[m] - b[m]) <= 1e-5 * np.abs(a[m]) + 1e-12 * (np.abs(a[m]).max() if m.any() else 0.0)))


def check_pipeline(ctx, case, fexprs, fmeta, do_prop):
    """data -> build_hank(calc_unc) -> SSI_fast -> SSI_poles, optionally with the record in other units (gain 10^gain_k):
    H and the factor scale by gain^2, frequencies and their variances are unit-free."""
    Y = np.array(case["Y"], float)
    Yr = Y[case["refs"], :]
    br, nb = case["br"], case["nb"]
    try:
        H, T = ssi.build_hank(Y, Yr, br, "cov_mm", calc_unc=True, nb=nb)
    except Exception as e:
        ctx.fail("oracle", "build_hank(calc_unc=True) raised %s" % type(e).__name__, case, key="C17:factor:raises")
        return
    check_factor(ctx, dict(case, kind="factor"), Y, Yr, br, nb, fexprs, fmeta)
    H, T = np.asarray(H), np.asarray(T)
    out0 = do_prop(dict(case, H=H.tolist(), T=T.tolist(), src="pipeline"), chain=False)
    k = case.get("gain_k", 0)
    if not k:
        return
    g = 10.0 ** k
    Hg, Tg = ssi.build_hank(g * Y, g * Yr, br, "cov_mm", calc_unc=True, nb=nb)
    Hg, Tg = np.asarray(Hg), np.asarray(Tg)
    if (not np.allclose(Hg, g * g * H, rtol=0, atol=1e-9 * g * g * max(np.abs(H).max(), 1e-300))
            or not np.allclose(Tg, g * g * T, rtol=0, atol=1e-9 * g * g * max(np.abs(T).max(), np.abs(H).max() * 1e-9, 1e-300))):
        ctx.fail("oracle", "record scaled by 10^%d: Hankel estimate / covariance factor do not scale by the gain squared "
                 "(the factor is made of deviations of block estimates: homogeneous of degree 2 in the data)" % k, case, key="C17:factor:gain")
    outg = do_prop(dict(case, H=Hg.tolist(), T=Tg.tolist(), src="pipeline*gain"), chain=False)
    if out0 is not None and outg is not None and not fn_cov_equal(out0["Fn_cov"], outg["Fn_cov"]):
        ctx.fail("oracle", "frequency variances change when the record is expressed in other units (gain 10^%d); frequencies are unit-free" % k,
                 case, key="C17:prop:units")


# ----------------------------------------------------------------------------------------------------------------
def run(ctx):
    ctx.extra["rule"] = ("factor cases: (l<=2, reference subset or independent reference rows, br<=3, nb<=5, N a multiple of nb or not) "
                         "dyadic data, non-trivial when the data are not all zero; propagation cases: Hankel matrix (low-rank + "
                         "full-rank part, or estimated from simulated data with its own factor), 1-3 channels, any reference subset, "
                         "br 2-5, ordmax 2-8, 1-20 factor columns, plus exact low-rank systems with two distinct modes of equal natural frequency / equal "
                         "damping ratio, plus scale families (H and T times 10^k, k in [-12,12]; records times 10^k through build_hank), "
                         "inside the property's guards (singular-value gaps >= 1e-3, "
                         "eigenvalue separation >= 0.05); non-trivial when at least one (order, pole) was judged (two finite-"
                         "difference step sizes agree to 1e-3); distinct by hash of the whole input")
    ctx.assumptions += [
        "oracle contracts used as Section hypotheses in C17 theorems: SVD equations H v = sigma u, u^T H = sigma v^T, unit norms; "
        "normal equations of the least-squares shift solution; right/left eigen-pairs of A (scipy.linalg.eig(left=True)); a left inverse of O_p^T O_p",
        "transcendental boundary: sqrt(nb(nb-1)), sqrt(sigma_i), log(lambda)/dt, |lambda_c| and 1/(2 pi) enter the executed model as exact "
        "rational images of NumPy values computed by the harness",
        "finite-difference oracle: central differences of SSI_fast+SSI_poles (calc_unc=False) at relative steps %g, %g, %g; the better-agreeing "
        "adjacent pair is used, its finer value is the reference; (order, pole) pairs where that pair disagrees by more than 1e-4 are not judged" % STEPS,
        "first order is formalised with dual numbers (defining equations assumed to hold to first order for the perturbed quantities); "
        "the EXISTENCE of differentiable singular-triple / eigen-pair branches (analytic perturbation theory) and the link between dual "
        "numbers and real derivatives of the identification map are not theorems: supported by the finite-difference oracle",
        "class level: SSIcov always blanks poles with non-positive damping and every single-channel shape; to see the whole variance table "
        "the harness also runs the class with pyoma2.functions.gen.applymask replaced by a pass-through inside the harness process",
        "Q1..Q3 are compared modulo changes of the state basis (theorem C17_gauge_invariant); Q4 and Xi_cov / Phi_cov are not constrained "
        "by the property and not compared",
    ]
    fexprs, fmeta = [], []
    fexprs2, fmeta2 = [], []
    cexprs, cmeta = [], []
    import time
    tm = ctx.extra.setdefault("phase_wall_s", {})
    t0 = [time.time()]

    def lap(name):
        tm[name] = round(time.time() - t0[0], 2)
        t0[0] = time.time()

    def do_prop(case, chain):
        H = np.array(case["H"], float)
        T = np.array(case["T"], float).reshape(H.size, -1)
        out = check_propagation(ctx, case, H, T, case["br"], case["ordmax"], case["dt"], case.get("src", "corpus"))
        if out is not None and chain:
            chain_exprs(ctx, case, H, T, case["br"], case["ordmax"], case["dt"], out, cexprs, cmeta)
        return out

    def do_scale(case, out0, ks):
        """Scale family: the same Hankel matrix and factor in other units (H and T times 10^k).  The oracle must hold on every
        instance and the variances must not move (frequencies are unit-free)."""
        if out0 is None:
            return
        H0 = np.array(case["H"], float)
        T0 = np.array(case["T"], float)
        for k in ks:
            c = 10.0 ** int(k)
            ck = {kk: v for kk, v in case.items() if kk != "scale_ks"}
            ck.update(H=(c * H0).tolist(), T=(c * T0).tolist(), scaled_by="1e%d" % int(k), src=str(case.get("src", "corpus")) + "*10^k")
            ctx.hist("scale_k", int(k))
            outk = do_prop(ck, chain=False)
            if outk is None:
                ctx.fail("oracle", "the guarded input scaled by 10^%d is no longer handled like the original (guards are scale-free)" % k,
                         ck, key="C17:prop:scale-guards")
            elif not fn_cov_equal(out0["Fn_cov"], outk["Fn_cov"]):
                ctx.fail("oracle", "Fn_cov(cH, cT) != Fn_cov(H, T) for c = 10^%d: frequencies are unit-free, so are their variances" % k,
                         ck, key="C17:prop:scale")

    def scale_ks():
        r = ctx.np_rng
        return [int(r.integers(-12, -7)), int(r.integers(-7, 0)), int(r.integers(1, 13))]

    # ---- corpus first
    for path in sorted(glob.glob(os.path.join(VERIF, "corpus", "C17", "*.json"))):
        case = json.load(open(path))
        case["corpus"] = os.path.basename(path)
        if case["kind"] == "factor":
            check_factor(ctx, case, case["Y"], case["Yref"], case["br"], case["nb"], fexprs, fmeta)
        elif case["kind"] == "prop":
            out0 = do_prop(case, chain=len(case["H"]) * len(case["H"][0]) <= 64 and len(case["T"][0]) <= 3 and not case.get("no_chain"))
            do_scale(case, out0, case.get("scale_ks", []))
        elif case["kind"] == "pipeline":
            check_pipeline(ctx, case, fexprs, fmeta, do_prop)
        elif case["kind"] == "class":
            check_class(ctx, case)
        elif case["kind"] == "mpe":
            run_mpe_function(ctx, case)
        elif case["kind"] == "mpe-class":
            run_mpe_class(ctx, case)
        elif case["kind"] == "forms":
            run_forms(ctx, case)
        elif case["kind"] == "positional":
            run_positional(ctx, case)

    lap("corpus")
    # ---- part F
    for case in factor_cases(ctx, ctx.n(40, 400)):
        ctx.hist("factor(l,r,br,nb)", (len(case["Y"]), len(case["Yref"]), case["br"], case["nb"]))
        ctx.sample(dict(kind="factor", br=case["br"], nb=case["nb"], Y0=case["Y"][0][:8]))
        check_factor(ctx, case, case["Y"], case["Yref"], case["br"], case["nb"], fexprs, fmeta)
    lap("factor_impl")
    compare_factor(ctx, ctx.coq_eval(HEADER, fexprs, shard=8), fmeta)
    lap("factor_coq")

    # ---- part P (+ M on the small ones)
    for case in propagation_cases(ctx, ctx.n(16, 160), small=True):
        do_prop(case, chain=True)
    lap("prop_small")
    for i, case in enumerate(propagation_cases(ctx, ctx.n(160, 2500), small=False)):
        out0 = do_prop(case, chain=False)
        if i % 8 == 0:
            do_scale(case, out0, scale_ks())
    lap("prop_sweep")
    # distinct poles coinciding in one modal quantity; every one also in other units
    for i, case in enumerate(special_cases(ctx, ctx.n(24, 240))):
        out0 = do_prop(case, chain=False)
        do_scale(case, out0, scale_ks()[i % 3:i % 3 + 1])
    lap("prop_special")
    # records in other units through build_hank
    for i in range(ctx.n(6, 40)):
        rr = ctx.np_rng
        l = int(rr.integers(1, 4))
        refs = sorted(rr.choice(l, size=int(rr.integers(1, l + 1)), replace=False).tolist())
        br = int(rr.integers(2, 5))
        ordmax = int(min(4, br * l, (br + 1) * len(refs)))
        if ordmax < 2:
            continue
        kk = int(rr.choice([-6, -5, -4, -3, 3, 5]))
        check_pipeline(ctx, dict(kind="pipeline", br=br, nb=int(rr.integers(2, 13)), ordmax=ordmax, dt=float(rr.choice([0.01, 0.02])), refs=refs,
                                 gain_k=kk, Y=gen_data(rr, l, 4, int(rr.integers(300, 500))).tolist()), fexprs2, fmeta2, do_prop)
    compare_factor(ctx, ctx.coq_eval(HEADER, fexprs2, shard=2), fmeta2)
    lap("pipeline_units")
    compare_chain(ctx, ctx.coq_eval(HEADER, cexprs, shard=4), cmeta)
    lap("chain_coq")

    # ---- part G: class glue
    glue(ctx)
    lap("glue")
    # ---- part A: the uncertainty reaches the user aligned
    mpe_stream(ctx)
    lap("mpe_aligned")
    # ---- part I: input forms the property does not restrict
    forms_stream(ctx)
    lap("input_forms")
    # ---- part C: every entry point also with all arguments by position
    positional_stream(ctx)
    lap("positional_calls")


LOOSE_HC = dict(conj=False, xi_max=1e9, mpc_lim=-1.0, mpd_lim=1e9, cov_max=1e300)  # hard criteria that mask nothing


class masks_off:
    """Head-less observation aid (harness process only, nothing in /repo changes): the class ALWAYS applies its hard-criteria masks
    (non-positive damping, and every single-channel shape, are blanked whatever the limits), so the variance table it stores can be
    empty.  While this context is active gen.applymask passes its arrays through, so result.Fn_poles_cov is the unmasked table."""

    def __enter__(self):
        from pyoma2.functions import gen
        self.gen, self.orig = gen, getattr(gen, "applymask", None)
        if self.orig is not None:
            gen.applymask = lambda list_arr, mask, len_phi: list(list_arr)
        return self.orig is not None

    def __exit__(self, *a):
        if self.orig is not None:
            self.gen.applymask = self.orig
        return False


def run_class(Y, refs, br, ordmax, nb, fs):
    from pyoma2.algorithms import SSIcov
    from pyoma2.setup import SingleSetup
    ss = SingleSetup(Y.T.copy(), fs=fs)
    alg = SSIcov(name="u", method="cov_mm", br=br, ordmax=ordmax, ref_ind=refs, calc_unc=True, nb=nb, hc=dict(LOOSE_HC))
    ss.add_algorithms(alg)
    ss.run_by_name("u")
    return alg.result.Fn_poles_cov


def check_class(ctx, case):
    """SSIcov(calc_unc=True) run through SingleSetup.  result.Fn_poles_cov must be (i) identical to SSI_fast + SSI_poles called
    directly on build_hank's own H and T, and (ii) the finite-difference propagation of that T (oracle).  Run twice: with the
    class's masks as they are (cells it blanks are not compared) and with the masks switched off (whole table)."""
    Y = np.array(case["Y"], float)
    refs, br, ordmax, nb, fs = case["refs"], case["br"], case["ordmax"], case["nb"], case["fs"]
    l, r = Y.shape[0], len(refs)
    ctx.hist("class(l,r,br)", (l, r, br))
    ctx.hist("class nb vs (br+1)^2*l*r", "above" if nb > (br + 1) ** 2 * l * r else ("equal" if nb == (br + 1) ** 2 * l * r else "below"))
    ctx.count(case)
    H, T = ssi.build_hank(Y, Y[refs, :], br, "cov_mm", calc_unc=True, nb=nb)
    H, T = np.asarray(H), np.asarray(T)
    exp = identify_unc(H, T, br, ordmax, 1.0 / fs)["Fn_cov"]
    for unmasked in (False, True):
        try:
            if unmasked:
                with masks_off() as ok:
                    if not ok:
                        ctx.note("gen.applymask not found: the class's masks could not be switched off, unmasked comparison skipped")
                        return
                    got = run_class(Y, refs, br, ordmax, nb, fs)
            else:
                got = run_class(Y, refs, br, ordmax, nb, fs)
        except Exception as e:
            ctx.fail("oracle", "SSIcov(calc_unc=True).run raised %s" % type(e).__name__, dict(case, masks_off=unmasked), key="C17:glue:raises")
            return
        if got is None or np.shape(got) != np.shape(exp):
            ctx.fail("oracle", "SSIcov(calc_unc=True).result.Fn_poles_cov missing / wrong shape", case, key="C17:glue:shape")
            return
        got = np.asarray(got, float)
        m = np.isfinite(got)
        ctx.hist("class cells compared" + (" (masks off)" if unmasked else ""), int(m.sum()))
        if unmasked and m.sum() < np.isfinite(exp).sum():
            ctx.note("with gen.applymask passing through, result.Fn_poles_cov still has blank cells: only the others are compared")
        if np.any(m & ~np.isfinite(exp)) or not np.allclose(got[m], exp[m], rtol=1e-9, atol=0):
            ctx.fail("oracle", "SSIcov(calc_unc=True).result.Fn_poles_cov is not Fn_cov of build_hank -> SSI_fast -> SSI_poles on "
                     "(data, reference rows, dt = 1/fs)%s" % (" [masks off]" if unmasked else ""), dict(case, masks_off=unmasked), key="C17:glue:value")
        # (ii) the class's own table against finite differences of the identification along build_hank's factor columns
        if m.any():
            check_propagation(ctx, dict(case, masks_off=unmasked, note="H, T = build_hank(Y, Y[refs], br, cov_mm, calc_unc=True, nb); "
                                        "reported = result.Fn_poles_cov of the class"),
                              H, T, br, ordmax, 1.0 / fs, "class", reported=got)


# ----------------------------------------------------------------------------------------------------------------
# the uncertainty reaches the user aligned: SSI_mpe / class.mpe pair every extracted frequency with ITS variance
# ----------------------------------------------------------------------------------------------------------------
def _same(a, b):
    a, b = float(a), float(b)
    return (a != a and b != b) or a == b or abs(a - b) <= 1e-12 * max(abs(a), abs(b))


def check_aligned(ctx, case, out, tables, orders_req, site):
    """out = (Fn, Xi, Phi, order_out, Fn_cov, Xi_cov, Phi_cov) as returned / stored; tables = (Fn_pol, Fn_pol_cov, Xi_pol_cov).
    One variance per extracted frequency, and entry k is the table entry of a pole that produced Fn[k] (same value at one of the
    requested orders) - selection itself is not judged here (that is C11)."""
    Fn, Xi, Phi, order_out, Fc, Xc, Pc = out
    Fp, Fpc, Xpc = tables
    Fn = np.atleast_1d(np.asarray(Fn, float)).reshape(-1)
    if Fc is None:
        ctx.fail("oracle", "%s: no frequency variances returned although covariance tables were supplied" % site, case, key="C17:mpe:none")
        return
    Fc = np.atleast_1d(np.asarray(Fc, float)).reshape(-1)
    Xc = np.atleast_1d(np.asarray(Xc, float)).reshape(-1)
    if len(Fc) != len(Fn) or len(Xc) != len(Fn) or (len(Fn) > 0 and Pc is not None and np.shape(Pc) != np.shape(Phi)) \
            or (len(Fn) == 0 and Pc is not None and np.size(Pc) != 0):
        ctx.fail("oracle", "%s: %d frequencies extracted but %d frequency variances, %d damping variances, mode-shape variances of shape %s "
                 "(shapes %s)" % (site, len(Fn), len(Fc), len(Xc), np.shape(Pc), np.shape(Phi)), case, key="C17:mpe:length")
        return
    cols = sorted(set(int(o) for o in orders_req))
    for k, f in enumerate(Fn):
        cands = [(i, o) for o in cols for i in range(Fp.shape[0]) if Fp[i, o] == f]
        if not cands:
            ctx.note("%s: an extracted frequency is not an entry of the pole table at a requested order (not judged here)" % site)
            continue
        if not any(_same(Fpc[i, o], Fc[k]) and _same(Xpc[i, o], Xc[k]) for (i, o) in cands):
            i, o = cands[0]
            ctx.fail("oracle", "%s: Fn[%d] = %.6g (order %d) is paired with variance %.6g, the table holds %.6g for that pole "
                     "(entries shifted / another pole's variance)" % (site, k, f, o, Fc[k], Fpc[i, o]),
                     dict(case, k=k, expected=float(Fpc[i, o]), got=float(Fc[k])), key="C17:mpe:aligned")
            return


def request_patterns(rng, found, missed):
    """Request lists with missed requests before / between / after found ones."""
    pats = ["MF", "FMF", "FFM", "MMFF", "FMMF", "MFMF", "F", "FF", "M"]
    pat = pats[int(rng.integers(len(pats)))]
    fi = mi = 0
    req = []
    for ch in pat:
        if ch == "F" and fi < len(found):
            req.append(found[fi]); fi += 1
        elif ch == "M" and mi < len(missed):
            req.append(missed[mi]); mi += 1
    return pat, req


def mpe_function_cases(ctx, count):
    """ssi.SSI_mpe on synthetic pole tables (distinct frequencies and variances), order as int / list / find_min."""
    rng = ctx.np_rng
    for c in range(count):
        ordmax = int(rng.integers(3, 8))
        nch = int(rng.integers(1, 4))
        shape = (ordmax, ordmax + 1)
        Fp = np.full(shape, np.nan)
        base = np.sort(rng.uniform(1.0, 40.0, size=ordmax)) + np.arange(ordmax) * 3.0
        for o in range(1, ordmax + 1):
            Fp[:o, o] = base[:o] * (1 + 1e-3 * rng.standard_normal(o))
        fin = np.isfinite(Fp)
        Xp = np.where(fin, rng.uniform(0.005, 0.08, size=shape), np.nan)
        Pp = np.where(fin[:, :, None], rng.standard_normal(shape + (nch,)) + 1j * rng.standard_normal(shape + (nch,)), np.nan)
        Fpc = np.where(fin, 10.0 ** rng.uniform(-6, -1, size=shape), np.nan)
        Xpc = np.where(fin, 10.0 ** rng.uniform(-8, -3, size=shape), np.nan)
        Ppc = np.where(fin[:, :, None], 10.0 ** rng.uniform(-6, -2, size=shape + (nch,)), np.nan)
        Lab = np.where(fin, 1, 0)
        mode = ("list", "int", "find_min")[c % 3] if c % 7 else "list"
        o0 = int(rng.integers(2, ordmax + 1))
        col = Fp[:o0, o0]
        found = [float(x * (1 + 0.01 * rng.uniform(-1, 1))) for x in rng.permutation(col)]
        missed = [float(x) for x in (col[:-1] + col[1:]) / 2 if np.min(np.abs(col - x) / x) > 0.12] + [float(col[-1] * 1.6), float(col[0] * 0.4)]
        pat, req = request_patterns(rng, found, list(rng.permutation(missed)))
        if mode == "find_min":
            req = sorted(req)
        if mode == "list":
            order = [o0 if rng.random() < 0.6 else int(rng.integers(max(2, o0 - 1), ordmax + 1)) for _ in req]
        else:
            order = o0 if mode == "int" else "find_min"
        case = dict(kind="mpe", pattern=pat, sel_freq=req, order=order, Fn_pol=Fp.tolist(), Xi_pol=Xp.tolist(), Fn_cov=Fpc.tolist(),
                    Xi_cov=Xpc.tolist(), nch=nch, seed_phi=int(rng.integers(1 << 30)))
        yield case, (Fp, Xp, Pp, Lab, Fpc, Xpc, Ppc)


def run_mpe_function(ctx, case, tabs=None):
    if tabs is None:  # replay from a corpus file: mode shapes are not part of the judged output, regenerate them
        Fp, Xp, Fpc, Xpc = (np.array([[np.nan if v is None or v == "nan" else v for v in row] for row in case[k]], float)
                            for k in ("Fn_pol", "Xi_pol", "Fn_cov", "Xi_cov"))
        r2 = np.random.default_rng(case.get("seed_phi", 0))
        fin = np.isfinite(Fp)
        Pp = np.where(fin[:, :, None], r2.standard_normal(Fp.shape + (case["nch"],)) + 0j, np.nan)
        Ppc = np.where(fin[:, :, None], r2.uniform(1e-6, 1e-2, size=Fp.shape + (case["nch"],)), np.nan)
        Lab = np.array(case["Lab"], int) if case.get("Lab") is not None else np.where(fin, 1, 0)
    else:
        Fp, Xp, Pp, Lab, Fpc, Xpc, Ppc = tabs
    order = case["order"]
    rtol = case.get("rtol", 5e-2)
    ctx.hist("mpe order kind", "list" if isinstance(order, list) else str(type(order).__name__))
    ctx.hist("mpe request pattern (F found, M missed)", case.get("pattern"))
    ctx.count(case)
    def by_keyword():
        return ssi.SSI_mpe(list(case["sel_freq"]), Fp, Xp, Pp, order, Lab=Lab, rtol=rtol, Fn_cov=Fpc.copy(), Xi_cov=Xpc.copy(), Phi_cov=Ppc.copy())

    if case.get("positional"):  # part C: the judged output comes from the fully positional call
        st, out = both_forms(ctx, case, "SSI_mpe", lambda: ssi.SSI_mpe(list(case["sel_freq"]), Fp, Xp, Pp, order, Lab, rtol,
                                                                      Fpc.copy(), Xpc.copy(), Ppc.copy()), by_keyword)
        if st == "both-raise" and len(case["sel_freq"]) > 0:
            ctx.fail("oracle", "SSI_mpe with covariance tables raised", case, key="C17:mpe:raises")
        if out is None or not isinstance(out, tuple) or len(out) != 7:
            return
    else:
        try:
            out = by_keyword()
        except Exception as e:
            if len(case["sel_freq"]) == 0:
                return
            ctx.fail("oracle", "SSI_mpe with covariance tables raised %s" % type(e).__name__, case, key="C17:mpe:raises")
            return
    orders_req = order if isinstance(order, list) else ([order] if isinstance(order, int) else
                                                        ([] if out[3] is None else [int(out[3])]))
    check_aligned(ctx, case, out, (Fp, Fpc, Xpc), orders_req, "ssi.SSI_mpe(order=%s)" % ("list" if isinstance(order, list) else order))


def run_mpe_class(ctx, case):
    """SSIcov / SSIdat(method=cov_mm) with calc_unc=True: run, then mpe with int / list / find_min orders and request lists built from
    the class's own pole table (found = a pole of that order, missed = far from every pole of that order)."""
    from pyoma2.algorithms import SSIcov, SSIdat
    from pyoma2.setup import SingleSetup
    Y = np.array(case["Y"], float)
    cls = SSIcov if case["cls"] == "SSIcov" else SSIdat
    ss = SingleSetup(Y.T.copy(), fs=case["fs"])
    alg = cls(name="u", method="cov_mm", br=case["br"], ordmax=case["ordmax"], ref_ind=case["refs"], calc_unc=True, nb=case["nb"], hc=dict(LOOSE_HC))
    ss.add_algorithms(alg)
    ctx.count(case)
    try:
        ss.run_by_name("u")
    except Exception as e:
        ctx.fail("oracle", "%s(calc_unc=True).run raised %s" % (case["cls"], type(e).__name__), case, key="C17:glue:raises")
        return
    res = alg.result
    Fp = np.asarray(res.Fn_poles, float)
    if res.Fn_poles_cov is None:
        ctx.fail("oracle", "%s(calc_unc=True).result.Fn_poles_cov missing" % case["cls"], case, key="C17:glue:shape")
        return
    Fpc, Xpc = np.asarray(res.Fn_poles_cov, float), np.asarray(res.Xi_poles_cov, float)
    # the table itself against the finite-difference oracle (cells the class blanked are skipped)
    if not case.get("_table_checked"):
        H, T = ssi.build_hank(Y, Y[case["refs"], :], case["br"], "cov_mm", calc_unc=True, nb=case["nb"])
        check_propagation(ctx, dict(case, note="reported = result.Fn_poles_cov"), np.asarray(H), np.asarray(T), case["br"], case["ordmax"],
                          1.0 / case["fs"], "class-mpe", reported=Fpc)
    rng = np.random.default_rng(case["seed_req"])
    for req_spec in case.get("requests") or [None] * 4:
        if req_spec is None:
            cols = [o for o in range(2, Fp.shape[1]) if len(np.unique(Fp[np.isfinite(Fp[:, o]), o])) >= 2]
            if not cols:
                return
            o0 = int(rng.choice(cols))
            col = np.unique(Fp[np.isfinite(Fp[:, o0]), o0])
            found = [float(x * (1 + 0.005 * rng.uniform(-1, 1))) for x in rng.permutation(col)]
            allf = Fp[np.isfinite(Fp)]
            missed = [float(x) for x in np.concatenate([(col[:-1] + col[1:]) / 2, [col[-1] * 1.7 + 1.0, col[0] * 0.3]])
                      if np.min(np.abs(allf - x) / np.maximum(allf, x)) > 0.12]
            pat, req = request_patterns(rng, found, list(rng.permutation(missed)))
            mode = ("list", "list", "int", "find_min")[int(rng.integers(4))]
            if mode == "list":
                order = [o0 if (rng.random() < 0.7 or len(cols) < 2) else int(rng.choice(cols)) for _ in req]
            else:
                order = o0 if mode == "int" else "find_min"
            req_spec = dict(pattern=pat, sel_freq=req, order=order)
        if not req_spec["sel_freq"]:
            continue
        order = req_spec["order"]
        ctx.hist("mpe order kind", "class:" + ("list" if isinstance(order, list) else str(type(order).__name__)))
        ctx.hist("mpe request pattern (F found, M missed)", req_spec.get("pattern"))
        sub = dict({k: v for k, v in case.items() if k not in ("requests", "_table_checked")}, requests=[req_spec])
        try:
            alg.mpe(sel_freq=list(req_spec["sel_freq"]), order=order, rtol=5e-2)
        except Exception as e:
            if order == "find_min" or isinstance(e, ValueError):
                continue  # nothing found at any order / an all-blank column: selection behaviour, not judged here
            ctx.fail("oracle", "%s.mpe after a calc_unc run raised %s" % (case["cls"], type(e).__name__), sub, key="C17:mpe:raises")
            continue
        r = alg.result
        orders_req = order if isinstance(order, list) else ([order] if isinstance(order, int) else ([] if r.order_out is None else [int(r.order_out)]))
        check_aligned(ctx, sub, (r.Fn, r.Xi, r.Phi, r.order_out, r.Fn_cov, r.Xi_cov, r.Phi_cov), (Fp, Fpc, Xpc), orders_req,
                      "%s.mpe(order=%s)" % (case["cls"], "list" if isinstance(order, list) else order))


def mpe_stream(ctx):
    rng = ctx.np_rng
    for case, tabs in mpe_function_cases(ctx, ctx.n(60, 600)):
        run_mpe_function(ctx, case, tabs)
    for k in range(ctx.n(6, 40)):
        l = int(rng.integers(2, 4))
        refs = sorted(rng.choice(l, size=int(rng.integers(1, l + 1)), replace=False).tolist())
        br = int(rng.integers(3, 6))
        ordmax = int(min(6, br * l, (br + 1) * len(refs)))
        run_mpe_class(ctx, dict(kind="mpe-class", cls=("SSIcov", "SSIdat")[k % 2], refs=refs, br=br, ordmax=ordmax, nb=int(rng.integers(4, 13)),
                                fs=50.0, seed_req=int(rng.integers(1 << 30)), Y=gen_data(rng, l, 6, int(rng.integers(900, 1500))).tolist()))


def glue(ctx):
    rng = ctx.np_rng
    for k in range(ctx.n(3, 12)):
        l = int(rng.integers(2, 4))
        refs = sorted(rng.choice(l, size=int(rng.integers(1, l + 1)), replace=False).tolist())
        br = int(rng.integers(2, 5))
        ordmax = int(min(4, br * l, (br + 1) * len(refs)))
        check_class(ctx, dict(kind="class", refs=refs, br=br, ordmax=ordmax, nb=int(rng.integers(2, 9)), fs=50.0,
                              Y=gen_data(rng, l, 4, 500).tolist()))
    # the small edge of the quantifier with MANY factor columns: nb below, at and above the number of Hankel entries
    configs = [(1, [0], 2), (1, [0], 3), (2, [0], 2), (2, [1], 2), (2, [1, 0], 2), (2, [0], 3), (2, [0, 1], 3)]
    for k in range(ctx.n(14, 84)):
        l, refs, br = configs[k % len(configs)]
        d = (br + 1) ** 2 * l * len(refs)
        if d < 30 and k % 2 == 0:
            nb = d + 1 if k % 3 == 0 else int(rng.integers(d + 1, 31))
        else:
            nb = min(d, 30) if k % 5 == 0 else int(rng.integers(2, min(d, 30) + 1))
        ordmax = int(min(4, br * l, (br + 1) * len(refs)))
        Y = gen_data(rng, l, 2 if l == 1 else 4, int(rng.integers(700, 1500)))
        check_class(ctx, dict(kind="class", refs=refs, br=br, ordmax=ordmax, nb=nb, fs=float(rng.choice([20.0, 50.0])), Y=Y.tolist()))


# ----------------------------------------------------------------------------------------------------------------
# input FORMS the property does not restrict: read-only arrays, NumPy-scalar option values, storage dtypes
# (established on the unchanged tree:  every array input may be read-only;  br / nb / ordmax / step / ref_ind entries may be
#  int, np.int64, np.int32, an element of np.arange, a 0-d array;  dt / fs / rtol may be float, np.float64, a 0-d array;
#  the CLASS takes calc_unc as True / 1 / np.True_ alike, the FUNCTIONS switch uncertainties on for the literal True only and treat
#  1 / np.True_ alike (off);  SSI_mpe takes order as int or as a list whose entries may be NumPy integers - a bare np.int64 order is
#  rejected by the unchanged tree and is not required;  integer records of any width and float32 records / matrices are accepted)
# ----------------------------------------------------------------------------------------------------------------
INT_FORMS = {"int": int, "int64": np.int64, "int32": np.int32, "arange": lambda v: np.arange(int(v) + 1)[int(v)], "0d": lambda v: np.array(int(v))}
FLOAT_FORMS = {"float": float, "float64": np.float64, "0d": lambda v: np.array(float(v))}
BOOL_FORMS = {"True": True, "1": 1, "np.True_": np.True_}


def _ro(a):
    a = np.array(a, copy=True)
    a.setflags(write=False)
    return a


def fn_pipeline(Y, Yr, br, nb, ordmax, dt, step=1, readonly=False, req=None, order=None, rtol=5e-2):
    """build_hank -> SSI_fast -> SSI_poles (-> SSI_mpe), calc_unc=True; with readonly every array handed over is read-only.
    Returns (Fn_cov table, extracted Fn_cov or None, list of (name, array handed over, private copy))."""
    wrap = _ro if readonly else (lambda a: a)
    given = []

    def g(name, a):
        a = wrap(a)
        given.append((name, a, np.array(a, copy=True)))
        return a
    H, T = ssi.build_hank(g("Y", Y), g("Yref", Yr), br, "cov_mm", calc_unc=True, nb=nb)
    o = ssi.SSI_fast(g("H", H), br, ordmax, step=step, calc_unc=True, T=g("T", T), nb=nb)
    r = ssi.SSI_poles(g("Obs", o[0]), [g("A", a) for a in o[1]], [g("C", c) for c in o[2]], ordmax, dt, step=step, calc_unc=True,
                      Q1=g("Q1", o[3]), Q2=g("Q2", o[4]), Q3=g("Q3", o[5]), Q4=g("Q4", o[6]))
    sel = None
    if req is not None:
        Lab = np.where(np.isfinite(r[0]), 1, 0)
        sel = ssi.SSI_mpe(req, g("Fn_pol", r[0]), g("Xi_pol", r[1]), g("Phi_pol", r[2]), order, Lab=g("Lab", Lab), rtol=rtol,
                          Fn_cov=g("Fn_pol_cov", r[4]), Xi_cov=g("Xi_pol_cov", r[5]), Phi_cov=g("Phi_pol_cov", r[6]))[4]
    return np.asarray(r[4], float), sel, given


def tables_agree(a, b, rtol):
    a, b = np.asarray(a, float), np.asarray(b, float)
    if a.shape != b.shape or not np.array_equal(np.isfinite(a), np.isfinite(b)):
        return False
    m = np.isfinite(a)
    return bool(np.all(np.abs(a[m] - b[m]) <= rtol * np.abs(b[m])))


def run_forms(ctx, case):
    """One base input, presented in other FORMS; every accepted form of the same value must give the same variances (the plain form
    itself is judged by the finite-difference oracle)."""
    from pyoma2.algorithms import SSIcov
    from pyoma2.setup import SingleSetup
    Y = np.array(case["Y"], float)  # integer-valued records (A/D counts)
    refs, br, nb, ordmax, fs = case["refs"], case["br"], case["nb"], case["ordmax"], case["fs"]
    dt = 1.0 / fs
    var = case["variant"]
    item = var["item"]
    ctx.hist("forms", "%s:%s" % (item, var.get("dtype") or var.get("int") or ""))
    ctx.count(case)
    if item == "dtype" and var["dtype"].startswith("uint"):
        Y = Y - Y.min()
    if item == "dtype" and var["dtype"] == "float32":
        Y = (Y / 7.0).astype(np.float32).astype(float)  # the float64 image of a float32 record
    Yr = Y[refs, :]
    try:
        base_tab, _, _ = fn_pipeline(Y, Yr, br, nb, ordmax, dt)
    except Exception as e:
        ctx.fail("oracle", "uncertainty pipeline raised %s on plain float64 inputs" % type(e).__name__, case, key="C17:prop:raises")
        return
    H0, T0 = ssi.build_hank(Y, Yr, br, "cov_mm", calc_unc=True, nb=nb)
    inside = check_propagation(ctx, dict(case, note="plain forms; H, T = build_hank(Y, Y[refs], br, cov_mm, calc_unc=True, nb)"),
                               np.asarray(H0), np.asarray(T0), br, ordmax, dt, "forms") is not None
    col = base_tab[:, ordmax]
    col_f = ssi.SSI_poles(*ssi.SSI_fast(np.asarray(H0), br, ordmax)[:3], ordmax, dt)[0][:, ordmax]
    req = [float(col_f[np.isfinite(col_f)][0]) * 1.003] if np.isfinite(col_f).any() else None

    def base_class(Yd):
        ss = SingleSetup(Yd.T.copy(), fs=fs)
        alg = SSIcov(name="u", method="cov_mm", br=br, ordmax=ordmax, ref_ind=refs, calc_unc=True, nb=nb, hc=dict(LOOSE_HC))
        ss.add_algorithms(alg)
        ss.run_by_name("u")
        return np.asarray(alg.result.Fn_poles_cov, float)

    def judge(what, got, exp, rtol, site):
        if not tables_agree(got, exp, rtol):
            ctx.fail("oracle", "%s: %s gives other frequency variances than the plain form of the same value (tolerance %g)" % (site, what, rtol),
                     case, key="C17:forms:%s:value" % item)

    try:
        if item == "readonly":
            tab, sel, given = fn_pipeline(Y, Yr, br, nb, ordmax, dt, readonly=True, req=req, order=[ordmax] if req else None)
            for name, a, keep in given:
                if not np.array_equal(a, keep, equal_nan=True):
                    ctx.fail("oracle", "the function wrote into its input %s" % name, case, key="C17:forms:readonly:written")
            judge("read-only input arrays", tab, base_tab, 1e-12, "build_hank/SSI_fast/SSI_poles/SSI_mpe")
            d = Y.T.copy()  # same memory layout as the plain run
            d.setflags(write=False)
            ss = SingleSetup(d, fs=fs)
            alg = SSIcov(name="u", method="cov_mm", br=br, ordmax=ordmax, ref_ind=refs, calc_unc=True, nb=nb, hc=dict(LOOSE_HC))
            ss.add_algorithms(alg)
            ss.run_by_name("u")
            judge("a read-only data array", alg.result.Fn_poles_cov, base_class(Y), 1e-12, "SSIcov through SingleSetup")
            if not np.array_equal(d, Y.T):
                ctx.fail("oracle", "the class wrote into the caller's data array", case, key="C17:forms:readonly:written")
        elif item == "optforms":
            try:
                fi, ff = INT_FORMS[var["int"]], FLOAT_FORMS[var["float"]]
                order = [fi(ordmax)] if req else None
                tab, sel, _ = fn_pipeline(Y, Yr, fi(br), fi(nb), fi(ordmax), ff(dt), step=fi(1), req=req, order=order, rtol=ff(5e-2))
                judge("br / nb / ordmax / step as %s, dt / rtol as %s" % (var["int"], var["float"]), tab, base_tab, 1e-12, "build_hank/SSI_fast/SSI_poles")
                if req:
                    _, sel0, _ = fn_pipeline(Y, Yr, br, nb, ordmax, dt, req=req, order=[ordmax])
                    if np.shape(sel) != np.shape(sel0) or not tables_agree(sel, sel0, 1e-12):
                        ctx.fail("oracle", "SSI_mpe: orders given as %s in a list / rtol as %s give other variances than plain int / float"
                                 % (var["int"], var["float"]), case, key="C17:forms:optforms:value")
                # the functions' calc_unc: 1 and np.True_ are treated alike by the unchanged tree (whatever that treatment is)
                outs = [ssi.build_hank(Y, Yr, br, "cov_mm", calc_unc=b, nb=nb)[1] for b in (1, np.True_)]
                if (outs[0] is None) != (outs[1] is None) or (outs[0] is not None and not np.array_equal(outs[0], outs[1])):
                    ctx.fail("oracle", "build_hank treats calc_unc=1 and calc_unc=np.True_ differently", case, key="C17:forms:optforms:bool")
                exp = base_class(Y)
                ss = SingleSetup(Y.T.copy(), fs=ff(fs))
                rf = [fi(x) for x in refs] if var["int"] != "0d" else np.array(refs)
                alg = SSIcov(name="u", method="cov_mm", br=fi(br), ordmax=fi(ordmax), ref_ind=rf, calc_unc=BOOL_FORMS[var["bool"]], nb=fi(nb),
                             hc=dict(LOOSE_HC))
                ss.add_algorithms(alg)
                ss.run_by_name("u")
                if alg.result.Fn_poles_cov is None:
                    ctx.fail("oracle", "SSIcov(calc_unc=%s) stores no variances although the class accepts that form as true" % var["bool"], case,
                             key="C17:forms:optforms:bool")
                else:
                    judge("br / ordmax / nb / ref_ind as %s, fs as %s, calc_unc=%s" % (var["int"], var["float"], var["bool"]),
                          alg.result.Fn_poles_cov, exp, 1e-12, "SSIcov through SingleSetup")
            except (TypeError, ValueError) as e_form:
                if (var["int"], var["float"], var["bool"]) == ("int", "float", "True"):
                    raise   # plain Python values: a refusal is a failure (reported by the enclosing handler)
                # a NumPy scalar / 0-d array spelling of a number refused by input validation while the plain value is accepted: the
                # property does not say which exotic spellings must be accepted, only that an accepted one means the same
                ctx.hist("option forms refused by input validation", type(e_form).__name__)
                ctx.not_judged += 1
        else:
            dtp = np.dtype(var["dtype"])
            rt = 1e-2 if dtp == np.float32 else 1e-9
            if dtp == np.float32 and not inside:
                return  # float32 is only judged on inputs inside the property's guards (conditioning)
            Yd = Y.astype(dtp)
            tab, _, _ = fn_pipeline(Yd, Yd[refs, :], br, nb, ordmax, dt)
            judge("records stored as %s" % dtp, tab, base_tab, rt, "build_hank/SSI_fast/SSI_poles")
            if dtp == np.float32:
                o = ssi.SSI_fast(np.asarray(H0).astype(dtp), br, ordmax, calc_unc=True, T=np.asarray(T0).astype(dtp), nb=nb)
                r = ssi.SSI_poles(o[0], o[1], o[2], ordmax, dt, calc_unc=True, Q1=o[3], Q2=o[4], Q3=o[5], Q4=o[6])
                judge("Hankel matrix and factor stored as float32", r[4], base_tab, rt, "SSI_fast/SSI_poles")
            ss = SingleSetup(Yd.T.copy(), fs=fs)
            alg = SSIcov(name="u", method="cov_mm", br=br, ordmax=ordmax, ref_ind=refs, calc_unc=True, nb=nb, hc=dict(LOOSE_HC))
            ss.add_algorithms(alg)
            ss.run_by_name("u")
            judge("data stored as %s" % dtp, alg.result.Fn_poles_cov, base_class(Y), rt, "SSIcov through SingleSetup")
    except Exception as e:
        ctx.fail("oracle", "%s form of the inputs (%s) raised %s: %s - the plain form of the same values is accepted"
                 % (item, {k: v for k, v in var.items() if k != "item"}, type(e).__name__, str(e)[:120]), case, key="C17:forms:%s:raises" % item)


def forms_stream(ctx):
    rng = ctx.np_rng
    for k in range(ctx.n(9, 90)):
        l = int(rng.integers(1, 4))
        refs = sorted(rng.choice(l, size=int(rng.integers(1, l + 1)), replace=False).tolist())
        br = int(rng.integers(2, 5))
        ordmax = int(min(4, br * l, (br + 1) * len(refs)))
        if ordmax < 2:
            continue
        Y = np.round(gen_data(rng, l, 4, int(rng.integers(400, 800))) * 8)  # integer counts
        item = ("readonly", "optforms", "dtype")[k % 3]
        var = dict(item=item)
        if item == "optforms":
            var.update(int=["int64", "0d", "arange", "int32"][(k // 3) % 4], float=["0d", "float64"][(k // 3) % 2], bool=["np.True_", "1"][(k // 3) % 2])
        elif item == "dtype":
            var.update(dtype=["int32", "float32", "uint16", "int64", "int16", "uint32"][(k // 3) % 6])
        run_forms(ctx, dict(kind="forms", refs=refs, br=br, nb=int(rng.integers(2, 9)), ordmax=ordmax, fs=float(rng.choice([20.0, 50.0])),
                            variant=var, Y=Y.tolist()))


# ----------------------------------------------------------------------------------------------------------------
# part C: the same calls with every argument by position (documented parameter order, hard-coded at the call sites)
# ----------------------------------------------------------------------------------------------------------------
POS_RTOL = 0.12   # not the default 5e-2: a request 8 % off a pole is found with this tolerance and missed with the default


def run_positional(ctx, case):
    e = case["entry"]
    if e == "build_hank":
        check_factor(ctx, case, case["Y"], case["Yref"], case["br"], case["nb"], None, None, positional=True)
    elif e == "chain":
        positional_chain(ctx, case)
    elif e == "SSI_mpe":
        run_mpe_function(ctx, dict(case, positional=True))
    elif e == "class":
        run_positional_class(ctx, case)


def positional_chain(ctx, case):
    """SSI_fast and SSI_poles (calc_unc=True), each in both call forms on the same input; then the finite-difference oracle of
    part P on the table the positional calls produce."""
    H = np.array(case["H"], float)
    T = np.array(case["T"], float).reshape(H.size, -1)
    br, ordmax, dt, nbc = case["br"], case["ordmax"], case["dt"], T.shape[1]
    st, o = both_forms(ctx, case, "SSI_fast", lambda: ssi.SSI_fast(H, br, ordmax, 1, True, T, nbc),
                       lambda: ssi.SSI_fast(H, br, ordmax, calc_unc=True, T=T, nb=nbc))
    if o is not None and isinstance(o, tuple) and len(o) == 7 and o[3] is not None:
        both_forms(ctx, case, "SSI_poles", lambda: ssi.SSI_poles(o[0], o[1], o[2], ordmax, dt, 1, True, o[3], o[4], o[5], o[6]),
                   lambda: ssi.SSI_poles(o[0], o[1], o[2], ordmax, dt, calc_unc=True, Q1=o[3], Q2=o[4], Q3=o[5], Q4=o[6]))
    check_propagation(ctx, case, H, T, br, ordmax, dt, "positional", positional=True)


def positional_mpe_cases(ctx, count):
    """Pole tables with well separated frequencies (ratio 1.6 between neighbours); requests: one that only the non-default rtol
    finds (8 % off a pole; for find_min 0.08 Hz off - that mode takes rtol in Hz), near hits, misses; Lab marks poles stable from an order
    o_st > 1 onwards only, so that find_min depends on it."""
    rng = ctx.np_rng
    for c in range(count):
        ordmax = int(rng.integers(4, 8))
        nch = int(rng.integers(2, 4))
        shape = (ordmax, ordmax + 1)
        base = 2.0 * 1.6 ** np.arange(ordmax) * (1 + 0.01 * rng.uniform(-1, 1, size=ordmax))
        Fp = np.full(shape, np.nan)
        for o in range(1, ordmax + 1):
            Fp[:o, o] = base[:o] * (1 + 1e-4 * rng.standard_normal(o))
        fin = np.isfinite(Fp)
        Xp = np.where(fin, rng.uniform(0.005, 0.08, size=shape), np.nan)
        Pp = np.where(fin[:, :, None], rng.standard_normal(shape + (nch,)) + 1j * rng.standard_normal(shape + (nch,)), np.nan)
        Fpc = np.where(fin, 10.0 ** rng.uniform(-6, -1, size=shape), np.nan)
        Xpc = np.where(fin, 10.0 ** rng.uniform(-8, -3, size=shape), np.nan)
        Ppc = np.where(fin[:, :, None], 10.0 ** rng.uniform(-6, -2, size=shape + (nch,)), np.nan)
        o_st = int(rng.integers(2, ordmax))
        Lab = np.where(fin & (np.arange(ordmax + 1)[None, :] >= o_st), 1, 0)
        mode = ("int", "list", "find_min")[c % 3]
        sgn = float(rng.choice([-1.0, 1.0]))
        if mode == "find_min":
            m = int(rng.integers(1, o_st + 1))
            idx = sorted(int(i) for i in rng.choice(o_st, size=m, replace=False))
            off = rng.uniform(-0.01, 0.01, size=m)
            off[int(rng.integers(m))] = 0.08 * sgn
            req = [float(Fp[i, o_st] + d) for i, d in zip(idx, off)]
            order, pat = "find_min", "F" * m
        else:
            o0 = int(rng.integers(2, ordmax + 1))
            col = Fp[:o0, o0]
            perm = [int(i) for i in rng.permutation(o0)]
            found = [float(col[perm[0]] * (1 + 0.08 * sgn))] + [float(col[i] * (1 + 0.003 * rng.uniform(-1, 1))) for i in perm[1:]]
            missed = [float(col[int(i)] * 1.3) for i in rng.permutation(o0)]
            pat = ["F", "FM", "MF", "FMF", "FFM", "MFF", "MFMF"][int(rng.integers(7))]
            req, fi, mi = [], 0, 0
            for ch in pat:
                if ch == "F" and fi < len(found):
                    req.append(found[fi]); fi += 1
                elif ch == "M" and mi < len(missed):
                    req.append(missed[mi]); mi += 1
            order = o0 if mode == "int" else [o0 if rng.random() < 0.6 else int(rng.integers(o0, ordmax + 1)) for _ in req]
        case = dict(kind="positional", entry="SSI_mpe", rtol=POS_RTOL, pattern=pat, sel_freq=req, order=order, Fn_pol=Fp.tolist(),
                    Xi_pol=Xp.tolist(), Fn_cov=Fpc.tolist(), Xi_cov=Xpc.tolist(), Lab=Lab.tolist(), nch=nch, seed_phi=int(rng.integers(1 << 30)))
        yield case, (Fp, Xp, Pp, Lab, Fpc, Xpc, Ppc)


def run_positional_class(ctx, case):
    """SSIcov / SSIdat(cov_mm), calc_unc=True.  SingleSetup(data, fs) by position; after the run mpe three ways on the same object -
    alg.mpe(sel_freq=, order=, rtol=), alg.mpe(sel_freq, order, rtol), setup.mpe(name, sel_freq, order, rtol) - with an order and an
    rtol that are not the defaults: the same stored result, and every variance aligned with its frequency (part A's oracle)."""
    from pyoma2.algorithms import SSIcov, SSIdat
    from pyoma2.setup import SingleSetup
    Y = np.array(case["Y"], float)
    fs, cname = case["fs"], case["cls"]
    cls = SSIcov if cname == "SSIcov" else SSIdat
    ctx.count(case)

    def build(positional):
        ss = SingleSetup(Y.T.copy(), fs) if positional else SingleSetup(Y.T.copy(), fs=fs)
        alg = cls(name="u", method="cov_mm", br=case["br"], ordmax=case["ordmax"], ref_ind=case["refs"], calc_unc=True, nb=case["nb"],
                  hc=dict(LOOSE_HC))
        ss.add_algorithms(alg)
        ss.run_by_name("u")
        return ss, alg

    def tables(sa):
        r = sa[1].result
        return (r.Fn_poles, r.Fn_poles_cov, r.Xi_poles_cov)
    made = {}
    st, _ = both_forms(ctx, case, "SingleSetup", lambda: tables(made.setdefault("p", build(True))), lambda: tables(made.setdefault("k", build(False))))
    if st == "both-raise":
        ctx.fail("oracle", "%s(calc_unc=True).run raised" % cname, case, key="C17:glue:raises")
    if "p" not in made:
        return
    ss, alg = made["p"]
    res = alg.result
    if res.Fn_poles_cov is None:
        ctx.fail("oracle", "%s(calc_unc=True).result.Fn_poles_cov missing" % cname, case, key="C17:glue:shape")
        return
    Fp, Fpc, Xpc = np.asarray(res.Fn_poles, float), np.asarray(res.Fn_poles_cov, float), np.asarray(res.Xi_poles_cov, float)
    rng = np.random.default_rng(case["seed_req"])
    for req_spec in case.get("requests") or [None] * 3:
        if req_spec is None:
            cols = [o for o in range(2, Fp.shape[1]) if len(np.unique(Fp[np.isfinite(Fp[:, o]), o])) >= 2]
            if not cols:
                return
            o0 = int(rng.choice(cols))
            col = np.unique(Fp[np.isfinite(Fp[:, o0]), o0])
            found = [float(x * (1 + 0.003 * rng.uniform(-1, 1))) for x in rng.permutation(col)]
            # a request that only the non-default rtol finds: 8 % off a pole that stays the nearest one of its column
            sens = [float(x * f) for x in rng.permutation(col) for f in (1.08, 0.92) if col[int(np.argmin(np.abs(col - x * f)))] == x]
            ctx.hist("positional class request needs the non-default rtol", bool(sens))
            if sens:
                found = [sens[0]] + [f for f in found if abs(f - sens[0]) > 0.1 * sens[0]]
            allf = Fp[np.isfinite(Fp)]
            missed = [float(x) for x in np.concatenate([(col[:-1] + col[1:]) / 2, [col[-1] * 1.7 + 1.0, col[0] * 0.3]])
                      if np.min(np.abs(allf - x) / np.maximum(allf, x)) > 0.2]
            pat = ["F", "FM", "MF", "FMF", "FFM", "MFF"][int(rng.integers(6))]
            req, fi, mi = [], 0, 0
            for ch in pat:
                if ch == "F" and fi < len(found):
                    req.append(found[fi]); fi += 1
                elif ch == "M" and mi < len(missed):
                    req.append(missed[mi]); mi += 1
            order = o0 if rng.random() < 0.5 else [o0 if (rng.random() < 0.7 or len(cols) < 2) else int(rng.choice(cols)) for _ in req]
            req_spec = dict(pattern=pat, sel_freq=req, order=order)
        if not req_spec["sel_freq"]:
            continue
        order, sel = req_spec["order"], req_spec["sel_freq"]
        sub = dict({k: v for k, v in case.items() if k != "requests"}, requests=[req_spec])

        def stored():
            r = alg.result
            return tuple(None if x is None else np.array(x, copy=True) for x in (r.Fn, r.Xi, r.Phi, r.order_out, r.Fn_cov, r.Xi_cov, r.Phi_cov))

        def by_keyword():
            alg.mpe(sel_freq=list(sel), order=order, rtol=POS_RTOL)
            return stored()

        def by_position():
            alg.mpe(list(sel), order, POS_RTOL)
            return stored()

        def through_setup():
            ss.mpe("u", list(sel), order, POS_RTOL)
            return stored()
        st, out = both_forms(ctx, sub, "%s.mpe" % cname, by_position, by_keyword)
        st2, out2 = both_forms(ctx, sub, "SingleSetup.mpe", through_setup, by_keyword)
        orders_req = order if isinstance(order, list) else [order]
        for o_, site in ((out, "%s.mpe(sel_freq, order, rtol) by position" % cname), (out2, "SingleSetup.mpe(name, sel_freq, order, rtol) by position")):
            if o_ is not None:
                check_aligned(ctx, sub, o_, (Fp, Fpc, Xpc), orders_req, site)


def positional_stream(ctx):
    rng = ctx.np_rng
    # build_hank: small dyadic records, reference rows that are NOT the record itself (a subset, a reversed order, or independent rows)
    todo = ctx.n(10, 60)
    for case in factor_cases(ctx, 6 * todo):
        if case["refs"] is not None and case["refs"] == list(range(len(case["Y"]))):
            continue
        run_positional(ctx, dict(case, kind="positional", entry="build_hank"))
        todo -= 1
        if todo == 0:
            break
    # SSI_fast + SSI_poles: matrices of the sweep of part P (1-20 factor columns, never the default 100)
    for case in propagation_cases(ctx, ctx.n(8, 60), small=False):
        run_positional(ctx, dict(case, kind="positional", entry="chain"))
    # SSI_mpe
    for case, tabs in positional_mpe_cases(ctx, ctx.n(12, 120)):
        run_mpe_function(ctx, dict(case, positional=True), tabs)
    # the classes and the setup
    for k in range(ctx.n(2, 12)):
        l = int(rng.integers(2, 4))
        refs = sorted(rng.choice(l, size=int(rng.integers(1, l + 1)), replace=False).tolist())
        br = int(rng.integers(3, 6))
        ordmax = int(min(6, br * l, (br + 1) * len(refs)))
        run_positional(ctx, dict(kind="positional", entry="class", cls=("SSIcov", "SSIdat")[k % 2], refs=refs, br=br, ordmax=ordmax,
                                 nb=int(rng.integers(4, 13)), fs=50.0, seed_req=int(rng.integers(1 << 30)),
                                 Y=gen_data(rng, l, 6, int(rng.integers(900, 1500))).tolist()))
